#!/bin/sh
# Offline setup: nothing to build -- syntax-check every spec and byte-compile the harness.
cd "$(dirname "$0")" || exit 2
rc=0
for f in $(find specs -name '*.tla' | sort); do
  d=$(dirname "$f"); b=$(basename "$f")
  # modules that read a trace file at parse time are skipped by SANY only if they fail for that reason
  (cd "$d" && java -cp /opt/veriftools/tla/tla2tools.jar:/opt/veriftools/tla/CommunityModules-deps.jar tla2sany.SANY "$b" >/tmp/sany.$$ 2>&1) || { echo "SANY failed: $f"; tail -5 /tmp/sany.$$; rc=1; }
done
rm -f /tmp/sany.$$
/venv/bin/python -m compileall -q harness >/dev/null || rc=1
mkdir -p evidence replays .work
exit $rc
