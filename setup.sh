#!/bin/sh
# Offline setup: nothing to build -- syntax-check every spec with SANY (in parallel) and byte-compile the harness.
cd "$(dirname "$0")" || exit 2
LIB=$(find "$(pwd)/specs" -type d | tr '\n' ':')
export LIB
rm -f .work/sany_failed; mkdir -p evidence replays .work
find specs -name '*.tla' | sort | xargs -P 12 -I{} sh -c '
  f="{}"; d=$(dirname "$f"); b=$(basename "$f"); out=$(mktemp)
  (cd "$d" && java -Xss8m -XX:TieredStopAtLevel=1 -DTLA-Library="$LIB" -cp /opt/veriftools/tla/tla2tools.jar:/opt/veriftools/tla/CommunityModules-deps.jar tla2sany.SANY "$b" >"$out" 2>&1) \
    || { echo "SANY failed: $f"; grep -m3 -i "error\|cannot" "$out"; echo "$f" >> .work/sany_failed; }
  rm -f "$out"'
rc=0
[ -s .work/sany_failed ] && rc=1
/venv/bin/python -m compileall -q harness >/dev/null || rc=1
exit $rc
