CONSTANTS
  MaxOps = 7
  Dev_LeftoverWorkOnReuse = FALSE
INIT Init
NEXT Next
INVARIANT TypeOK
INVARIANT Inv_RunningFlag
INVARIANT Inv_LiveHasWork
PROPERTY Act_NoSecondRun
PROPERTY Act_StoreCarried
PROPERTY Act_OneExecutionPerRun
