CONSTANTS
  MaxOps = 6
  Dev_LeftoverWorkOnReuse = TRUE
INIT Init
NEXT Next
PROPERTY Act_OneExecutionPerRun
