CONSTANTS
  MaxOps = 6
  Dev_LeftoverWorkOnReuse = TRUE
INIT Init
NEXT Next
INVARIANT TypeOK
INVARIANT Inv_RunningFlag
INVARIANT Inv_LiveHasWork
PROPERTY Act_NoSecondRun
PROPERTY Act_StoreCarried
