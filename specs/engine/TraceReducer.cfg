INIT Init
NEXT Next
