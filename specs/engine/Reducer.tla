------------------------------- MODULE Reducer -------------------------------
(* The pure tick reducer of the workflow engine:                                          *)
(*   packages/llama-index-workflows/src/workflows/runtime/control_loop.py                 *)
(*     _reduce_tick, _process_*_tick, _add_or_enqueue_event, _check_idle_state,           *)
(*     rewind_in_progress, rebuild_state_from_ticks                                       *)
(*   runtime/types/internal_state.py  BrokerState.to_serialized / from_serialized /       *)
(*     rehydrate_with_ticks                                                               *)
(* One operator per function of the code, same case split, same order of effects.         *)
(* A constant module (no variables): Engine.tla drives it with model-generated ticks,     *)
(* TraceReducer.tla with ticks recorded from the real engine.                             *)
(*                                                                                        *)
(* The state representation is exactly the JSON projection the harness records            *)
(* (harness/drivers/engine.py p_state / p_tick / p_pub), so recorded states compare with  *)
(* `=`.  Times are integers (milliseconds); -1 stands for Python's None.                  *)
(*                                                                                        *)
(* Deviation switches (TRUE = what the code does today, see DESIGN.md 2.5 / 7):           *)
(*   Dev_MatchDoneWaiters   waiter matching does not skip resolved / timed-out waiters    *)
(*   Dev_WaitIndexOneBased  the wait strategy is called with `failures` (>= 1) although   *)
(*                          the strategies index retries from 0                           *)
(*   Dev_NoHandlersUnvalidated  disable_validation=True leaves the handler tables empty   *)
(*   Dev_RepingResolvedWaiters  rehydrate_with_ticks also re-runs the step of a waiter  *)
(*                          that is already answered (fixed in /repo: FALSE is the code)  *)
(******************************************************************************)
EXTENDS Integers, Sequences, FiniteSets, TLC

CONSTANTS Cfg, Dev_MatchDoneWaiters, Dev_WaitIndexOneBased, Dev_NoHandlersUnvalidated, Dev_RepingResolvedWaiters

(* Cfg == [ order    : Seq(step name)  -- config order = sorted names (inspect.getmembers)  *)
(*          steps    : [name -> [accepts: Seq(ty), nw: Nat, role: "step"|"catch_error",     *)
(*                               for_steps: Seq(name) (<<"*">> = wildcard), max_rec: Nat,   *)
(*                               retry: [kind: "none"|"policy", max: Int, stop_delay: Int,  *)
(*                                       retry_on: Seq(exc) (<<"*">> = any),                *)
(*                                       wait: [k, a, b, c, ds]]]],                         *)
(*          validation : BOOLEAN ]                                                          *)

Range(s) == {s[i] : i \in 1..Len(s)}
Min(a, b) == IF a < b THEN a ELSE b
Max(a, b) == IF a > b THEN a ELSE b
RECURSIVE Pow(_, _)
Pow(b, e) == IF e <= 0 THEN 1 ELSE b * Pow(b, e - 1)

StepNames == Cfg.order
StepSet == Range(Cfg.order)
SC(s) == Cfg.steps[s]
Nw(s) == SC(s).nw
Accepts(s) == Range(SC(s).accepts)

IsInputRequired(ty) == ty \in {"Ask"}
IsStop(ty) == ty = "Stop"

NoRc == <<>>                       \* empty recovery-count map (JSON {} deserialises to <<>>)
RcGet(rc, h) == IF h \in DOMAIN rc THEN rc[h] ELSE 0
RcSet(rc, h, v) == [x \in (DOMAIN rc) \cup {h} |-> IF x = h THEN v ELSE rc[x]]

-----------------------------------------------------------------------------
(* handler tables: representation/validate.py _collect_catch_error_handlers (declaratively) *)
Handlers == {s \in StepSet : SC(s).role = "catch_error"}
IsWildcard(h) == SC(h).for_steps = <<"*">>
Scoped(s) == {h \in Handlers : ~IsWildcard(h) /\ s \in Range(SC(h).for_steps)}
Wildcards == {h \in Handlers : IsWildcard(h)}
HandlerFor(s) ==
  IF Dev_NoHandlersUnvalidated /\ ~Cfg.validation THEN "none"
  ELSE IF Scoped(s) # {} THEN CHOOSE h \in Scoped(s) : TRUE
  ELSE IF Wildcards # {} /\ s \notin Handlers THEN CHOOSE h \in Wildcards : TRUE
  ELSE "none"

-----------------------------------------------------------------------------
(* retry policy: retry_policy.py _ComposableRetryPolicy.next                              *)
WaitOf(w, attempts) ==     \* what the strategy object returns for its `attempts` argument
  CASE w.k = "fixed" -> w.a
    [] w.k = "chain" -> w.ds[Min(attempts, Len(w.ds) - 1) + 1]
    \* wait_chain(fixed ds[1], .., fixed ds[n], wait_incrementing(a, b, c)): the selected stage gets the SAME attempt number
    [] w.k = "chain_incr" -> IF Min(attempts, Len(w.ds)) < Len(w.ds) THEN w.ds[Min(attempts, Len(w.ds)) + 1]
                             ELSE Max(0, Min(w.a + w.b * attempts, w.c))
    [] w.k = "exp"   -> Max(0, Min(w.a * Pow(w.b, attempts), w.c))           \* multiplier a, base b, max c
    [] w.k = "incr"  -> Max(0, Min(w.a + w.b * attempts, w.c))               \* start a, increment b, max c
    [] OTHER -> 0

(* delay in ms, or -1 for "do not retry" *)
RetryNext(s, elapsed, failures, exc) ==
  LET rp == SC(s).retry IN
  IF rp.kind = "none" THEN -1
  ELSE IF rp.kind = "raising" THEN -1            \* a policy whose next() raises: logged, treated as "do not retry"
  ELSE IF rp.retry_on # <<"*">> /\ exc \notin Range(rp.retry_on) THEN -1
  ELSE LET delay == WaitOf(rp.wait, IF Dev_WaitIndexOneBased THEN failures ELSE failures - 1)
           stop  == \/ (rp.max # -1 /\ failures >= rp.max)
                    \/ (rp.stop_delay # -1 /\ elapsed >= rp.stop_delay)
       IN IF stop THEN -1 ELSE delay

-----------------------------------------------------------------------------
(* commands *)
PubState(st, s, wid, in, out) ==
  [c |-> "publish", p |-> [k |-> "state", state |-> st, step |-> s, wid |-> wid, in |-> in, out |-> out]]
PubEv(ty, uid) == [c |-> "publish", p |-> IF IsStop(ty) THEN [k |-> "stop", uid |-> uid, ty |-> ty]
                                                         ELSE [k |-> "ev", ty |-> ty, uid |-> uid]]
RunCmd(s, uid, ty, wid) == [c |-> "run", step |-> s, uid |-> uid, ty |-> ty, wid |-> wid]
QueueCmd(uid, ty, evk, delay, target, att, first, lastexc, rc) ==
  [c |-> "queue", uid |-> uid, ty |-> ty, evk |-> evk, delay |-> delay, target |-> target, att |-> att,
   first |-> first, last_exc |-> lastexc, rc |-> rc]
IsExit(cmd) == cmd.c \in {"complete", "fail", "halt"}

Attempt(uid, ty, att, first, lastexc, rc) ==
  [uid |-> uid, ty |-> ty, att |-> att, first |-> first, last_exc |-> lastexc, rc |-> rc]
Fresh(uid, ty) == Attempt(uid, ty, -1, -1, "none", NoRc)

-----------------------------------------------------------------------------
(* _check_idle_state *)
IdleState(bs) ==
  /\ bs.running
  /\ \A s \in StepSet : bs.steps[s].queue = <<>> /\ bs.steps[s].ip = <<>>

(* _add_or_enqueue_event: on one step's worker state; returns [ws, cmds] *)
AddOrEnqueue(ws, s, a, now) ==
  IF Len(ws.ip) < Nw(s)
  THEN LET used == {ws.ip[i].wid : i \in 1..Len(ws.ip)}
           wid == CHOOSE i \in 0..(Nw(s) - 1) : i \notin used /\ \A j \in 0..(i - 1) : j \in used
           entry == [uid |-> a.uid, ty |-> a.ty, wid |-> wid,
                     att |-> IF a.att = -1 THEN 0 ELSE a.att,
                     first |-> IF a.first = -1 THEN now ELSE a.first,
                     rc |-> a.rc, last_exc |-> a.last_exc,
                     snap_coll |-> ws.coll, snap_waiters |-> ws.waiters]
       IN [ws |-> [ws EXCEPT !.ip = Append(@, entry)],
           cmds |-> <<RunCmd(s, a.uid, a.ty, wid), PubState("RUNNING", s, ToString(wid), a.ty, "-")>>]
  ELSE [ws |-> [ws EXCEPT !.queue = Append(@, a)],
        cmds |-> <<PubState("PREPARING", s, "<enqueued>", a.ty, "-")>>]

(* drain the queue while below capacity *)
RECURSIVE Drain(_, _, _, _)
Drain(ws, s, now, cmds) ==
  IF ws.queue # <<>> /\ Len(ws.ip) < Nw(s)
  THEN LET r == AddOrEnqueue([ws EXCEPT !.queue = Tail(@)], s, Head(ws.queue), now)
       IN Drain(r.ws, s, now, cmds \o r.cmds)
  ELSE [ws |-> ws, cmds |-> cmds]

-----------------------------------------------------------------------------
(* _process_add_event_tick *)
WaiterMatches(w, tick) ==
  /\ w.want = tick.ty
  /\ \A key \in DOMAIN w.reqs : key = "k" /\ w.reqs[key] = ToString(tick.evk)
  /\ (Dev_MatchDoneWaiters \/ (~w.is_resolved /\ ~w.timed_out))

(* pass 1 over the waiters of one step, in list order *)
RECURSIVE ResolveWaiters(_, _, _, _, _, _)
ResolveWaiters(ws, s, i, tick, now, acc) ==      \* acc = [cmds, hit]
  IF i > Len(ws.waiters) THEN [ws |-> ws, cmds |-> acc.cmds, hit |-> acc.hit]
  ELSE LET w == ws.waiters[i] IN
       IF WaiterMatches(w, tick)
       THEN LET ws1 == [ws EXCEPT !.waiters[i].resolved = tick.uid, !.waiters[i].is_resolved = TRUE]
                r == AddOrEnqueue(ws1, s, Fresh(w.uid, w.ev_ty), now)
            IN ResolveWaiters(r.ws, s, i + 1, tick, now, [cmds |-> acc.cmds \o r.cmds, hit |-> TRUE])
       ELSE ResolveWaiters(ws, s, i + 1, tick, now, acc)

RECURSIVE AddPass1(_, _, _, _, _)
AddPass1(bs, i, tick, now, acc) ==              \* acc = [cmds, resolved (set of steps)]
  IF i > Len(StepNames) THEN [bs |-> bs, cmds |-> acc.cmds, resolved |-> acc.resolved]
  ELSE LET s == StepNames[i]
           r == ResolveWaiters(bs.steps[s], s, 1, tick, now, [cmds |-> <<>>, hit |-> FALSE])
       IN AddPass1([bs EXCEPT !.steps[s] = r.ws], i + 1, tick, now,
                   [cmds |-> acc.cmds \o r.cmds,
                    resolved |-> IF r.hit THEN acc.resolved \cup {s} ELSE acc.resolved])

RECURSIVE AddPass2(_, _, _, _, _, _)
AddPass2(bs, i, tick, now, skip, acc) ==        \* acc = [cmds, handled]
  IF i > Len(StepNames) THEN [bs |-> bs, cmds |-> acc.cmds, handled |-> acc.handled]
  ELSE LET s == StepNames[i] IN
       IF s \notin skip /\ tick.ty \in Accepts(s) /\ (tick.target = "*" \/ tick.target = s)
       THEN LET r == AddOrEnqueue(bs.steps[s], s,
                                  Attempt(tick.uid, tick.ty, tick.att, tick.first, tick.last_exc, tick.rc), now)
            IN AddPass2([bs EXCEPT !.steps[s] = r.ws], i + 1, tick, now, skip,
                        [cmds |-> acc.cmds \o r.cmds, handled |-> TRUE])
       ELSE AddPass2(bs, i + 1, tick, now, skip, acc)

ProcessAdd(bs, tick, now) ==
  LET bs0 == IF tick.ty = "Start" THEN [bs EXCEPT !.running = TRUE] ELSE bs
      p1 == AddPass1(bs0, 1, tick, now, [cmds |-> <<>>, resolved |-> {}])
      p2 == AddPass2(p1.bs, 1, tick, now, p1.resolved, [cmds |-> <<>>, handled |-> FALSE])
      handled == p1.resolved # {} \/ p2.handled
      unh == IF ~handled /\ ~IsInputRequired(tick.ty)
             THEN <<[c |-> "publish", p |-> [k |-> "unhandled", ty |-> tick.ty, target |-> tick.target,
                                            idle |-> IdleState(p2.bs)]]>>
             ELSE <<>>
  IN [st |-> p2.bs, cmds |-> p1.cmds \o p2.cmds \o unh]

-----------------------------------------------------------------------------
(* _process_step_result_tick *)
IpIndex(ws, wid) == IF \E i \in 1..Len(ws.ip) : ws.ip[i].wid = wid
                    THEN CHOOSE i \in 1..Len(ws.ip) : ws.ip[i].wid = wid ELSE 0

RemoveAt(seq, i) == SubSeq(seq, 1, i - 1) \o SubSeq(seq, i + 1, Len(seq))
BufGet(coll, b) == IF b \in DOMAIN coll THEN coll[b] ELSE <<>>
BufSet(coll, b, v) == [x \in (DOMAIN coll) \cup {b} |-> IF x = b THEN v ELSE coll[x]]
BufDel(coll, b) == [x \in (DOMAIN coll) \ {b} |-> coll[x]]
WaiterIdx(ws, id) == IF \E i \in 1..Len(ws) : ws[i].id = id
                     THEN CHOOSE i \in 1..Len(ws) : ws[i].id = id /\ \A j \in 1..(i - 1) : ws[j].id # id ELSE 0

ClearAll(bs) == [bs EXCEPT !.steps = [s \in DOMAIN bs.steps |-> [bs.steps[s] EXCEPT !.coll = <<>>, !.waiters = <<>>]]]

(* one element of tick.result;  acc = [bs, cmds, stay, out]                               *)
ApplyResult(acc, s, tick, res, didComplete) ==
  LET bs == acc.bs
      ws == bs.steps[s]
      me == ws.ip[IpIndex(ws, tick.wid)]
  IN
  CASE res.r = "ret" ->
        IF IsStop(res.ty)
        THEN [acc EXCEPT !.bs = [ClearAll(bs) EXCEPT !.running = FALSE],
                         !.cmds = @ \o <<PubEv(res.ty, res.uid), [c |-> "complete", uid |-> res.uid]>>,
                         !.out = res.ty]
        ELSE IF res.ty = "None" THEN [acc EXCEPT !.out = "None"]
        ELSE IF res.ty = "Junk" THEN [acc EXCEPT !.out = "Junk"]
        ELSE [acc EXCEPT !.cmds = @ \o (IF IsInputRequired(res.ty) THEN <<PubEv(res.ty, res.uid)>> ELSE <<>>)
                                    \o <<QueueCmd(res.uid, res.ty, 0, -1, "*", -1, -1, "none", me.rc)>>,
                         !.out = res.ty]
    [] res.r = "failed" ->
        LET failures == me.att + 1
            elapsed == res.at_ms - me.first
            delay == RetryNext(s, elapsed, failures, res.exc)
        IN IF delay # -1
           THEN [acc EXCEPT !.cmds = @ \o <<QueueCmd(tick.uid, tick.ty, tick.evk, delay, s, failures, me.first,
                                                      res.exc, me.rc)>>]
           ELSE LET h == HandlerFor(s)
                    newc == IF h = "none" THEN 1 ELSE RcGet(me.rc, h) + 1
                IN IF h # "none" /\ newc <= SC(h).max_rec
                   THEN [acc EXCEPT !.cmds = @ \o <<QueueCmd("F(" \o s \o ":" \o tick.uid \o ")", "Failed", 0, -1, h,
                                                              -1, -1, "none", RcSet(me.rc, h, newc))>>]
                   ELSE [acc EXCEPT !.bs.running = FALSE,
                                    !.cmds = @ \o <<[c |-> "publish", p |-> [k |-> "failed", step |-> s, exc |-> res.exc,
                                                                             attempts |-> failures, elapsed_ms |-> elapsed]],
                                                    [c |-> "fail", step |-> s, exc |-> res.exc]>>]
    [] res.r = "addc" ->
        LET cur == BufGet(ws.coll, res.buf)
            sent == BufGet(me.snap_coll, res.buf)
            coll1 == BufSet(ws.coll, res.buf, cur)                \* setdefault creates the buffer
            i == IpIndex(ws, tick.wid)
        IN IF Len(cur) > Len(sent)
           THEN [acc EXCEPT !.bs.steps[s].coll = coll1,
                            !.bs.steps[s].ip[i].snap_coll = coll1,
                            !.stay = TRUE,
                            !.cmds = @ \o <<RunCmd(s, res.uid, res.ty, tick.wid)>>]
           ELSE [acc EXCEPT !.bs.steps[s].coll = BufSet(ws.coll, res.buf, Append(cur, [uid |-> res.uid, ty |-> res.ty]))]
    [] res.r = "delc" ->
        IF didComplete THEN [acc EXCEPT !.bs.steps[s].coll = BufDel(ws.coll, res.buf)] ELSE acc
    [] res.r = "addw" ->
        LET idx == WaiterIdx(ws.waiters, res.wid)
            nw == [id |-> res.wid, uid |-> me.uid, ev_ty |-> me.ty, want |-> res.ty, reqs |-> res.reqs,
                   has_reqs |-> (DOMAIN res.reqs # {}), resolved |-> "", is_resolved |-> FALSE, timed_out |-> FALSE]
        IN IF idx # 0
           THEN [acc EXCEPT !.bs.steps[s].waiters[idx] = nw]
           ELSE [acc EXCEPT !.bs.steps[s].waiters = Append(@, nw),
                            !.cmds = @ \o (IF res.wev # "" THEN <<PubEv("Ask", res.wev)>> ELSE <<>>)
                                       \o (IF res.timeout_ms # -1
                                           THEN <<[c |-> "wtimeout", step |-> s, wid |-> res.wid, timeout |-> res.timeout_ms]>>
                                           ELSE <<>>)]
    [] res.r = "delw" ->
        LET idx == WaiterIdx(ws.waiters, res.wid) IN
        IF didComplete /\ idx # 0 THEN [acc EXCEPT !.bs.steps[s].waiters = RemoveAt(@, idx)] ELSE acc
    [] OTHER -> acc

RECURSIVE FoldResults(_, _, _, _, _)
FoldResults(acc, s, tick, i, didComplete) ==
  IF i > Len(tick.res) THEN acc
  ELSE FoldResults(ApplyResult(acc, s, tick, tick.res[i], didComplete), s, tick, i + 1, didComplete)

ProcessResult(bs, tick, now) ==
  LET s == tick.step
      ws0 == bs.steps[s]
  IN IF IpIndex(ws0, tick.wid) = 0
     THEN [st |-> bs, cmds |-> <<[c |-> "engine_error", why |-> "worker not in progress"]>>]
     ELSE
     LET didComplete == \E i \in 1..Len(tick.res) : tick.res[i].r = "ret"
         a == FoldResults([bs |-> bs, cmds |-> <<>>, stay |-> FALSE, out |-> "-"], s, tick, 1, didComplete)
         completed == \E i \in 1..Len(a.cmds) : IsExit(a.cmds[i])
         bs1 == IF a.stay THEN a.bs
                ELSE [a.bs EXCEPT !.steps[s].ip = RemoveAt(@, IpIndex(a.bs.steps[s], tick.wid))]
         cmds1 == IF a.stay THEN a.cmds
                  ELSE <<PubState("NOT_RUNNING", s, ToString(tick.wid), tick.ty, a.out)>> \o a.cmds
         d == IF completed THEN [ws |-> bs1.steps[s], cmds |-> cmds1] ELSE Drain(bs1.steps[s], s, now, cmds1)
     IN [st |-> [bs1 EXCEPT !.steps[s] = d.ws], cmds |-> d.cmds]

-----------------------------------------------------------------------------
ProcessCancel(bs) ==
  [st |-> bs, cmds |-> <<[c |-> "publish", p |-> [k |-> "cancelled"]], [c |-> "halt", exc |-> "cancelled"]>>]

ActiveSteps(bs) == {s \in StepSet : bs.steps[s].ip # <<>>}
RECURSIVE SortedSeq(_)
SortedSeq(S) == IF S = {} THEN <<>>
                ELSE LET m == CHOOSE x \in S : \A y \in S : ~(\E i \in 1..Len(StepNames) :
                                    \E j \in 1..Len(StepNames) : StepNames[i] = y /\ StepNames[j] = x /\ i < j)
                     IN <<m>> \o SortedSeq(S \ {m})

ProcessTimeout(bs) ==
  [st |-> [bs EXCEPT !.running = FALSE],
   cmds |-> <<[c |-> "publish", p |-> [k |-> "timedout", active |-> SortedSeq(ActiveSteps(bs))]],
              [c |-> "halt", exc |-> "timeout"]>>]

ProcessWaiterTimeout(bs, tick, now) ==
  IF tick.step \notin StepSet THEN [st |-> bs, cmds |-> <<>>]
  ELSE LET ws == bs.steps[tick.step]
           idx == WaiterIdx(ws.waiters, tick.wid)
       IN IF idx = 0 \/ ws.waiters[idx].is_resolved THEN [st |-> bs, cmds |-> <<>>]
          ELSE LET w == ws.waiters[idx]
                   r == AddOrEnqueue([ws EXCEPT !.waiters[idx].timed_out = TRUE], tick.step, Fresh(w.uid, w.ev_ty), now)
               IN [st |-> [bs EXCEPT !.steps[tick.step] = r.ws], cmds |-> r.cmds]

(* _reduce_tick *)
Reduce(bs, tick, now) ==
  IF tick.k = "idlerelease" THEN [st |-> bs, cmds |-> <<[c |-> "complete", uid |-> "<idle-released>"]>>]
  ELSE IF tick.k = "idlecheck"
  THEN [st |-> bs, cmds |-> IF IdleState(bs) THEN <<[c |-> "publish", p |-> [k |-> "idle"]]>> ELSE <<>>]
  ELSE LET r == CASE tick.k = "result" -> ProcessResult(bs, tick, now)
                  [] tick.k = "add" -> ProcessAdd(bs, tick, now)
                  [] tick.k = "cancel" -> ProcessCancel(bs)
                  [] tick.k = "publish" -> [st |-> bs, cmds |-> <<PubEv(tick.ty, tick.uid)>>]
                  [] tick.k = "timeout" -> ProcessTimeout(bs)
                  [] tick.k = "wtimeout" -> ProcessWaiterTimeout(bs, tick, now)
       IN IF IdleState(r.st) THEN [st |-> r.st, cmds |-> r.cmds \o <<[c |-> "idlecheck"]>>] ELSE r

Pubs(cmds) == LET P == SelectSeq(cmds, LAMBDA c : c.c = "publish") IN [i \in 1..Len(P) |-> P[i].p]

-----------------------------------------------------------------------------
(* rewind_in_progress *)
RECURSIVE PushFront(_, _, _)
PushFront(queue, ip, i) ==
  IF i > Len(ip) THEN queue
  ELSE PushFront(<<Attempt(ip[i].uid, ip[i].ty, ip[i].att, ip[i].first, ip[i].last_exc, ip[i].rc)>> \o queue, ip, i + 1)

RECURSIVE RewindFrom(_, _, _, _)
RewindFrom(bs, i, now, cmds) ==
  IF i > Len(StepNames) THEN [st |-> bs, cmds |-> cmds]
  ELSE LET s == StepNames[i]
           ws == bs.steps[s]
           ws1 == [ws EXCEPT !.queue = PushFront(ws.queue, ws.ip, 1), !.ip = <<>>]
           d == Drain(ws1, s, now, <<>>)
       IN RewindFrom([bs EXCEPT !.steps[s] = d.ws], i + 1, now, cmds \o d.cmds)
Rewind(bs, now) == RewindFrom(bs, 1, now, <<>>)

(* rebuild_state_from_ticks: rewind, then fold the reducer discarding commands *)
RECURSIVE FoldTicks(_, _, _, _)
FoldTicks(bs, ticks, i, now) ==
  IF i > Len(ticks) THEN bs ELSE FoldTicks(Reduce(bs, ticks[i], now).st, ticks, i + 1, now)
Rebuild(init, ticks, now) == FoldTicks(Rewind(init, now).st, ticks, 1, now)

-----------------------------------------------------------------------------
(* BrokerState.to_serialized / from_serialized composed (what survives ctx.to_dict -> from_dict):  *)
(* queue entries keep their retry info; in-progress work becomes bare events appended to the queue *)
(* tail with attempts 0 and no recovery counts; waiters lose requirements and timed_out.           *)
RoundTrip(bs) ==
  [running |-> bs.running,
   steps |-> [s \in DOMAIN bs.steps |->
      LET ws == bs.steps[s] IN
      [queue |-> [i \in 1..Len(ws.queue) |-> [ws.queue[i] EXCEPT !.att = IF @ = -1 THEN 0 ELSE @]]
                 \o [i \in 1..Len(ws.ip) |-> Attempt(ws.ip[i].uid, ws.ip[i].ty, 0, -1, "none", NoRc)],
       ip |-> <<>>,
       coll |-> ws.coll,
       waiters |-> [i \in 1..Len(ws.waiters) |->
                      [ws.waiters[i] EXCEPT !.reqs = <<>>,
                                            !.has_reqs = (DOMAIN ws.waiters[i].reqs # {}) \/ ws.waiters[i].has_reqs,
                                            !.timed_out = FALSE]]]]]

(* rehydrate_with_ticks: waiters that had requirements but lost them are re-run *)
(* (_ControlLoopRunner.__init__ puts these ticks into the tick buffer before anything else: the waiting step gets its     *)
(*  input event again, addressed to it alone, and re-establishes the waiter with its requirements.  Steps in name order;  *)
(*  the code also sorts a step's waiters by id -- kept in list order here, the scenarios have one such waiter per step)    *)
RECURSIVE RehydrateFrom(_, _)
RehydrateFrom(bs, i) ==
  IF i > Len(StepNames) THEN <<>>
  ELSE LET s == StepNames[i]
           ws == bs.steps[s].waiters
           \* (an answered waiter's step is already queued for its replay: it is not pinged a second time)
           need == SelectSeq(ws, LAMBDA w : w.has_reqs /\ w.reqs = <<>> /\ (Dev_RepingResolvedWaiters \/ ~w.is_resolved))
       IN [j \in 1..Len(need) |-> [k |-> "add", ty |-> need[j].ev_ty, uid |-> need[j].uid, evk |-> 0, target |-> s,
                                    att |-> -1, first |-> -1, last_exc |-> "none", rc |-> NoRc]]
          \o RehydrateFrom(bs, i + 1)
Rehydrate(bs) == RehydrateFrom(bs, 1)
EmptyState ==
  [running |-> FALSE,
   steps |-> [s \in StepSet |-> [queue |-> <<>>, ip |-> <<>>, coll |-> <<>>, waiters |-> <<>>]]]
=============================================================================
