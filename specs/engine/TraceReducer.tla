---------------------------- MODULE TraceReducer ----------------------------
(* Conformance of the real reducer to Reducer.tla on transitions recorded from real runs:   *)
(* for every recorded tick, Reduce(pre, tick, now) must give the recorded post-state and the *)
(* recorded command publishes.  Deterministic fold per trace; one verdict per trace.         *)
EXTENDS Integers, Sequences, TLC, Json, IOUtils

T == JsonDeserialize(IOEnv.TRACE_FILE)

VARIABLES tid, l, cur, verdict

Tr == T.traces[tid]
R == INSTANCE Reducer WITH Cfg <- T.traces[tid].cfg,
                           Dev_MatchDoneWaiters <- T.dev.match_done_waiters,
                           Dev_WaitIndexOneBased <- T.dev.wait_index_one_based,
                           Dev_NoHandlersUnvalidated <- T.dev.no_handlers_unvalidated,
                           Dev_RepingResolvedWaiters <- FALSE

Init == /\ tid \in 1..Len(T.traces) /\ l = 1 /\ verdict = "ok"
        /\ cur = T.traces[tid].init

Step ==
  /\ verdict = "ok" /\ l <= Len(Tr.ticks)
  /\ LET e == Tr.ticks[l]
         pre == IF e.first_of_run THEN R!Rewind(e.run_init, e.run_now).st ELSE cur   \* rewind happened when the run started
         r == R!Reduce(pre, e.tick, e.now)
     IN /\ verdict' = IF r.st # e.post THEN "state"
                      ELSE IF R!Pubs(r.cmds) # e.pubs THEN "pubs"
                      ELSE "ok"
        /\ cur' = e.post
  /\ l' = l + 1 /\ UNCHANGED tid

Done == /\ (verdict # "ok" \/ l > Len(Tr.ticks))
        /\ PrintT(<<"VERDICT", tid, verdict, l - 1>>)
        /\ UNCHANGED <<tid, l, cur, verdict>>
Next == Step \/ Done
=============================================================================
