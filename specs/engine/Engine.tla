-------------------------------- MODULE Engine --------------------------------
(* The workflow engine around the reducer: the sequential control-loop runner               *)
(* (_ControlLoopRunner.run / _process_tick / process_command), the BasicRuntime adapter     *)
(* (mailbox, publish queue, wait_for_next_task with worker-before-pull priority), worker     *)
(* tasks executing step programs against their *snapshot* (InternalContext.collect_events,   *)
(* wait_for_event, send_event; as_step_worker_function), and the environment (a step body    *)
(* finishing, an external send, a cancel, time passing).                                     *)
(*                                                                                           *)
(* Atomicity as in the code: on BasicRuntime nothing in the drain loop suspends              *)
(* (put_nowait / list appends), so processing one tick -- reduce, on_tick, all commands --   *)
(* is one action, and no environment action can interleave while the buffer is non-empty.    *)
(* Environment actions happen at quiescence points of the loop (every internal action has    *)
(* run), which is exactly when the harness driver acts on the real engine.                   *)
(*                                                                                           *)
(* Step programs are data (Prog[s].body, the same op lists the harness compiles to real      *)
(* @step functions); RunBody interprets them.  Event identities are strings built like the   *)
(* harness builds uids, so a re-executed step re-emits the same identities.                  *)
(******************************************************************************)
EXTENDS Integers, Sequences, FiniteSets, TLC

CONSTANTS Cfg,            \* static configuration, as Reducer.tla expects
          Prog,           \* [step -> [body: Seq(op), pre: Seq(op)]]  pre = sends executed when the body starts
          ExtMenu,        \* set of [ty, target, k] the environment may send
          MaxExt, MaxCancel, TimeoutMs,
          WallEpoch,      \* wall clock = now + WallEpoch (time.time vs time.monotonic)
          Dev_MatchDoneWaiters, Dev_WaitIndexOneBased, Dev_NoHandlersUnvalidated, Dev_RepingResolvedWaiters,
          TrackLog,       \* keep the tick log (needed for C11 only; it makes every path a distinct state)
          Dev_ClockMix,   \* BasicRuntime: first_attempt_at from the monotonic clock, failed_at from the wall clock
          MaxResume       \* how often the environment may serialise the context and resume it (PauseResume)

R == INSTANCE Reducer

VARIABLES bs, buf, wake, wseq, idlePending, pend, tasks, pull, mailbox, now, outcome, phase,
          next, ncancel, tickLog,
          pubs,           \* events published while processing the last tick (the stream's newest segment)
          mon             \* property monitors: compact summaries of the history the properties talk about
                          \* (kept small on purpose: full histories would make every path a distinct state)

vars == <<bs, buf, wake, wseq, idlePending, pend, tasks, pull, mailbox, now, outcome, phase, next, ncancel,
          tickLog, pubs, mon>>

(* mon == [ nterm     : number of terminal events published so far                                     *)
(*          lastkind  : kind of the last published event ("none" before the first)                     *)
(*          after     : something was published after a terminal event                                 *)
(*          slots     : set of <<step, wid>> whose last telemetry state is RUNNING                     *)
(*          bad35     : a RUNNING for a slot already RUNNING, or a NOT_RUNNING for a slot not RUNNING  *)
(*          asks      : uids of published InputRequired events;  askdup: one was published twice      *)
(*          used      : uids already returned in some collect_events list;  duplist: a uid reused      *)
(*          waits     : <<step, uid, wid>> of waits already completed;  dupwait: one completed twice   *)
(*          tos       : same for raised TimeoutErrors;  dupto                                          *)
(*          lastend   : <<step, uid>> -> [att, at] of the latest finished execution                    *)
(*          early     : a retry started earlier than the documented delay after its failure            *)
(*          baddeliv  : a fresh event was not handed exactly once to exactly its accepting steps,      *)
(*                      or an orphan event was not reported exactly once as unhandled                  *)
(*          nres      : number of PauseResume steps so far ]                                           *)

Live == outcome = "none"
Wall == now + (IF Dev_ClockMix THEN WallEpoch ELSE 0)

-----------------------------------------------------------------------------
(* step programs: what one invocation of step s on event (uid, ty) at retry number att does, given its snapshot *)
Count(ty, evs) == Cardinality({i \in 1..Len(evs) : evs[i].ty = ty})
CountT(ty, tys) == Cardinality({i \in 1..Len(tys) : tys[i] = ty})
TypesOf(tys) == {tys[i] : i \in 1..Len(tys)}

Remaining(expected, coll, t) == IF CountT(t, expected) > Count(t, coll) THEN CountT(t, expected) - Count(t, coll) ELSE 0

(* order the collected events + the current one as `expected` (by_type[e_type].pop(0)) *)
RECURSIVE OrderAs(_, _)
OrderAs(expected, pool) ==
  IF expected = <<>> THEN <<>>
  ELSE LET i == CHOOSE i \in 1..Len(pool) : pool[i].ty = Head(expected) /\ \A j \in 1..(i - 1) : pool[j].ty # Head(expected)
       IN <<pool[i].uid>> \o OrderAs(Tail(expected), SubSeq(pool, 1, i - 1) \o SubSeq(pool, i + 1, Len(pool)))

SnapWaiter(snapW, id) == IF \E i \in 1..Len(snapW) : snapW[i].id = id
                         THEN CHOOSE i \in 1..Len(snapW) : snapW[i].id = id /\ \A j \in 1..(i - 1) : snapW[j].id # id ELSE 0

(* acc = [res (results so far), done (BOOLEAN), lists, wret, wto]; interprets ops[i..] *)
RECURSIVE RunOps(_, _, _, _)
RunOps(ops, i, c, acc) ==
  IF acc.done THEN acc
  ELSE IF i > Len(ops) THEN [acc EXCEPT !.res = Append(@, [r |-> "ret", ty |-> "None", uid |-> ""]), !.done = TRUE]
  ELSE LET op == ops[i] IN
  CASE (op.only # "*" /\ op.only # c.ty) -> RunOps(ops, i + 1, c, acc)         \* op guarded by the input type
    [] op.op \in {"gate", "send", "publish", "store_set"} -> RunOps(ops, i + 1, c, acc)
    [] op.op = "collect" ->
        LET coll == R!BufGet(c.snapColl, op.buf)
            okNow == /\ Remaining(op.expected, coll, c.ty) = 1
                     /\ \A t \in TypesOf(op.expected) \ {c.ty} : Remaining(op.expected, coll, t) = 0
        IN IF op.expected = <<>> THEN RunOps(ops, i + 1, c, acc)
           ELSE IF ~okNow
           THEN [acc EXCEPT !.res = (IF Remaining(op.expected, coll, c.ty) > 0
                                     THEN Append(@, [r |-> "addc", buf |-> op.buf, ty |-> c.ty, uid |-> c.uid]) ELSE @)
                                    \o <<[r |-> "ret", ty |-> "None", uid |-> ""]>>,
                            !.done = TRUE]
           ELSE RunOps(ops, i + 1, c,
                       [acc EXCEPT !.res = Append(@, [r |-> "delc", buf |-> op.buf]),
                                   !.lists = Append(@, OrderAs(op.expected, Append(coll, [uid |-> c.uid, ty |-> c.ty])))])
    [] op.op = "wait" ->
        LET idx == SnapWaiter(c.snapW, op.wid) IN
        IF idx # 0 /\ c.snapW[idx].timed_out
        THEN [acc EXCEPT !.res = @ \o <<[r |-> "delw", wid |-> op.wid]>> \o
                                  (IF op.on_timeout = "stop" THEN <<[r |-> "ret", ty |-> "Stop", uid |-> "timeout:" \o c.uid]>>
                                   ELSE <<[r |-> "failed", exc |-> "TimeoutError", at_ms |-> Wall]>>),
                         !.wto = Append(@, [step |-> c.step, uid |-> c.uid, wid |-> op.wid]),
                         !.done = TRUE]
        ELSE IF idx = 0 \/ ~c.snapW[idx].is_resolved
        THEN [acc EXCEPT !.res = Append(@, [r |-> "addw", wid |-> op.wid, ty |-> op.ty, reqs |-> op.reqs,
                                            timeout_ms |-> op.timeout_ms,
                                            wev |-> IF op.wev THEN "ask:" \o c.step \o ":" \o c.uid ELSE ""]),
                         !.done = TRUE]
        ELSE RunOps(ops, i + 1, c,
                    [acc EXCEPT !.res = Append(@, [r |-> "delw", wid |-> op.wid]),
                                !.wret = Append(@, [step |-> c.step, uid |-> c.uid, wid |-> op.wid, got |-> c.snapW[idx].resolved])])
    [] op.op = "fail" ->
        IF c.att < op.until
        THEN [acc EXCEPT !.res = Append(@, [r |-> "failed", exc |-> op.exc, at_ms |-> Wall]), !.done = TRUE]
        ELSE RunOps(ops, i + 1, c, acc)
    [] op.op = "ret" -> [acc EXCEPT !.res = Append(@, [r |-> "ret", ty |-> op.ty, uid |-> c.uid \o ">" \o c.step]), !.done = TRUE]
    [] op.op = "stop" -> [acc EXCEPT !.res = Append(@, [r |-> "ret", ty |-> "Stop",
                                                         uid |-> IF op.result = "" THEN "r:" \o c.uid ELSE op.result]), !.done = TRUE]
    [] op.op = "none" -> [acc EXCEPT !.res = Append(@, [r |-> "ret", ty |-> "None", uid |-> ""]), !.done = TRUE]
    [] op.op = "junk" -> [acc EXCEPT !.res = Append(@, [r |-> "failed", exc |-> "WorkflowRuntimeError", at_ms |-> Wall]), !.done = TRUE]
    [] OTHER -> RunOps(ops, i + 1, c, acc)

RunBody(c) == RunOps(Prog[c.step].body, 1, c, [res |-> <<>>, done |-> FALSE, lists |-> <<>>, wret |-> <<>>, wto |-> <<>>])

(* ctx.send_event calls executed by the body (before its first gate): TickAddEvent into the mailbox *)
RECURSIVE SendTicks(_, _, _)
SendTicks(ops, i, c) ==
  IF i > Len(ops) THEN <<>>
  ELSE LET op == ops[i] IN
       (IF op.op = "send"
        THEN [j \in 1..op.n |-> [k |-> "add", ty |-> op.ty,
                                 uid |-> IF op.same THEN c.uid \o "." \o c.step \o op.ty         \* equal-valued events
                                         ELSE c.uid \o "." \o c.step \o op.ty \o ToString(j - 1),
                                 evk |-> IF op.same THEN 0 ELSE j - 1,
                                 target |-> op.target, att |-> -1, first |-> -1, last_exc |-> "none", rc |-> c.rc]]
        ELSE <<>>) \o SendTicks(ops, i + 1, c)

-----------------------------------------------------------------------------
Mon0 == [nterm |-> 0, lastkind |-> "none", after |-> FALSE, slots |-> {}, bad35 |-> FALSE, asks |-> {}, askdup |-> FALSE,
         used |-> {}, duplist |-> FALSE, waits |-> {}, dupwait |-> FALSE, tos |-> {}, dupto |-> FALSE,
         lastend |-> <<>>, early |-> FALSE, baddeliv |-> FALSE, nres |-> 0]
(* the run starts at clock value n0 (0 in the model-checking runs; the recorded clock in TraceEngine.tla) *)
InitAt(n0) ==
  /\ bs = R!EmptyState
  /\ buf = <<[k |-> "add", ty |-> "Start", uid |-> "s0", evk |-> 0, target |-> "*", att |-> -1, first |-> -1,
              last_exc |-> "none", rc |-> R!NoRc]>>
  /\ wake = IF TimeoutMs = -1 THEN {} ELSE {[at |-> n0 + TimeoutMs, seq |-> 0, tick |-> [k |-> "timeout"]]}
  /\ wseq = 1 /\ idlePending = FALSE /\ pend = <<>> /\ tasks = {} /\ pull = [st |-> "none"]
  /\ mailbox = <<>> /\ now = n0 /\ outcome = "none" /\ phase = "drain" /\ next = 0 /\ ncancel = 0
  /\ tickLog = <<>> /\ pubs = <<>>
  /\ mon = Mon0
Init == InitAt(0)

IsTerminal(p) == p.k \in {"stop", "failed", "cancelled", "timedout"}
MonPub(m, p) ==
  LET m1 == [m EXCEPT !.nterm = IF IsTerminal(p) THEN @ + 1 ELSE @,
                      !.after = @ \/ (m.lastkind \in {"stop", "failed", "cancelled", "timedout"}),
                      !.lastkind = p.k]
  IN IF p.k = "state" /\ p.state = "RUNNING"
     THEN [m1 EXCEPT !.bad35 = @ \/ (<<p.step, p.wid>> \in m.slots), !.slots = @ \cup {<<p.step, p.wid>>}]
     ELSE IF p.k = "state" /\ p.state = "NOT_RUNNING"
     THEN [m1 EXCEPT !.bad35 = @ \/ (<<p.step, p.wid>> \notin m.slots), !.slots = @ \ {<<p.step, p.wid>>}]
     ELSE IF p.k = "ev" /\ p.ty = "Ask"
     THEN [m1 EXCEPT !.askdup = @ \/ (p.uid \in m.asks), !.asks = @ \cup {p.uid}]
     ELSE m1

(* process_command, folded over the command list of one tick;  x = the runner-side variables *)
RECURSIVE Exec(_, _, _)
Exec(cmds, i, x) ==
  IF i > Len(cmds) \/ x.outcome # "none" THEN x
  ELSE LET c == cmds[i] IN
  Exec(cmds, i + 1,
    CASE c.c = "queue" ->
           LET t == [k |-> "add", ty |-> c.ty, uid |-> c.uid, evk |-> c.evk, target |-> c.target, att |-> c.att,
                     first |-> c.first, last_exc |-> c.last_exc, rc |-> c.rc]
           IN IF c.delay > 0
              THEN [x EXCEPT !.wake = @ \cup {[at |-> now + c.delay, seq |-> x.wseq, tick |-> t]}, !.wseq = @ + 1]
              ELSE [x EXCEPT !.buf = Append(@, t)]
      [] c.c = "run" -> [x EXCEPT !.pend = Append(@, [step |-> c.step, wid |-> c.wid, uid |-> c.uid, ty |-> c.ty])]
      [] c.c = "publish" -> [x EXCEPT !.pubs = Append(@, c.p), !.mon = MonPub(@, c.p)]
      [] c.c = "idlecheck" -> IF x.idlePending THEN x
                              ELSE [x EXCEPT !.buf = Append(@, [k |-> "idlecheck"]), !.idlePending = TRUE]
      [] c.c = "wtimeout" -> [x EXCEPT !.wake = @ \cup {[at |-> now + c.timeout, seq |-> x.wseq,
                                                         tick |-> [k |-> "wtimeout", step |-> c.step, wid |-> c.wid]]},
                                       !.wseq = @ + 1]
      [] c.c = "complete" -> [x EXCEPT !.outcome = "result"]
      [] c.c = "fail" -> [x EXCEPT !.outcome = "failed"]
      [] c.c = "halt" -> [x EXCEPT !.outcome = IF c.exc = "cancelled" THEN "cancelled" ELSE "timedout"]
      [] c.c = "engine_error" -> [x EXCEPT !.outcome = "error"]
      [] OTHER -> x)

(* a run resumed from a serialised context (Context.from_dict -> workflow.run(ctx=...)): no start event; the workflow    *)
(* timeout is armed afresh; rewind_in_progress moves in-progress work back to the queues and its commands start workers *)
InitResumed(st0, n0, next0) ==
  /\ now = n0
  /\ LET rw == R!Rewind(st0, n0)
         x0 == [buf |-> R!Rehydrate(st0), wseq |-> 1, pend |-> <<>>, pubs |-> <<>>, mon |-> Mon0, idlePending |-> FALSE, outcome |-> "none",
                wake |-> IF TimeoutMs = -1 THEN {} ELSE {[at |-> n0 + TimeoutMs, seq |-> 0, tick |-> [k |-> "timeout"]]}]
         x == Exec(rw.cmds, 1, x0)
     IN /\ bs = rw.st /\ buf = x.buf /\ wake = x.wake /\ wseq = x.wseq /\ pend = x.pend /\ pubs = x.pubs /\ mon = x.mon
        /\ idlePending = x.idlePending /\ outcome = x.outcome
  /\ tasks = {} /\ pull = [st |-> "none"] /\ mailbox = <<>> /\ phase = "drain" /\ next = next0 /\ ncancel = 0 /\ tickLog = <<>>

(* C02, declaratively: a fresh event (not a retry) is handed exactly once to every step that accepts exactly its    *)
(* type (only to the addressed one if a target is given), except that a step whose waiter it resolves gets it as   *)
(* its wait result instead; an event nobody takes is reported once as unhandled, unless it is an InputRequired.     *)
CountUid(b, s, uid) == Cardinality({i \in 1..Len(b.steps[s].queue) : b.steps[s].queue[i].uid = uid})
                       + Cardinality({i \in 1..Len(b.steps[s].ip) : b.steps[s].ip[i].uid = uid})
BadDelivery(tick, pre, r) ==
  IF tick.k # "add" \/ tick.att # -1 THEN FALSE
  ELSE LET resolved == {s \in R!StepSet : \E i \in 1..Len(pre.steps[s].waiters) : R!WaiterMatches(pre.steps[s].waiters[i], tick)}
           want(s) == s \notin resolved /\ tick.ty \in R!Accepts(s) /\ (tick.target = "*" \/ tick.target = s)
           got(s) == CountUid(r.st, s, tick.uid) - CountUid(pre, s, tick.uid)
           nunh == Cardinality({i \in 1..Len(r.cmds) : r.cmds[i].c = "publish" /\ r.cmds[i].p.k = "unhandled"})
           orphan == resolved = {} /\ ~(\E s \in R!StepSet : want(s)) /\ ~R!IsInputRequired(tick.ty)
       IN \/ \E s \in R!StepSet : got(s) # (IF want(s) THEN 1 ELSE 0) /\ ~(s \in resolved /\ tick.uid \in {pre.steps[s].waiters[i].uid : i \in 1..Len(pre.steps[s].waiters)})
          \/ nunh # (IF orphan THEN 1 ELSE 0)

(* one iteration of `while self.tick_buffer:` -- _process_tick *)
(* DrainTick(tick): the head of the buffer is processed as `tick` (= Head(buf) in the model; TraceEngine.tla passes the *)
(* recorded tick, which additionally carries the payload attribute `evk` of the event that the state does not keep)  *)
DrainTick(tick) ==
  /\ Live /\ phase = "drain" /\ buf # <<>>
  /\ LET r == R!Reduce(bs, tick, now)
         x0 == [buf |-> Tail(buf), wake |-> wake, wseq |-> wseq, pend |-> pend, pubs |-> <<>>, mon |-> mon,
                idlePending |-> IF tick.k = "idlecheck" THEN FALSE ELSE idlePending, outcome |-> "none"]
         x1 == Exec(r.cmds, 1, x0)
         x == [x1 EXCEPT !.mon.baddeliv = @ \/ BadDelivery(tick, bs, r)]
     IN /\ bs' = r.st
        /\ tickLog' = IF TrackLog THEN Append(tickLog, tick) ELSE tickLog
        /\ buf' = x.buf /\ wake' = x.wake /\ wseq' = x.wseq /\ pubs' = x.pubs /\ mon' = x.mon
        /\ idlePending' = x.idlePending /\ outcome' = x.outcome
        /\ pend' = IF x.outcome = "none" THEN x.pend ELSE <<>>          \* cleanup_tasks on exit
        /\ tasks' = IF x.outcome = "none" THEN tasks ELSE {}
  /\ UNCHANGED <<pull, mailbox, now, phase, next, ncancel>>
Drain == buf # <<>> /\ DrainTick(Head(buf))

IpEntry(s, wid) == LET ws == bs.steps[s] IN ws.ip[R!IpIndex(ws, wid)]

(* buffer empty: build the pending list, call wait_for_next_task (which starts every pending coroutine) *)
EnterWait ==
  /\ Live /\ phase = "drain" /\ buf = <<>>
  /\ LET started == {[step |-> pend[i].step, wid |-> pend[i].wid, uid |-> pend[i].uid, ty |-> pend[i].ty,
                      st |-> "running", res |-> <<>>] : i \in 1..Len(pend)}
     IN /\ tasks' = tasks \cup started
        (* a retry (att > 0) starting now: no earlier than the documented delay after the failure it follows *)
        /\ mon' = [mon EXCEPT !.early = @ \/ \E i \in 1..Len(pend) :
                       LET e == IpEntry(pend[i].step, pend[i].wid)
                           key == <<pend[i].step, pend[i].uid>>
                       IN /\ e.att > 0 /\ R!SC(pend[i].step).retry.kind = "policy"
                          /\ key \in DOMAIN mon.lastend /\ mon.lastend[key].att = e.att - 1
                          /\ now - mon.lastend[key].at < R!WaitOf(R!SC(pend[i].step).retry.wait, e.att - 1)]
        (* sends the bodies perform before their first suspension reach the mailbox at once *)
        /\ mailbox' = mailbox \o
             LET RECURSIVE Pre(_)
                 Pre(i) == IF i > Len(pend) THEN <<>>
                           ELSE SendTicks(Prog[pend[i].step].pre, 1,
                                          [step |-> pend[i].step, uid |-> pend[i].uid,
                                           rc |-> IpEntry(pend[i].step, pend[i].wid).rc]) \o Pre(i + 1)
             IN Pre(1)
  /\ pend' = <<>>
  /\ pull' = IF pull.st = "none" THEN [st |-> "waiting"] ELSE pull
  /\ phase' = "wait"
  /\ UNCHANGED <<bs, buf, wake, wseq, idlePending, now, outcome, next, ncancel, tickLog, pubs>>

AnyWorkerDone == \E t \in tasks : t.st = "done"

(* a completed worker task is picked before the pull task *)
WakeWorker(t) ==
  /\ Live /\ phase = "wait" /\ t \in tasks /\ t.st = "done"
  /\ LET stops == \E i \in 1..Len(t.res) : t.res[i].r = "ret" /\ t.res[i].ty = "Stop" IN
     /\ tasks' = IF stops THEN {} ELSE tasks \ {t}                         \* StopEvent: cleanup_tasks() first
     /\ buf' = Append(buf, [k |-> "result", step |-> t.step, wid |-> t.wid, ty |-> t.ty, uid |-> t.uid, evk |-> 0,
                            res |-> t.res])
  /\ phase' = "drain"
  /\ UNCHANGED <<bs, wake, wseq, idlePending, pend, pull, mailbox, now, outcome, next, ncancel, tickLog, pubs, mon>>

WakePull ==
  /\ Live /\ phase = "wait" /\ pull.st = "got" /\ ~AnyWorkerDone
  /\ buf' = Append(buf, pull.tick) /\ pull' = [st |-> "none"] /\ phase' = "drain"
  /\ UNCHANGED <<bs, wake, wseq, idlePending, pend, tasks, mailbox, now, outcome, next, ncancel, tickLog, pubs, mon>>

Due == {w \in wake : w.at <= now}
RECURSIVE SeqOfWake(_)
SeqOfWake(S) == IF S = {} THEN <<>>
                ELSE LET m == CHOOSE w \in S : \A v \in S : (w.at < v.at) \/ (w.at = v.at /\ w.seq <= v.seq)
                     IN <<m.tick>> \o SeqOfWake(S \ {m})

WakeTimeout ==
  /\ Live /\ phase = "wait" /\ ~AnyWorkerDone /\ pull.st # "got" /\ Due # {}
  /\ buf' = buf \o SeqOfWake(Due) /\ wake' = wake \ Due /\ phase' = "drain"
  /\ UNCHANGED <<bs, wseq, idlePending, pend, tasks, pull, mailbox, now, outcome, next, ncancel, tickLog, pubs, mon>>

(* the pull task: `await receive_queue.get()` *)
PullTake ==
  /\ Live /\ pull.st = "waiting" /\ mailbox # <<>>
  /\ pull' = [st |-> "got", tick |-> Head(mailbox)] /\ mailbox' = Tail(mailbox)
  /\ UNCHANGED <<bs, buf, wake, wseq, idlePending, pend, tasks, now, outcome, phase, next, ncancel, tickLog, pubs, mon>>

Internal == Drain \/ EnterWait \/ (\E t \in tasks : WakeWorker(t)) \/ WakePull \/ WakeTimeout \/ PullTake
(* no internal action is enabled (spelled out; equivalent to ~ENABLED Internal, but cheap for TLC) *)
Quiescent == /\ phase = "wait" /\ ~AnyWorkerDone /\ pull.st # "got" /\ Due = {}
             /\ ~(pull.st = "waiting" /\ mailbox # <<>>)

-----------------------------------------------------------------------------
(* environment: only at quiescence points *)
(* the body of task t runs to its end (without the "only at quiescence" scheduling assumption of the model-checking *)
(* runs: TraceEngine.tla uses this form, because a body without a gate finishes while the loop is starting tasks)    *)
WorkerFinishBody(t) ==
  /\ Live /\ t \in tasks /\ t.st = "running"
  /\ LET e == IpEntry(t.step, t.wid)
         c == [step |-> t.step, uid |-> t.uid, ty |-> t.ty, att |-> e.att, rc |-> e.rc,
               snapColl |-> e.snap_coll, snapW |-> e.snap_waiters]
         b == RunBody(c)
     IN /\ tasks' = (tasks \ {t}) \cup {[t EXCEPT !.st = "done", !.res = b.res]}
        /\ mailbox' = mailbox \o SendTicks(Prog[t.step].body, 1, c)
        /\ mon' = LET newu == UNION {{b.lists[i][j] : j \in 1..Len(b.lists[i])} : i \in 1..Len(b.lists)}
                       neww == {<<b.wret[i].step, b.wret[i].uid, b.wret[i].wid>> : i \in 1..Len(b.wret)}
                       newt == {<<b.wto[i].step, b.wto[i].uid, b.wto[i].wid>> : i \in 1..Len(b.wto)}
                       key == <<t.step, t.uid>>
                   IN [mon EXCEPT !.duplist = @ \/ (newu \cap mon.used # {}), !.used = @ \cup newu,
                                  !.dupwait = @ \/ (neww \cap mon.waits # {}), !.waits = @ \cup neww,
                                  !.dupto = @ \/ (newt \cap mon.tos # {}), !.tos = @ \cup newt,
                                  !.lastend = [k \in (DOMAIN @) \cup {key} |->
                                                 IF k = key THEN [att |-> e.att, at |-> now] ELSE @[k]]]
  /\ UNCHANGED <<bs, buf, wake, wseq, idlePending, pend, pull, now, outcome, phase, next, ncancel, tickLog, pubs>>
WorkerFinish(t) == Quiescent /\ WorkerFinishBody(t)

(* (the bodies without the "only at quiescence" scheduling assumption: TraceEngine.tla uses them for runs inside the server, *)
(*  where a send can reach the mailbox before a freshly reloaded loop has processed its first tick)                        *)
ExtSendUid(m, uid) ==
  /\ Live /\ next < MaxExt
  /\ mailbox' = Append(mailbox, [k |-> "add", ty |-> m.ty, uid |-> uid, evk |-> m.k, target |-> m.target,
                                 att |-> -1, first |-> -1, last_exc |-> "none", rc |-> R!NoRc])
  /\ next' = next + 1
  /\ UNCHANGED <<bs, buf, wake, wseq, idlePending, pend, tasks, pull, now, outcome, phase, ncancel, tickLog, pubs, mon>>
ExtSendBody(m) == ExtSendUid(m, "x" \o ToString(next))
ExtSend(m) == Quiescent /\ ExtSendBody(m)

ExtCancelBody ==
  /\ Live /\ ncancel < MaxCancel
  /\ mailbox' = Append(mailbox, [k |-> "cancel"]) /\ ncancel' = ncancel + 1
  /\ UNCHANGED <<bs, buf, wake, wseq, idlePending, pend, tasks, pull, now, outcome, phase, next, tickLog, pubs, mon>>
ExtCancel == Quiescent /\ ExtCancelBody

NextTimerAt == LET m == CHOOSE w \in wake : \A v \in wake : w.at <= v.at IN IF m.at > now THEN m.at ELSE now
\* time passes to t, at or after the next timer (after: the event loop was held up past the deadline -- the timer fires late)
AdvanceTo(t) ==
  /\ Live /\ Quiescent /\ wake # {}
  /\ t >= NextTimerAt /\ now' = t
  /\ now' > now
  /\ UNCHANGED <<bs, buf, wake, wseq, idlePending, pend, tasks, pull, mailbox, outcome, phase, next, ncancel, tickLog, pubs, mon>>
Advance == wake # {} /\ AdvanceTo(NextTimerAt)

(* the context is serialised at a quiescence point (ctx.to_dict, through JSON) and the run goes on from                *)
(* Context.from_dict + workflow.run(ctx=...) -- in a new process, or after the handler of this one was dropped.  What  *)
(* the serialised form keeps is the reducer state as RoundTrip leaves it; the runner's timer heap, the adapter's        *)
(* mailbox and the running step bodies are not part of it: the new runner arms the workflow timeout afresh, re-pings    *)
(* waiters that lost their requirements (Rehydrate), moves in-progress work back to the queues and starts workers up    *)
(* to each step's limit (Rewind).  The stream of the resumed run is a new stream (telemetry slots start empty).         *)
(* The same holds for a run that cancel_run has ended: the cancel tick keeps `is_running`, so run(ctx=...) goes on from *)
(* the cancelled state (a timed-out or finished run has is_running = FALSE: run(ctx=...) would start afresh).           *)
PauseResume ==
  /\ (Live /\ Quiescent) \/ outcome = "cancelled"
  /\ bs.running /\ mon.nres < MaxResume
  /\ LET st0 == R!RoundTrip(bs)
         rw == R!Rewind(st0, now)
         x0 == [buf |-> R!Rehydrate(st0), wseq |-> 1, pend |-> <<>>, pubs |-> <<>>,
                mon |-> [mon EXCEPT !.nres = @ + 1, !.slots = {}, !.nterm = 0, !.lastkind = "none", !.after = FALSE],
                idlePending |-> FALSE, outcome |-> "none",
                wake |-> IF TimeoutMs = -1 THEN {} ELSE {[at |-> now + TimeoutMs, seq |-> 0, tick |-> [k |-> "timeout"]]}]
         x == Exec(rw.cmds, 1, x0)
     IN /\ bs' = rw.st /\ buf' = x.buf /\ wake' = x.wake /\ wseq' = x.wseq /\ pend' = x.pend /\ pubs' = x.pubs /\ mon' = x.mon
        /\ idlePending' = x.idlePending /\ outcome' = x.outcome
  /\ tasks' = {} /\ pull' = [st |-> "none"] /\ mailbox' = <<>> /\ phase' = "drain" /\ tickLog' = <<>>
  /\ UNCHANGED <<now, next, ncancel>>

Env == (\E t \in tasks : WorkerFinish(t)) \/ (\E m \in ExtMenu : ExtSend(m)) \/ ExtCancel \/ Advance \/ PauseResume

(* the same actions addressed by the constant (step, worker slot) so that TLC can label them *)
WakeWorkerAt(s, w) == \E t \in tasks : t.step = s /\ t.wid = w /\ WakeWorker(t)
WorkerFinishAt(s, w) == \E t \in tasks : t.step = s /\ t.wid = w /\ WorkerFinish(t)

(* = Internal \/ Env, spelled out so that TLC labels every transition with its action and arguments *)
Next == \/ Drain \/ EnterWait \/ WakePull \/ WakeTimeout \/ PullTake \/ ExtCancel \/ Advance \/ PauseResume
        \/ \E s \in R!StepSet, w \in 0..3 : WakeWorkerAt(s, w)
        \/ \E s \in R!StepSet, w \in 0..3 : WorkerFinishAt(s, w)
        \/ \E m \in ExtMenu : ExtSend(m)
Spec == Init /\ [][Next]_vars

(* liveness: the loop keeps running its internal actions, step bodies eventually finish, time eventually passes; *)
(* external sends and cancels are not fair (the environment may never act)                                      *)
FairSpec == Spec /\ WF_vars(Internal) /\ WF_vars(\E t \in tasks : WorkerFinish(t)) /\ WF_vars(Advance)
(* nothing can happen any more without new external input *)
NeedsInput == Live /\ Quiescent /\ tasks = {} /\ wake = {} /\ mailbox = <<>>
(* C03 as liveness: accepted work never stalls -- every run ends or reaches a point where only external input helps *)
Live_Progress == <>(outcome # "none" \/ NeedsInput)

=============================================================================
