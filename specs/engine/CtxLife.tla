------------------------------ MODULE CtxLife ------------------------------
(* The public life cycle of a Context / WorkflowHandler pair, as a caller outside of steps sees it       *)
(* (workflows/context/context.py: PreContext -> ExternalContext faces, _workflow_run; workflow.py: run;   *)
(* handler.py: await, stream_events, cancel_run).  Engine.tla describes ONE run from the inside; this      *)
(* module describes what happens to the context object ACROSS runs: what each public call answers in each  *)
(* state, when a StartEvent is created, and what a follow-up run inherits.                                 *)
(*                                                                                                          *)
(* The workflow is the smallest one that shows the mechanism: one step `a` (StartEvent -> StopEvent) that   *)
(* counts its executions in the state store and then waits for the environment (Finish / Fail), so a run     *)
(* can be ended in every way: result, step failure, cancel_run, workflow timeout.                           *)
(*                                                                                                          *)
(* Abstract state of the context: st = [running, infl, n]                                                   *)
(*   running  the is_running flag of the reducer state (what to_dict() writes)                              *)
(*   infl     in-progress entries of step `a` in the reducer state (what running_steps() reports and what   *)
(*            rewind_in_progress starts again when a run is started FROM this state)                        *)
(*   n        the counter in the state store = executions of `a` so far                                     *)
(* How each way of ending leaves it (control_loop.py): result and step failure clear `running` and the      *)
(* finished invocation; cancel keeps both ("retain running state for resumption"); a timeout clears         *)
(* `running` but keeps the in-progress entry.                                                               *)
(*                                                                                                          *)
(* Workflow.run(ctx=...) creates a StartEvent iff ctx.is_running is false -- and ctx.is_running is          *)
(*   pre face: the serialised flag (st.running);   external face: whether the adapter's run is still going  *)
(* so a context that is reused as an OBJECT after its run was cancelled gets a fresh StartEvent although    *)
(* its state says "resume" -- while the same context taken through to_dict/from_dict does not.  And any      *)
(* in-progress entry the state still holds is started again by the next run, whatever ended the last one.   *)
(* Dev_LeftoverWorkOnReuse = TRUE is the code as it is; FALSE the reading in which a follow-up run starts   *)
(* exactly one execution (resuming a cancelled state, or a fresh start from a clean one).                   *)
(*****************************************************************************)
EXTENDS Naturals, Sequences, FiniteSets, TLC

CONSTANTS MaxOps, Dev_LeftoverWorkOnReuse

VARIABLES face,      \* "pre" | "ext"
          run,       \* "none" | "live" | "result" | "failed" | "cancelled" | "timedout"   (the handler's run)
          st,        \* [running, infl, n]
          snap,      \* the last to_dict(): a record like st, or NoSnap
          streamed,  \* the current handler's stream has been consumed
          last,      \* [op, res]: the last call and what the caller saw (value kind or exception class)
          nops

vars == <<face, run, st, snap, streamed, last, nops>>
NoSnap == [running |-> FALSE, infl |-> 99, n |-> 0]
Ended == {"result", "failed", "cancelled", "timedout"}

Init == /\ face = "pre" /\ run = "none" /\ st = [running |-> FALSE, infl |-> 0, n |-> 0]
        /\ snap = NoSnap /\ streamed = FALSE /\ last = [op |-> "-", res |-> "-"] /\ nops = 0

Step(op, res) == /\ nops < MaxOps /\ nops' = nops + 1 /\ last' = [op |-> op, res |-> res]

(* ctx.is_running as Workflow.run reads it *)
FaceSaysRunning == IF face = "pre" THEN st.running ELSE run = "live"

\* workflow.run(ctx=ctx)
Run ==
  IF face = "ext" /\ run = "live"
  THEN Step("run", "ContextStateError") /\ UNCHANGED <<face, run, st, snap, streamed>>
  ELSE LET startev == ~FaceSaysRunning
           rewound == IF Dev_LeftoverWorkOnReuse THEN st.infl
                      ELSE IF st.running /\ ~startev THEN st.infl ELSE 0          \* only a resumed run takes work over
           k == rewound + (IF startev THEN 1 ELSE 0)
       IN /\ k > 0
          /\ Step("run", "ok")
          /\ face' = "ext" /\ run' = "live" /\ streamed' = FALSE
          /\ st' = [running |-> TRUE, infl |-> k, n |-> st.n + k]
          /\ UNCHANGED snap

\* the environment lets the newest execution of `a` return its StopEvent / raise
Finish ==
  /\ run = "live"
  /\ Step("finish", "ok")
  /\ run' = "result" /\ st' = [st EXCEPT !.running = FALSE, !.infl = @ - 1]
  /\ UNCHANGED <<face, snap, streamed>>
Fail ==
  /\ run = "live"
  /\ Step("fail", "ok")
  /\ run' = "failed" /\ st' = [st EXCEPT !.running = FALSE, !.infl = @ - 1]
  /\ UNCHANGED <<face, snap, streamed>>
\* handler.cancel_run(): ends a live run, keeps the state for resumption; a no-op otherwise
Cancel ==
  /\ face = "ext"
  /\ Step("cancel", "ok")
  /\ run' = (IF run = "live" THEN "cancelled" ELSE run)
  /\ UNCHANGED <<face, st, snap, streamed>>
\* the workflow timeout elapses
Timeout ==
  /\ run = "live"
  /\ Step("timeout", "ok")
  /\ run' = "timedout" /\ st' = [st EXCEPT !.running = FALSE]
  /\ UNCHANGED <<face, snap, streamed>>

ToDict ==
  IF face = "pre" THEN Step("to_dict", "ContextStateError") /\ UNCHANGED <<face, run, st, snap, streamed>>
  ELSE Step("to_dict", "ok") /\ snap' = st /\ UNCHANGED <<face, run, st, streamed>>
\* Context.from_dict(workflow, <the last to_dict()>): a new pre-run context takes the place of the old one
FromDict ==
  /\ snap # NoSnap
  /\ Step("from_dict", "ok")
  /\ face' = "pre" /\ run' = "none" /\ st' = snap /\ streamed' = FALSE
  /\ UNCHANGED snap

Query(op, res) == Step(op, res) /\ UNCHANGED <<face, run, st, snap, streamed>>
RunningSteps == Query("running_steps", IF face = "pre" THEN "ContextStateError"
                                       ELSE IF st.infl > 0 THEN "steps:a" ELSE "steps:")
IsRunning == Query("is_running", IF FaceSaysRunning THEN "true" ELSE "false")
Send == Query("send", IF face = "pre" THEN "ContextStateError" ELSE "ok")
StepApi == Query("step_api", "ContextStateError")          \* wait_for_event & co. are for step code only
Result == /\ run \in Ended
          /\ Query("result", CASE run = "result" -> "value" [] run = "failed" -> "ValueError"
                               [] run = "cancelled" -> "WorkflowCancelledByUser" [] run = "timedout" -> "WorkflowTimeoutError")
TerminalEvent == CASE run = "result" -> "StopEvent" [] run = "failed" -> "WorkflowFailedEvent"
                   [] run = "cancelled" -> "WorkflowCancelledEvent" [] run = "timedout" -> "WorkflowTimedOutEvent"
Stream == /\ run \in Ended
          /\ Step("stream", IF streamed THEN "WorkflowRuntimeError" ELSE "stream:" \o TerminalEvent)
          /\ streamed' = TRUE /\ UNCHANGED <<face, run, st, snap>>

Next == Run \/ Finish \/ Fail \/ Cancel \/ Timeout \/ ToDict \/ FromDict \/ RunningSteps \/ IsRunning \/ Send \/ StepApi
        \/ Result \/ Stream
Spec == Init /\ [][Next]_vars

----------------------------------------------------------------------------
TypeOK == face \in {"pre", "ext"} /\ run \in {"none", "live"} \cup Ended /\ st.infl \in 0..(MaxOps + 1)
\* a context is driven by at most one run at a time
Act_NoSecondRun == [][(face = "ext" /\ run = "live" /\ last'.op = "run") => (last'.res = "ContextStateError" /\ st' = st)]_vars
\* the store is carried from run to run and through to_dict/from_dict: the counter never goes down except by
\* going back to an older snapshot
Act_StoreCarried == [][last'.op # "from_dict" => st'.n >= st.n]_vars
\* the serialised form says "resume me" exactly for a live or cancelled run
Inv_RunningFlag == (face = "ext") => (st.running <=> run \in {"live", "cancelled"})
\* a finished handler answers like its outcome, and its stream can be read once
Inv_LiveHasWork == (run = "live") => st.infl >= 1
\* design reading (sanity configuration: the code as it is does NOT meet it): a run starts one execution of `a`
Act_OneExecutionPerRun == [][(last'.op = "run" /\ last'.res = "ok") => st'.n = st.n + 1]_vars
=============================================================================
