------------------------------ MODULE EngineProps ------------------------------
(* The listed engine-family properties as invariants / action properties of Engine.tla.    *)
EXTENDS Engine

StepsOf == R!StepSet
Ip(s) == bs.steps[s].ip
Q(s) == bs.steps[s].queue

(* C01 *)
Inv_C01 == \A s \in StepsOf :
  /\ Len(Ip(s)) <= R!Nw(s)
  /\ \A i, j \in 1..Len(Ip(s)) : Ip(s)[i].wid = Ip(s)[j].wid => i = j
  /\ \A i \in 1..Len(Ip(s)) : Ip(s)[i].wid \in 0..(R!Nw(s) - 1)
  /\ Cardinality({t \in tasks : t.step = s}) + Cardinality({i \in 1..Len(pend) : pend[i].step = s}) <= R!Nw(s)

(* C02 *)
Inv_C02 == ~mon.baddeliv

(* C03 (a): at the points where the loop blocks, waiting work means the step is at capacity *)
Inv_C03a == (Live /\ bs.running /\ phase = "wait") =>
              \A s \in StepsOf : Q(s) # <<>> => Len(Ip(s)) = R!Nw(s)

IsIdlePub(p) == p.k = "idle" \/ (p.k = "unhandled" /\ p.idle)
TrulyIdle ==
  /\ \A s \in StepsOf : Q(s) = <<>> /\ Ip(s) = <<>>
  /\ ~ \E w \in wake : w.tick.k = "add"                       \* a retry waiting out its delay
  /\ mailbox = <<>> /\ pull.st # "got"                        \* events already delivered to the run
  /\ \A i \in 1..Len(buf) : buf[i].k = "idlecheck"
AnnouncesIdle == \E i \in 1..Len(pubs) : IsIdlePub(pubs[i])
(* C03 (b) strict form: whenever the tick just processed announced idleness, the run is truly idle *)
Act_C03b == [][(pubs' # pubs /\ AnnouncesIdle') => TrulyIdle']_vars
(* what today's code guarantees: idle is announced only when the *reducer state* has no work *)
Act_C03b_AsCoded == [][(pubs' # pubs /\ AnnouncesIdle') =>
                        (\A s \in StepsOf : bs'.steps[s].queue = <<>> /\ bs'.steps[s].ip = <<>>)]_vars

(* C04 *)
Matches(o, k) == \/ (o = "result" /\ k = "stop")
                 \/ (o = "failed" /\ k = "failed")
                 \/ (o = "cancelled" /\ k = "cancelled")
                 \/ (o = "timedout" /\ k = "timedout")
Inv_C04 ==
  /\ mon.nterm <= 1 /\ ~mon.after
  /\ outcome # "none" => (outcome # "error" /\ mon.nterm = 1 /\ Matches(outcome, mon.lastkind))
  /\ outcome = "none" => mon.nterm = 0

(* C35: per (step, worker) RUNNING and NOT_RUNNING alternate; an InputRequiredEvent is published once *)
Inv_C35 == ~mon.bad35
Inv_C35_Ask == ~mon.askdup

(* C09 / C10 *)
Inv_C09 == ~mon.duplist
Inv_C10 == ~mon.dupwait
Inv_C10_Timeout == ~mon.dupto
Inv_C10_WaiterEvent == ~mon.askdup            \* the waiter_event is published once per waiter id

(* C08: recovery budget *)
Inv_C08 == \A s \in StepsOf : \A i \in 1..Len(Ip(s)) :
   \A h \in DOMAIN Ip(s)[i].rc : Ip(s)[i].rc[h] <= R!SC(h).max_rec

(* C11: replaying the tick log reproduces the live state, timestamps aside *)
NoTimes(b) == [running |-> b.running,
               steps |-> [s \in DOMAIN b.steps |->
                 [queue |-> [i \in 1..Len(b.steps[s].queue) |-> [b.steps[s].queue[i] EXCEPT !.first = 0]],
                  ip |-> [i \in 1..Len(b.steps[s].ip) |-> [b.steps[s].ip[i] EXCEPT !.first = 0]],
                  coll |-> b.steps[s].coll, waiters |-> b.steps[s].waiters]]]
Inv_C11 == NoTimes(R!Rebuild(R!EmptyState, tickLog, now)) = NoTimes(bs)

(* C12 (stability clause): one serialisation round trip is a fixed point *)
Inv_C12c == R!RoundTrip(R!RoundTrip(bs)) = R!RoundTrip(bs)

(* C12 at design level: a PauseResume step keeps every piece of unfinished work.  Per step: the multiset of input      *)
(* events queued or in progress, the collect buffers and the waiter ids are the same before and after; after it every   *)
(* step with queued work runs at its worker limit (Inv_C03a at the next wait point says the same, this is immediate).   *)
WorkOf(b, s) == [u \in {b.steps[s].queue[i].uid : i \in 1..Len(b.steps[s].queue)} \cup {b.steps[s].ip[i].uid : i \in 1..Len(b.steps[s].ip)} |->
                   Cardinality({i \in 1..Len(b.steps[s].queue) : b.steps[s].queue[i].uid = u})
                   + Cardinality({i \in 1..Len(b.steps[s].ip) : b.steps[s].ip[i].uid = u})]
WaiterIds(b, s) == {b.steps[s].waiters[i].id : i \in 1..Len(b.steps[s].waiters)}
IsResumeStep == mon'.nres = mon.nres + 1
Act_C12_WorkKept == [][IsResumeStep => \A s \in StepsOf :
                          /\ WorkOf(bs', s) = WorkOf(bs, s)
                          /\ bs'.steps[s].coll = bs.steps[s].coll
                          /\ WaiterIds(bs', s) = WaiterIds(bs, s)
                          /\ (bs'.steps[s].queue # <<>> => Len(bs'.steps[s].ip) = R!Nw(s))]_vars
(* ... and the resume starts nothing twice: a step input that is queued / running again is not ALSO pinged by the        *)
(* rehydration ticks (an answered waiter's replay is already part of the work)                                            *)
Act_C12_NoDoubleStart == [][IsResumeStep => \A i \in 1..Len(buf') :
                          (buf'[i].k = "add" /\ buf'[i].target \in StepsOf) => buf'[i].uid \notin DOMAIN WorkOf(bs', buf'[i].target)]_vars
(* ... and the retry counts of work that was QUEUED travel with it (work that was RUNNING restarts at 0: recorded finding) *)
Act_C12_QueuedAttemptsKept == [][IsResumeStep => \A s \in StepsOf : \A i \in 1..Len(bs.steps[s].queue) :
                          LET a == bs.steps[s].queue[i] IN
                          a.att >= 1 => \/ \E j \in 1..Len(bs'.steps[s].queue) : bs'.steps[s].queue[j].uid = a.uid /\ bs'.steps[s].queue[j].att = a.att
                                        \/ \E j \in 1..Len(bs'.steps[s].ip) : bs'.steps[s].ip[j].uid = a.uid /\ bs'.steps[s].ip[j].att = a.att]_vars
(* strict forms the code does not meet today (the sanity configurations expect TLC to refute them):                     *)
(*   a retry waiting out its delay in the runner's timer heap is not part of the serialised form                         *)
Act_C12_TimersKept == [][IsResumeStep => \A w \in wake : w.tick.k = "add" => \E v \in wake' : v.tick = w.tick]_vars
(*   work that was running restarts with attempt number 0                                                                *)
Act_C12_RunningAttemptsKept == [][IsResumeStep => \A s \in StepsOf : \A i \in 1..Len(bs.steps[s].ip) :
                          LET a == bs.steps[s].ip[i] IN
                          a.att >= 1 => \/ \E j \in 1..Len(bs'.steps[s].queue) : bs'.steps[s].queue[j].uid = a.uid /\ bs'.steps[s].queue[j].att = a.att
                                        \/ \E j \in 1..Len(bs'.steps[s].ip) : bs'.steps[s].ip[j].uid = a.uid /\ bs'.steps[s].ip[j].att = a.att]_vars

(* C06: retry k (k = 1, 2, ...) starts no earlier than the documented delay for that retry after failure k *)
Inv_C06 == ~mon.early

(* C31 *)
Inv_C31 == /\ (outcome = "timedout") => mon.lastkind = "timedout"
           /\ (outcome = "cancelled") => mon.lastkind = "cancelled"
           /\ (outcome # "none") => (tasks = {} /\ pend = <<>>)

TypeOK == phase \in {"drain", "wait"} /\ outcome \in {"none", "result", "failed", "cancelled", "timedout", "error"}
Bound == TRUE
=============================================================================
