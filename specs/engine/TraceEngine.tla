---------------------------- MODULE TraceEngine ----------------------------
(* Runner-level trace validation: every recorded execution of the real engine                *)
(* (_ControlLoopRunner + BasicRuntime adapter + real step functions, driven under the         *)
(* virtual-time loop) must be a behaviour of Engine.tla.                                      *)
(*                                                                                           *)
(* One recorded line = one Engine action, with the logged fields bound to the action's       *)
(* variables:                                                                                *)
(*   tick    (adapter.on_tick)         Drain: the model's next buffered tick IS the recorded   *)
(*                                     tick (so the order of the runner's buffer, the due      *)
(*                                     timers and -- for result ticks -- what the real step    *)
(*                                     function returned against its snapshot are all bound),  *)
(*                                     same clock value, same timer heap before, same reducer  *)
(*                                     state and same published events after                   *)
(*   end     (a step body finished)    WorkerFinishBody(t) for the task in that worker slot    *)
(*   wait    (wait_for_next_task       WakePull / WakeWorker(t) / WakeTimeout as the recorded   *)
(*            returned)                completion says, each under the model's own enabling     *)
(*                                     condition (worker before pull before timers), with the  *)
(*                                     task set and the timeout argument compared               *)
(*   cmd     (harness driver)          ExtSend / ExtCancel / Advance                           *)
(*   outcome                           the way the run ended                                   *)
(* EnterWait and PullTake leave no line of their own: they are taken silently, and only when  *)
(* the next line is not a tick (deterministic, at most two per consumed line).                *)
(* A trace that uses a driver action the model has no counterpart for (loop freeze, plain      *)
(* sleep) ends with verdict "unsupported:<cmd>": it is counted, not judged.                    *)
(* Conformance only (DESIGN.md 2.3): a mismatch is reported as drift, never as a violation.   *)
EXTENDS Engine, Json, IOUtils

T == JsonDeserialize(IOEnv.TRACE_FILE)

VARIABLES tid, l, verdict,
          tw,           \* clock value at the last EnterWait (the timeout argument of wait_for_next_task is computed then)
          sleepTo,      \* the driver lets time pass up to this clock value (a step body that takes time); timers inside the
                        \* window fire on the way
          freezeTo      \* the driver holds the loop up and moves the clock here once the released body has finished
tvars == <<vars, tid, l, verdict, tw, sleepTo, freezeTo>>
aux == <<tw, sleepTo, freezeTo>>

Tr == T.traces[tid]
Ev == Tr.log[l]

TraceInit == /\ tid \in 1..Len(T.traces) /\ l = 1 /\ verdict = "ok"
             /\ (IF T.traces[tid].resumed THEN InitResumed(T.traces[tid].init, T.traces[tid].now0, T.traces[tid].next0)
                                        ELSE InitAt(T.traces[tid].now0))
             /\ tw = T.traces[tid].now0
             /\ sleepTo = T.traces[tid].now0 /\ freezeTo = T.traces[tid].now0

Fail(c) == /\ verdict' = c /\ UNCHANGED <<vars, tid, l, aux>>
Ok == verdict' = "ok" /\ l' = l + 1 /\ UNCHANGED <<tid>>

CanEnterWait == Live /\ phase = "drain" /\ buf = <<>>
CanPullTake == Live /\ pull.st = "waiting" /\ mailbox # <<>>
Silent ==
  /\ verdict = "ok" /\ l <= Len(Tr.log) /\ Ev.e # "tick" /\ (CanEnterWait \/ CanPullTake)
  /\ IF CanEnterWait THEN EnterWait /\ tw' = now ELSE PullTake /\ tw' = tw
  /\ UNCHANGED <<tid, l, verdict, sleepTo, freezeTo>>

(* time passing without a driver `advance`: inside a sleep window the clock moves to the next timer (which then fires) or *)
(* to the end of the window; after a loop freeze it jumps once the released body has finished (next line: the wait)      *)
MinAt == LET m == CHOOSE w \in wake : \A v \in wake : w.at <= v.at IN m.at
\* inside a sleep window the clock stops at the next engine timer (which then fires), at the moment the next recorded line
\* happened (lines of runs inside the server carry their time: the stack's own timers and senders act during a sleep),
\* or at the end of the window
LineAt == IF l <= Len(Tr.log) /\ Tr.log[l].e # "tick" /\ Tr.log[l].at > now THEN Tr.log[l].at
          ELSE IF l <= Len(Tr.log) /\ Tr.log[l].e = "tick" /\ Tr.log[l].now > now THEN Tr.log[l].now ELSE sleepTo
Min2(a, b) == IF a < b THEN a ELSE b
ClockTarget == IF \E w \in wake : w.at <= Min2(sleepTo, LineAt) THEN MinAt ELSE Min2(sleepTo, LineAt)
CanSleepClock == Live /\ now < sleepTo /\ Quiescent /\ ClockTarget > now
CanFreezeClock == Live /\ now < freezeTo /\ l <= Len(Tr.log) /\ Ev.e = "wait"
Clock ==
  /\ verdict = "ok" /\ ~(l <= Len(Tr.log) /\ Ev.e # "tick" /\ (CanEnterWait \/ CanPullTake))
  /\ (CanSleepClock \/ CanFreezeClock)
  /\ now' = IF CanFreezeClock THEN freezeTo ELSE ClockTarget
  /\ UNCHANGED <<bs, buf, wake, wseq, idlePending, pend, tasks, pull, mailbox, outcome, phase, next, ncancel, tickLog, pubs, mon>>
  /\ UNCHANGED <<tid, l, verdict, aux>>

WakeView == {<<w.at, w.tick.k>> : w \in wake}
LogWake(e) == {<<e.wake_abs[i][1], e.wake_abs[i][2]>> : i \in 1..Len(e.wake_abs)}

TickLine(e) ==
  IF ~(Live /\ phase = "drain" /\ buf # <<>>) THEN Fail("tick_but_model_buffer_empty")
  \* a result tick repeats the payload attribute `evk` of its input event, which the state (hence the model) does not keep
  ELSE IF (IF e.tick.k = "result" THEN [Head(buf) EXCEPT !.evk = e.tick.evk] ELSE Head(buf)) # e.tick THEN Fail("tick_differs")
  ELSE IF now # e.now THEN Fail("clock_differs")
  ELSE IF WakeView # LogWake(e) \/ Cardinality(wake) # Len(e.wake_abs) THEN Fail("timers_differ")
  ELSE /\ DrainTick(e.tick)
       /\ verdict' = IF bs' # e.state THEN "state_differs" ELSE IF pubs' # e.pubs THEN "pubs_differ" ELSE "ok"
       /\ l' = (IF verdict' = "ok" THEN l + 1 ELSE l) /\ UNCHANGED <<tid, aux>>

EndLine(e) ==
  LET cands == {t \in tasks : t.st = "running" /\ t.step = e.step /\ t.uid = e.uid /\ (e.wid = -1 \/ t.wid = e.wid)}
  IN IF ~Live \/ cands = {} THEN Fail("body_finished_but_no_such_running_task")
     ELSE LET t == CHOOSE t \in cands : \A u \in cands : t.wid <= u.wid
          IN WorkerFinishBody(t) /\ Ok /\ UNCHANGED aux

TaskKey(t) == "w:" \o t.step \o ":" \o ToString(t.wid)
WaitLine(e) ==
  LET logged == {e.running[i] : i \in 1..Len(e.running)} \cup {e.pending[i] : i \in 1..Len(e.pending)}
      tmo == IF wake = {} THEN -1 ELSE IF MinAt > tw THEN MinAt - tw ELSE 0
  IN IF ~(Live /\ phase = "wait") THEN Fail("wait_returned_but_model_not_waiting")
     ELSE IF {TaskKey(t) : t \in tasks} # logged \ {"pull"} THEN Fail("task_set_differs")
     ELSE IF e.timeout_ms # tmo THEN Fail("wait_timeout_argument_differs")
     ELSE IF e.done = "pull"
          THEN IF pull.st = "got" /\ ~AnyWorkerDone THEN WakePull /\ Ok /\ UNCHANGED aux ELSE Fail("pull_chosen_but_not_enabled")
     ELSE IF e.done = "timeout"
          THEN IF ~AnyWorkerDone /\ pull.st # "got" /\ Due # {} THEN WakeTimeout /\ Ok /\ UNCHANGED aux
               ELSE Fail("timeout_chosen_but_not_enabled")
     ELSE LET cands == {t \in tasks : t.st = "done" /\ TaskKey(t) = e.done}
          IN IF cands = {} THEN Fail("worker_chosen_but_not_done")
             ELSE (LET t == CHOOSE t \in cands : TRUE IN WakeWorker(t)) /\ Ok /\ UNCHANGED aux

CmdLine(e) ==
  LET c == e.cmd IN
  CASE c[1] \in {"start", "release", "release2", "consume2"} -> Ok /\ UNCHANGED <<vars, aux>>     \* a release shows as the body's `end` line
    [] c[1] = "sleep" -> Ok /\ sleepTo' = now + c[2] /\ UNCHANGED <<vars, tw, freezeTo>>
    [] c[1] = "release_freeze" -> Ok /\ freezeTo' = Tr.now0 + c[2] + 1 /\ UNCHANGED <<vars, tw, sleepTo>>
    [] c[1] = "send" ->
         IF ~Live THEN Fail("send_to_a_finished_run")
         ELSE IF c[3] \notin {"x" \o ToString(next), "y" \o ToString(next)} /\ ~Tr.free_uids THEN Fail("external_uid_differs")
         ELSE ExtSendUid([ty |-> c[2], target |-> c[4], k |-> c[5]], c[3]) /\ Ok /\ UNCHANGED aux
    [] c[1] = "cancel" ->
         IF ~Live THEN Fail("cancel_of_a_finished_run")
         ELSE ExtCancelBody /\ Ok /\ UNCHANGED aux
    [] c[1] = "advance" ->
         IF ~(Live /\ Quiescent /\ wake # {}) THEN Fail("advance_when_model_not_quiescent_or_no_timer")
         \* the driver names its target: the next timer, or a later moment (the clock then stops at each timer on the way,
         \* like inside a sleep window)
         ELSE IF Tr.now0 + c[2] < NextTimerAt THEN Fail("advance_target_before_next_timer")
         ELSE Advance /\ Ok /\ sleepTo' = Tr.now0 + c[2] /\ UNCHANGED <<tw, freezeTo>>
    [] OTHER -> Fail("unsupported:" \o c[1])

OutcomeLine(e) ==
  IF outcome # e.kind THEN Fail("outcome_differs") ELSE Ok /\ UNCHANGED <<vars, aux>>

Consume ==
  /\ verdict = "ok" /\ l <= Len(Tr.log)
  /\ (Ev.e = "tick" \/ ~(CanEnterWait \/ CanPullTake))
  /\ ~(CanSleepClock \/ CanFreezeClock)
  /\ CASE Ev.e = "tick" -> TickLine(Ev)
       [] Ev.e = "end" -> EndLine(Ev)
       [] Ev.e = "wait" -> WaitLine(Ev)
       [] Ev.e = "cmd" -> CmdLine(Ev)
       [] Ev.e = "outcome" -> OutcomeLine(Ev)
       [] OTHER -> Fail("unknown_line")

Done == /\ (verdict # "ok" \/ l > Len(Tr.log))
        \* l = the line that was not matched (Len+1 if all were); the rest helps reading a rejection
        /\ PrintT(<<"VERDICT", tid, verdict, l, phase, Len(buf), Len(pend), outcome, pull.st, Len(mailbox)>>)
        /\ UNCHANGED tvars
TraceNext == Silent \/ Clock \/ Consume \/ Done
=============================================================================
