---- MODULE TraceLlamactl ----
(* Trace validation: is every recorded history of the real ConfigManager / EnvService / AuthService *)
(* a behaviour of Llamactl.tla?  One event = one operation with its return value and the projected *)
(* state after it (table rows, stored settings), compared with the model's successor state.        *)
EXTENDS Llamactl, Json, IOUtils

T == JsonDeserialize(IOEnv.TRACE_FILE)
TraceEnvs == {T.env_ids[i] : i \in 1..Len(T.env_ids)}
TraceDefault == T.default
TraceNames == T.names
TraceDev == T.dev

VARIABLES tid, l, alt
tvars == <<vars, tid, l, alt>>
Tr == T.traces[tid]

ToSet(s) == {s[i] : i \in 1..Len(s)}
ProfSet(ps) == {<<ps[i].n, ps[i].e>> : i \in 1..Len(ps)}
OidcSet(ps) == {<<ps[i].n, ps[i].e>> : i \in {j \in 1..Len(ps) : ps[j].oidc}}

TraceInit == Init /\ tid \in 1..Len(T.traces) /\ l = 1 /\ alt = 0

\* the model takes the operation of event ev and lands in the state the real system showed
Conforms(ev) ==
  /\ ev.ret = Ret(ev.op)
  /\ Do(ev.op)
  /\ envs' = ToSet(ev.post.env_rows)
  /\ curEnv' = ev.post.cur_env
  /\ curName' = ev.post.stored
  /\ profiles' = ProfSet(ev.post.profiles)
  /\ oidc' = OidcSet(ev.post.profiles)
  /\ (IF Active' = NoProfile THEN ev.post.active.n = None
      ELSE ev.post.active.n = Active'[1] /\ ev.post.active.e = Active'[2])

TStep ==
  /\ alt = 0 /\ l <= Len(Tr.events)
  /\ Conforms(Tr.events[l])
  /\ PrintT(<<"P", tid, l>>)
  /\ l' = l + 1 /\ UNCHANGED <<tid, alt>>

\* the fan: each alternative next operation from the state at the end of the path
TFan ==
  /\ alt = 0 /\ l = Len(Tr.events) + 1
  /\ \E j \in 1..Len(Tr.fan) :
        /\ Conforms(Tr.fan[j])
        /\ PrintT(<<"A", tid, j>>)
        /\ alt' = j
  /\ UNCHANGED <<tid, l>>

TraceNext == TStep \/ TFan
====
