CONSTANTS
  Dev_HitlExactClass = TRUE
  ClassesU = {"Start0", "Stop", "Stop0"}
  MaxAcc = 2
  MaxRet = 2
  MaxReg = 2
  SSkips = {{}}
  WSkips = {{}}
  MaxH = 0
  HRets = {{}}
  HFors = {{"*"}}
  Ordered = FALSE
  PruneNoStart = TRUE
SPECIFICATION Spec
INVARIANT Inv_ReprAnyClass
