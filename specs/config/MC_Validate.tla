---- MODULE MC_Validate ----
(* Enumeration of the abstract graph space for C23: every initial state is one graph (one test    *)
(* vector).  Emit prints the vector (compact: indices into the printed shape tables) for the      *)
(* harness, which compiles it to a real Workflow subclass.  The invariants are the per-graph      *)
(* theorems of Validate.tla (declarative oracle = implementation-shaped procedure).               *)
EXTENDS Validate, SequencesExt

CONSTANTS
  ClassesU,     \* event classes usable in step signatures of this instance
  MaxAcc,       \* max size of an accepted union (>= 1)
  MaxRet,       \* max size of a returned union (0 = "-> None")
  MaxReg,       \* max number of regular steps (names s1..)
  SSkips,       \* set of step-level skip sets
  WSkips,       \* set of workflow-level skip sets
  MaxH,         \* max number of @catch_error handlers (names h1..)
  HRets,        \* set of handler return sets
  HFors,        \* set of handler scopes: {"*"} (wildcard, no for_steps) or a set of step names
  Ordered,      \* TRUE: all orderings of regular steps (needed when handlers name steps)
  PruneNoStart  \* TRUE: graphs with >= 2 steps in which no step accepts a StartEvent class are not
                \* enumerated (all are rejected by the first clause; the <= 1-step ones are kept)

RegNames == <<"s1", "s2", "s3">>
HNames == <<"h1", "h2">>

AccChoices == {S \in SUBSET ClassesU : Cardinality(S) >= 1 /\ Cardinality(S) <= MaxAcc}
RetChoices == {S \in SUBSET ClassesU : Cardinality(S) <= MaxRet}
Shapes == SetToSeq([acc : AccChoices, ret : RetChoices, sskip : SSkips])
HShapes == SetToSeq([ret : HRets, for : HFors])
WSkipSeq == SetToSeq(WSkips)
NS == Len(Shapes)
NHS == Len(HShapes)

ASSUME PrintT(<<"SHAPES", Shapes>>)
ASSUME PrintT(<<"HSHAPES", HShapes>>)
ASSUME PrintT(<<"WSKIPS", WSkipSeq>>)

VARIABLES reg,     \* sequence of indices into Shapes (regular steps s1..)
          hs,      \* sequence of indices into HShapes (handlers h1..)
          ws,      \* index into WSkipSeq
          done
vars == <<reg, hs, ws, done>>

\* regular steps: r1,r2,r3 in 0..NS, 0 = absent, absent ones first; canonical (non-decreasing) order
\* unless Ordered.  Enumerated directly (no function-set filtering) to keep Init cheap.
Lo(prev) == IF Ordered THEN (IF prev = 0 THEN 0 ELSE 1) ELSE prev
Init == /\ \E r1 \in (IF MaxReg >= 3 THEN 0..NS ELSE {0}) :
           \E r2 \in (IF MaxReg >= 2 THEN Lo(r1)..NS ELSE {0}) :
           \E r3 \in (IF MaxReg >= 1 THEN Lo(r2)..NS ELSE {0}) :
              reg = SelectSeq(<<r1, r2, r3>>, LAMBDA x : x # 0)
        /\ \E h1 \in (IF MaxH >= 2 THEN 0..NHS ELSE {0}) :
           \E h2 \in (IF MaxH >= 1 THEN (IF h1 = 0 THEN 0 ELSE 1)..NHS ELSE {0}) :
              hs = SelectSeq(<<h1, h2>>, LAMBDA x : x # 0)
        /\ ws \in 1..Len(WSkipSeq)
        /\ (PruneNoStart /\ Len(reg) + Len(hs) >= 2) => \E i \in 1..Len(reg) : \E c \in Shapes[reg[i]].acc : IsStart(c)
        /\ done = FALSE

StepRec(sh) == [acc |-> sh.acc, ret |-> sh.ret, role |-> "step", wild |-> FALSE, for |-> {}, sskip |-> sh.sskip]
HRec(hsh) == [acc |-> {"Failed"}, ret |-> hsh.ret, role |-> "catch_error",
              wild |-> (hsh.for = {"*"}), for |-> (IF hsh.for = {"*"} THEN {} ELSE hsh.for), sskip |-> {}]

Graph(r, h, w) ==
  [ steps |-> TLCEval([nm \in {RegNames[i] : i \in 1..Len(r)} \cup {HNames[i] : i \in 1..Len(h)} |->
                 IF \E i \in 1..Len(r) : RegNames[i] = nm
                 THEN StepRec(Shapes[r[CHOOSE i \in 1..Len(r) : RegNames[i] = nm]])
                 ELSE HRec(HShapes[h[CHOOSE i \in 1..Len(h) : HNames[i] = nm]])]),
    wskip |-> WSkipSeq[w] ]

G == Graph(reg, hs, ws)

Emit == /\ ~done
        /\ PrintT(<<"G", reg, hs, ws>>)          \* short on purpose: one line, no wrapping
        /\ done' = TRUE
        /\ UNCHANGED <<reg, hs, ws>>
Next == Emit
Spec == Init /\ [][Next]_vars

\* evaluated once per graph (in the not-yet-emitted state)
Inv_Strict == done \/ LET g == G IN Thm_AcceptIffWellFormed(g) /\ Thm_HitlStrict(g)
Inv_Faithful == done \/ LET g == G IN Thm_AcceptIffWellFormed(g) /\ Thm_HitlFaithful(g)
\* the drawn representation of every accepted graph is closed (build.py)
Inv_Repr == done \/ LET g == G IN Thm_ReprClosed(g) /\ Thm_ReprExternal(g)
\* sanity (expected to fail): also for classes validate() rejects
Inv_ReprAnyClass == done \/ ReprClosed(G)
====
