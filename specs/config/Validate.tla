---- MODULE Validate ----
(* C23 -- the decision procedure of Workflow.validate as a function table.                        *)
(*                                                                                                *)
(* A graph g is a record                                                                          *)
(*   [ steps : [name -> [acc  : set of event classes accepted (union annotation),                 *)
(*                       ret  : set of event classes returned ({} = "-> None"),                  *)
(*                       role : "step" | "catch_error",                                          *)
(*                       wild : BOOLEAN  (catch_error without for_steps),                        *)
(*                       for  : set of step names (catch_error for_steps),                       *)
(*                       sskip: step-level skip_graph_checks ]],                                 *)
(*     wskip : workflow-level skip_graph_checks ]                                                 *)
(*                                                                                                *)
(* Part 1  WellFormed(g), Hitl(g): DECLARATIVE, from the property statement (set/closure          *)
(*         formulas; no order of checks).  Used by the observer Obs_C23 as the oracle.            *)
(* Part 2  CodeOutcome(g), CodeHitl(g): IMPLEMENTATION-SHAPED, the checks of                      *)
(*         representation/validate.py in the order the code runs them, returning the error        *)
(*         family the code raises first.  Dev_HitlExactClass = TRUE is the code as it is today.   *)
(* TLC checks Part 1 = Part 2 on every enumerated graph (MC_Validate), the harness runs every     *)
(* enumerated graph on the real Workflow class, and Obs_C23 judges what the real code returned.   *)
(*                                                                                                *)
(* Reading decisions (where the one-sentence statement is silent, the documented rule is used):   *)
(*  - "boundary event" when consumed-but-not-produced: InputRequiredEvent / HumanResponseEvent /  *)
(*    StopEvent / StepFailedEvent subclasses (docstring of _validate_event_connectivity) and the  *)
(*    workflow's StartEvent class.                                                                *)
(*  - "vice versa": a produced event nobody consumes must be an OUTPUT event (StopEvent or        *)
(*    InputRequiredEvent subclass: Workflow.validate docstring "only output events may be         *)
(*    terminal"); a produced, unconsumed HumanResponseEvent is tolerated only when the            *)
(*    "terminal_event" check is skipped ("except where a check is skipped").                      *)
(*  - event nodes are exact classes (a step accepting A is not fed by a returned subclass of A);  *)
(*    the categories Start/Stop/InputRequired/HumanResponse are subclass-closed.                  *)
(*  - "can reach an output event" applies to steps that return at least one event; a step that    *)
(*    returns None only is a sink (documented: "every step producing events must reach ...").     *)
(*  - "reachable": from the StartEvent class, from any HumanResponseEvent class in the graph, or  *)
(*    being a @catch_error handler (reached by the runtime's failure routing).                    *)
EXTENDS Naturals, Sequences, FiniteSets, TLC

CONSTANT Dev_HitlExactClass     \* TRUE: the HITL flag tests the exact base classes (code today)

\* ------------------------------------------------------------------ event class universe
\* name -> kind; "base" = the library class itself
KindOf == [ Start |-> "start", Start0 |-> "start", Start1 |-> "start",
            Stop |-> "stop", Stop0 |-> "stop", Stop1 |-> "stop",
            IR |-> "ir", Ask |-> "ir", Ask2 |-> "ir",
            HR |-> "hr", Resp |-> "hr", Resp2 |-> "hr",
            Failed |-> "failed",
            A |-> "plain", B |-> "plain", C |-> "plain" ]
AllClasses == DOMAIN KindOf
IsStart(c) == KindOf[c] = "start"
IsStop(c) == KindOf[c] = "stop"
IsIR(c) == KindOf[c] = "ir"
IsHR(c) == KindOf[c] = "hr"
IsFailed(c) == KindOf[c] = "failed"

Checks == {"reachability", "terminal_event", "dead_end"}

\* ------------------------------------------------------------------ derived sets
Names(g) == DOMAIN g.steps
Handlers(g) == {s \in Names(g) : g.steps[s].role = "catch_error"}
Consumed(g) == UNION {g.steps[s].acc : s \in Names(g)}
Produced(g) == UNION {g.steps[s].ret : s \in Names(g)}
Events(g) == Consumed(g) \cup Produced(g)
StartTypes(g) == {c \in Consumed(g) : IsStart(c)}
StopTypes(g) == {c \in Produced(g) : IsStop(c)}

\* ------------------------------------------------------------------ Part 1: declarative
OneStart(g) == Cardinality(StartTypes(g)) = 1
OneStop(g) == Cardinality(StopTypes(g)) = 1
NoStopConsumed(g) == \A c \in Consumed(g) : ~IsStop(c)

BoundaryIn(g, c) == c \in StartTypes(g) \/ IsIR(c) \/ IsHR(c) \/ IsStop(c) \/ IsFailed(c)
OutputEvent(c) == IsStop(c) \/ IsIR(c)
ConsumedAreProduced(g) == \A c \in Consumed(g) \ Produced(g) : BoundaryIn(g, c)
ProducedAreConsumed(g) == \A c \in Produced(g) \ Consumed(g) :
                              OutputEvent(c) \/ (IsHR(c) /\ "terminal_event" \in g.wskip)

HandlersConsistent(g) ==
  /\ Cardinality({h \in Handlers(g) : g.steps[h].wild}) <= 1
  /\ \A h \in Handlers(g) : ~g.steps[h].wild =>
        \A t \in g.steps[h].for :
           /\ t \in Names(g)                                   \* names an existing step
           /\ t \notin Handlers(g)                             \* ... that is not a handler (incl. itself)
           /\ \A h2 \in Handlers(g) \ {h} : ~g.steps[h2].wild => t \notin g.steps[h2].for

\* forward closure: steps fed by an input event or a handler, then along returned->accepted
Feeds(g, s, t) == g.steps[s].ret \cap g.steps[t].acc # {}
InputSeeds(g) == StartTypes(g) \cup {c \in Events(g) : IsHR(c)}
RECURSIVE FwdClose(_, _)
FwdClose(g, R) == LET R2 == R \cup {t \in Names(g) : \E s \in R : Feeds(g, s, t)}
                  IN IF R2 = R THEN R ELSE FwdClose(g, R2)
Reachable(g) == FwdClose(g, Handlers(g) \cup {s \in Names(g) : g.steps[s].acc \cap InputSeeds(g) # {}})

\* backward closure: steps that return an output event, then back along accepted<-returned
RECURSIVE BwdClose(_, _)
BwdClose(g, R) == LET R2 == R \cup {s \in Names(g) : \E t \in R : Feeds(g, s, t)}
                  IN IF R2 = R THEN R ELSE BwdClose(g, R2)
CanReachOutput(g) == BwdClose(g, {s \in Names(g) : \E c \in g.steps[s].ret : OutputEvent(c)})

AllReachable(g) == "reachability" \in g.wskip \/
   \A s \in Names(g) : "reachability" \in g.steps[s].sskip \/ s \in Reachable(g)
NoDeadEnds(g) == "dead_end" \in g.wskip \/
   \A s \in Names(g) : g.steps[s].ret = {} \/ "dead_end" \in g.steps[s].sskip \/ s \in CanReachOutput(g)

WellFormed(g) == /\ OneStart(g) /\ OneStop(g) /\ NoStopConsumed(g)
                 /\ ConsumedAreProduced(g) /\ ProducedAreConsumed(g)
                 /\ HandlersConsistent(g)
                 /\ AllReachable(g) /\ NoDeadEnds(g)

\* first declarative clause that fails (for finding keys / coverage accounting)
WhyNot(g) == IF ~OneStart(g) THEN "one_start" ELSE IF ~OneStop(g) THEN "one_stop"
             ELSE IF ~NoStopConsumed(g) THEN "stop_consumed"
             ELSE IF ~ConsumedAreProduced(g) THEN "consumed_not_produced"
             ELSE IF ~ProducedAreConsumed(g) THEN "produced_not_consumed"
             ELSE IF ~HandlersConsistent(g) THEN "handlers"
             ELSE IF ~AllReachable(g) THEN "unreachable"
             ELSE IF ~NoDeadEnds(g) THEN "dead_end" ELSE "wellformed"

\* "an InputRequiredEvent is produced or a HumanResponseEvent is consumed"
Hitl(g) == (\E c \in Produced(g) : IsIR(c)) \/ (\E c \in Consumed(g) : IsHR(c))

\* ------------------------------------------------------------------ Part 2: as the code runs
CodeConnectivity(g) ==
  LET start == CHOOSE c \in StartTypes(g) : TRUE
      prod == Produced(g) \cup {start}
      cons == Consumed(g)
  IN IF \E s \in Names(g) : \E c \in g.steps[s].acc : IsStop(c) THEN "accept_stop"
     ELSE IF \E c \in cons \ prod : ~(IsIR(c) \/ IsHR(c) \/ IsStop(c) \/ IsFailed(c)) THEN "consumed_unproduced"
     ELSE IF \E c \in prod \ cons : ~(IsIR(c) \/ IsHR(c) \/ IsStop(c)) THEN "produced_unconsumed"
     ELSE "ok"

CodeHandlers(g) ==
  LET H == Handlers(g)
      scoped == {h \in H : ~g.steps[h].wild}
  IN IF Cardinality({h \in H : g.steps[h].wild}) > 1 THEN "handler"
     ELSE IF \E h \in scoped : \E t \in g.steps[h].for : t \notin Names(g) THEN "handler"
     ELSE IF \E h \in scoped : \E t \in g.steps[h].for : t \in H THEN "handler"
     ELSE IF \E h1, h2 \in scoped : h1 # h2 /\ g.steps[h1].for \cap g.steps[h2].for # {} THEN "handler"
     ELSE "ok"

\* validate_graph: nodes are step names and event classes; DFS from seeds over `outgoing`
CodeGraphErrors(g) ==
  LET start == CHOOSE c \in StartTypes(g) : TRUE
      evs == Events(g)
      fwdSteps == FwdClose(g, Handlers(g) \cup
                     {s \in Names(g) : \E c \in g.steps[s].acc : c = start \/ IsHR(c)})
      outs == {c \in evs : IsStop(c) \/ IsIR(c)}
      revSteps == BwdClose(g, {s \in Names(g) : g.steps[s].ret \cap outs # {}})
      e1 == "reachability" \notin g.wskip /\
            \E s \in Names(g) : "reachability" \notin g.steps[s].sskip /\ s \notin fwdSteps
      e2 == "terminal_event" \notin g.wskip /\
            \E c \in evs : (\A s \in Names(g) : c \notin g.steps[s].acc) /\ ~(IsStop(c) \/ IsIR(c))
      e3 == "dead_end" \notin g.wskip /\
            \E s \in Names(g) : g.steps[s].ret # {} /\ "dead_end" \notin g.steps[s].sskip /\ s \notin revSteps
  IN {x \in Checks : (x = "reachability" /\ e1) \/ (x = "terminal_event" /\ e2) \/ (x = "dead_end" /\ e3)}

CodeOutcome(g) ==
  IF Cardinality(StartTypes(g)) = 0 THEN "no_start"
  ELSE IF Cardinality(StartTypes(g)) > 1 THEN "multi_start"
  ELSE IF Cardinality(StopTypes(g)) = 0 THEN "no_stop"
  ELSE IF Cardinality(StopTypes(g)) > 1 THEN "multi_stop"
  ELSE IF CodeConnectivity(g) # "ok" THEN CodeConnectivity(g)
  ELSE IF CodeHandlers(g) # "ok" THEN "handler"
  ELSE IF CodeGraphErrors(g) # {} THEN "graph"
  ELSE "ok"

CodeHitl(g) == IF Dev_HitlExactClass
               THEN "IR" \in Produced(g) \/ "HR" \in Consumed(g)
               ELSE Hitl(g)

\* the exact shape of the known defect: HITL only through subclasses
KF_HitlSubclassOnly(g) == Hitl(g) /\ "IR" \notin Produced(g) /\ "HR" \notin Consumed(g)

\* ------------------------------------------------------------------ what TLC checks per graph
\* ------------------------------------------------------------------ representation/build.py
(* get_workflow_representation(workflow): the graph drawn for a workflow.  Nodes: one per step, one per event class   *)
(* that some step accepts or returns (an accepted base StopEvent is left out unless it is the workflow's stop event),  *)
(* and "external_step" as soon as a step returns an InputRequiredEvent class.  Edges, one per occurrence in a step's    *)
(* signature: step -> returned class, accepted class -> step, returned InputRequired class -> external_step, and        *)
(* external_step -> accepted HumanResponse class (only when the external node exists).  Compared for graphs with at     *)
(* most one stop class (the code takes "the first one" in definition order otherwise).                                  *)
ReprExternal(g) == \E c \in Produced(g) : IsIR(c)
ReprEventNodes(g) == (Consumed(g) \ (IF StopTypes(g) = {"Stop"} THEN {} ELSE {"Stop"})) \cup Produced(g)
ReprNodeIds(g) == Names(g) \cup ReprEventNodes(g) \cup (IF ReprExternal(g) THEN {"external_step"} ELSE {})
ReprEdgeSet(g) ==
  LET retE == UNION {{<<s, r, 1>> : r \in g.steps[s].ret} : s \in Names(g)}
      accE == UNION {{<<e, s, 1>> : e \in g.steps[s].acc} : s \in Names(g)}
      irE == {<<r, "external_step", Cardinality({s \in Names(g) : r \in g.steps[s].ret})>> : r \in {c \in Produced(g) : IsIR(c)}}
      hrE == IF ReprExternal(g)
             THEN {<<"external_step", e, Cardinality({s \in Names(g) : e \in g.steps[s].acc})>> : e \in {c \in Consumed(g) : IsHR(c)}}
             ELSE {}
  IN retE \cup accE \cup irE \cup hrE
\* a drawn edge joins two drawn nodes -- for every workflow validate() accepts (an unvalidated class that accepts the
\* base StopEvent next to its own stop class gets an edge from a node that is not drawn: sanity configuration)
ReprClosed(g) == \A e \in ReprEdgeSet(g) : e[1] \in ReprNodeIds(g) /\ e[2] \in ReprNodeIds(g)
Thm_ReprClosed(g) == (CodeOutcome(g) = "ok") => ReprClosed(g)
\* every step that takes part in human-in-the-loop is drawn next to the external node
Thm_ReprExternal(g) == (CodeOutcome(g) = "ok" /\ ReprExternal(g)) =>
                          \A c \in Consumed(g) : IsHR(c) => \E e \in ReprEdgeSet(g) : e[1] = "external_step" /\ e[2] = c

Thm_AcceptIffWellFormed(g) == (CodeOutcome(g) = "ok") <=> WellFormed(g)
Thm_HitlStrict(g) == CodeOutcome(g) = "ok" => CodeHitl(g) = Hitl(g)
Thm_HitlFaithful(g) == CodeOutcome(g) = "ok" => (CodeHitl(g) = Hitl(g) \/ (KF_HitlSubclassOnly(g) /\ ~CodeHitl(g)))
====
