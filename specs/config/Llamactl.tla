---------------------------- MODULE Llamactl ----------------------------
(* llamactl's profile / environment configuration: ConfigManager (SQLite: tables environments,  *)
(* profiles PRIMARY KEY (name, api_url), settings {current_environment_api_url, current_profile})*)
(* with EnvService and AuthService on top (packages/llamactl/.../cli/config).                    *)
(*                                                                                              *)
(* The active profile is stored BY NAME ONLY (settings.current_profile); get_current_profile()   *)
(* resolves it against the current environment: Active == (curName, curEnv) if such a profile    *)
(* exists, else none.  One action per user-level operation, modelling what the code does:        *)
(*   EnvAdd(e)      EnvService.create_or_update_environment: upsert row, make it current,        *)
(*                  clear current_profile                                                        *)
(*   EnvSwitch(e)   EnvService.switch_environment: ValueError if unknown; else current, clear    *)
(*   EnvDelete(e)   EnvService/ConfigManager.delete_environment: False if unknown; else delete   *)
(*                  its profiles and its row; if it was current, current := built-in default.    *)
(*                  current_profile is NOT touched (Dev_DeleteEnvKeepsProfile)                   *)
(*   CreateToken(n) current_auth_service().create_profile_from_token: create (n, curEnv)         *)
(*                  (ValueError if it exists) and make n current                                 *)
(*   Oidc(n)        current_auth_service().create_or_update_profile_from_oidc: the profile of    *)
(*                  curEnv with that device user is updated, else (n, curEnv) is created; it     *)
(*                  becomes current                                                              *)
(*   Select(n)      `auth switch`: get_profile(n) in curEnv, if found set_current_profile(n)     *)
(*   SelectAny      current_auth_service().select_any_profile: first profile of curEnv by name   *)
(*   Logout(n)      current_auth_service().delete_profile(n): delete (n, curEnv); clears         *)
(*                  current_profile if it names n                                                *)
(*   Update(n)      set_project / update_profile of (n, curEnv) with unchanged identity          *)
(*   CmCreate(n,e)  ConfigManager.create_profile(n, e, ..): any environment url, selects nothing *)
(*   CmDelete(n,e)  ConfigManager.delete_profile(n, e): any environment url; clears              *)
(*                  current_profile if it names n -- whatever the environment                    *)
(* Not modelled (not user-level operations): the raw settings setters, renaming / moving a       *)
(* profile through update_profile, AuthService objects bound to a non-current environment.       *)
(*                                                                                              *)
(* picked: history -- the profiles that were selected or created while their environment was the  *)
(* current one (a deleted profile leaves it: a later profile of the same name is a new profile). *)
(**************************************************************************)
EXTENDS Naturals, Sequences, FiniteSets, TLC

CONSTANTS Envs,          \* environment ids, DefaultEnv among them
          DefaultEnv,    \* the built-in default (seeded by migration 0001, deletable like any other)
          NameSeq,       \* profile names in SQL `ORDER BY name` order
          ApiLevel,      \* BOOLEAN: include the ConfigManager-level operations with an explicit environment
          Dev_DeleteEnvKeepsProfile   \* TRUE = code as it is; FALSE = delete_environment clears current_profile
                                      \* when it resets the current environment

Names == {NameSeq[i] : i \in 1..Len(NameSeq)}
None == "-"

VARIABLES envs,       \* rows of table environments
          profiles,   \* SUBSET (Names \X Envs)
          oidc,       \* the profiles that carry a device identity (user id = their name)
          curEnv,     \* settings.current_environment_api_url
          curName,    \* settings.current_profile (a name or None)
          picked,     \* history, see above
          kept        \* history: current_profile survived an environment reset by delete_environment

vars == <<envs, profiles, oidc, curEnv, curName, picked, kept>>

Init ==
  /\ envs = {DefaultEnv} /\ profiles = {} /\ oidc = {}
  /\ curEnv = DefaultEnv /\ curName = None /\ picked = {} /\ kept = FALSE

NoProfile == <<None, None>>
Active == IF curName # None /\ <<curName, curEnv>> \in profiles THEN <<curName, curEnv>> ELSE NoProfile
InEnv(e) == {p \in profiles : p[2] = e}
First(S) == LET i == CHOOSE i \in 1..Len(NameSeq) : NameSeq[i] \in S /\ \A j \in 1..(i - 1) : NameSeq[j] \notin S
            IN NameSeq[i]

\* ---------------------------------------------------------------- return values (functions of the pre-state)
Ret(op) ==
  CASE op[1] = "env_add"      -> "ok"
    [] op[1] = "env_switch"   -> IF op[2] \in envs THEN "ok" ELSE "ValueError"
    [] op[1] = "env_delete"   -> IF op[2] \in envs THEN "true" ELSE "false"
    [] op[1] = "create_token" -> IF <<op[2], curEnv>> \in profiles THEN "ValueError" ELSE "ok"
    [] op[1] = "oidc"         -> IF <<op[2], curEnv>> \in oidc THEN "ok"
                                 ELSE IF <<op[2], curEnv>> \in profiles THEN "ValueError" ELSE "ok"
    [] op[1] = "select"       -> IF <<op[2], curEnv>> \in profiles THEN "ok" ELSE "none"
    [] op[1] = "select_any"   -> "ok"
    [] op[1] = "logout"       -> IF <<op[2], curEnv>> \in profiles THEN "true" ELSE "false"
    [] op[1] = "update"       -> "ok"
    [] op[1] = "cm_create"    -> IF <<op[2], op[3]>> \in profiles THEN "ValueError" ELSE "ok"
    [] op[1] = "cm_delete"    -> IF <<op[2], op[3]>> \in profiles THEN "true" ELSE "false"

\* ---------------------------------------------------------------- environments
EnvAdd(e) ==
  /\ envs' = envs \cup {e}
  /\ curEnv' = e /\ curName' = None /\ kept' = FALSE
  /\ UNCHANGED <<profiles, oidc, picked>>

EnvSwitch(e) ==
  IF e \in envs
  THEN /\ curEnv' = e /\ curName' = None /\ kept' = FALSE
       /\ UNCHANGED <<envs, profiles, oidc, picked>>
  ELSE UNCHANGED vars

EnvDelete(e) ==
  IF e \notin envs THEN UNCHANGED vars
  ELSE /\ envs' = envs \ {e}
       /\ profiles' = profiles \ InEnv(e)
       /\ oidc' = oidc \ InEnv(e)
       /\ picked' = picked \ InEnv(e)
       /\ IF curEnv = e
          THEN /\ curEnv' = DefaultEnv
               /\ IF Dev_DeleteEnvKeepsProfile
                  THEN /\ curName' = curName
                       /\ kept' = (kept \/ (e # DefaultEnv /\ curName # None))
                  ELSE curName' = None /\ kept' = FALSE
          ELSE UNCHANGED <<curEnv, curName, kept>>

\* ---------------------------------------------------------------- profiles, through the current environment's AuthService
MakeCurrent(n) ==
  /\ curName' = n /\ kept' = FALSE
  /\ picked' = picked \cup {<<n, curEnv>>}

CreateToken(n) ==
  IF <<n, curEnv>> \in profiles THEN UNCHANGED vars
  ELSE /\ profiles' = profiles \cup {<<n, curEnv>>}
       /\ MakeCurrent(n)
       /\ UNCHANGED <<envs, oidc, curEnv>>

Oidc(n) ==
  IF <<n, curEnv>> \in oidc
  THEN MakeCurrent(n) /\ UNCHANGED <<envs, profiles, oidc, curEnv>>
  ELSE IF <<n, curEnv>> \in profiles THEN UNCHANGED vars
  ELSE /\ profiles' = profiles \cup {<<n, curEnv>>}
       /\ oidc' = oidc \cup {<<n, curEnv>>}
       /\ MakeCurrent(n)
       /\ UNCHANGED <<envs, curEnv>>

Select(n) ==
  IF <<n, curEnv>> \in profiles
  THEN MakeCurrent(n) /\ UNCHANGED <<envs, profiles, oidc, curEnv>>
  ELSE UNCHANGED vars

SelectAny ==
  IF InEnv(curEnv) = {} THEN UNCHANGED vars
  ELSE MakeCurrent(First({p[1] : p \in InEnv(curEnv)})) /\ UNCHANGED <<envs, profiles, oidc, curEnv>>

Remove(n, e) ==
  /\ profiles' = profiles \ {<<n, e>>}
  /\ oidc' = oidc \ {<<n, e>>}
  /\ picked' = picked \ {<<n, e>>}
  /\ IF curName = n THEN curName' = None /\ kept' = FALSE ELSE UNCHANGED <<curName, kept>>
  /\ UNCHANGED <<envs, curEnv>>

Logout(n) == n \in Names /\ Remove(n, curEnv)

Update(n) == UNCHANGED vars

\* ---------------------------------------------------------------- profiles, through ConfigManager with an explicit environment
CmCreate(n, e) ==
  IF <<n, e>> \in profiles THEN UNCHANGED vars
  ELSE /\ profiles' = profiles \cup {<<n, e>>}
       /\ picked' = IF e = curEnv THEN picked \cup {<<n, e>>} ELSE picked   \* created while e was current?
       /\ UNCHANGED <<envs, oidc, curEnv, curName, kept>>

CmDelete(n, e) == n \in Names /\ Remove(n, e)

\* ---------------------------------------------------------------- dispatch (used by Next and by the trace spec)
Do(op) ==
  CASE op[1] = "env_add"      -> EnvAdd(op[2])
    [] op[1] = "env_switch"   -> EnvSwitch(op[2])
    [] op[1] = "env_delete"   -> EnvDelete(op[2])
    [] op[1] = "create_token" -> CreateToken(op[2])
    [] op[1] = "oidc"         -> Oidc(op[2])
    [] op[1] = "select"       -> Select(op[2])
    [] op[1] = "select_any"   -> SelectAny
    [] op[1] = "logout"       -> Logout(op[2])
    [] op[1] = "update"       -> Update(op[2])
    [] op[1] = "cm_create"    -> CmCreate(op[2], op[3])
    [] op[1] = "cm_delete"    -> CmDelete(op[2], op[3])

ApiEnvs == IF ApiLevel THEN Envs ELSE {}

Next ==
  \/ \E e \in Envs : EnvAdd(e) \/ EnvSwitch(e) \/ EnvDelete(e)
  \/ \E n \in Names : CreateToken(n) \/ Oidc(n) \/ Select(n) \/ Logout(n) \/ Update(n)
  \/ SelectAny
  \/ \E n \in Names, e \in ApiEnvs : CmCreate(n, e) \/ CmDelete(n, e)

Spec == Init /\ [][Next]_vars

------------------------------------------------------------------------------
TypeOK ==
  /\ envs \subseteq Envs /\ profiles \subseteq (Names \X Envs) /\ oidc \subseteq profiles
  /\ curEnv \in Envs /\ curName \in Names \cup {None} /\ picked \subseteq profiles /\ kept \in BOOLEAN

\* C37: the current environment is known or the built-in default; the active profile is none or a
\* profile of the current environment that was selected or created while that environment was current
Inv_C37 ==
  /\ curEnv \in envs \cup {DefaultEnv}
  /\ Active # NoProfile => (Active \in profiles /\ Active[2] = curEnv /\ Active \in picked)

\* Known failure shape of today's code: the name survived delete_environment's reset to the default
\* environment and now resolves against the default environment's profiles.
KF_DeleteEnvKeptName == kept /\ curEnv = DefaultEnv
Inv_C37_Faithful == KF_DeleteEnvKeptName \/ Inv_C37
\* the name-only pointer never dangles into another environment except through that path
Inv_KeptOnlyByDelete == kept => Dev_DeleteEnvKeepsProfile
=============================================================================
