\* code as it is, only the operations the CLI composes (AuthService of the current environment): strict C37
CONSTANTS
  Envs = {"e0", "e1", "e2"}
  DefaultEnv = "e0"
  NameSeq <- Names2
  ApiLevel = FALSE
  Dev_DeleteEnvKeepsProfile = TRUE
SPECIFICATION Spec
INVARIANT TypeOK
INVARIANT Inv_C37
