\* thorough instance (default + 3 environments): intended design (delete_environment clears current_profile when it resets the environment): strict C37
CONSTANTS
  Envs = {"e0", "e1", "e2", "e3"}
  DefaultEnv = "e0"
  NameSeq <- Names2
  ApiLevel = TRUE
  Dev_DeleteEnvKeepsProfile = FALSE
SPECIFICATION Spec
INVARIANT TypeOK
INVARIANT Inv_C37
INVARIANT Inv_KeptOnlyByDelete
