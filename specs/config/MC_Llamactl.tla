---- MODULE MC_Llamactl ----
EXTENDS Llamactl
Names2 == <<"n1", "n2">>
====
