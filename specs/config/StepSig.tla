---- MODULE StepSig ----
(* What the @step decorator makes of a function signature (workflows/utils.py: inspect_signature,          *)
(* validate_step_signature; workflows/decorators.py: step), as a function table.                           *)
(*                                                                                                          *)
(* A signature is [self : BOOLEAN, params : Seq(kind), ret : kind].  Parameter kinds:                       *)
(*   ctx        annotated `Context`               ctx_typed  `Context[SomeState]`                           *)
(*   ev         one Event class                    ev_opt     Optional[Ev] / Ev | None                       *)
(*   ev_union   EvA | EvB                          ev_mixed   Ev | int   (a union that is not all events)    *)
(*   plain      int                                bare       no annotation                                  *)
(*   res        Annotated[int, Resource(factory)]  ann_meta   Annotated[Ev, "note"]  (no resource descriptor) *)
(* Return kinds: missing (no annotation), none (-> None), ev, ev_opt, ev_union, plain (-> int).             *)
(*                                                                                                          *)
(* The rules: `self`/`cls` are skipped; a Context-annotated parameter is THE context parameter (the last    *)
(* one wins); an Annotated parameter is a resource when its first metadata item is a resource descriptor    *)
(* and is otherwise ignored -- also when the annotated type is an Event; a parameter counts as the event     *)
(* parameter iff every member of its (None-stripped) annotation is an Event class; everything else is        *)
(* ignored.  A step needs exactly one event parameter and an annotated return type (None counts).           *)
EXTENDS Naturals, Sequences, FiniteSets, TLC

PKinds == {"ctx", "ctx_typed", "ev", "ev_opt", "ev_union", "ev_mixed", "plain", "bare", "res", "ann_meta"}
RKinds == {"missing", "none", "ev", "ev_opt", "ev_union", "plain"}

IsEventParam(k) == k \in {"ev", "ev_opt", "ev_union"}
IsCtxParam(k) == k \in {"ctx", "ctx_typed"}
Idx(sig, P(_)) == {i \in 1..Len(sig.params) : P(sig.params[i])}
NEvents(sig) == Cardinality(Idx(sig, IsEventParam))
Outcome(sig) == IF NEvents(sig) = 0 THEN "no_event"
                ELSE IF NEvents(sig) > 1 THEN "many_events"
                ELSE IF sig.ret = "missing" THEN "no_return"
                ELSE "ok"
\* 0 = none; otherwise the position of the context parameter
CtxPos(sig) == LET S == Idx(sig, IsCtxParam) IN IF S = {} THEN 0 ELSE CHOOSE i \in S : \A j \in S : j <= i
\* the state type is remembered from ANY Context[State] parameter and never cleared: with two context parameters
\* (typed, then untyped) the untyped one is the context parameter and the typed one's state type stays (as coded)
CtxTyped(sig) == \E i \in 1..Len(sig.params) : sig.params[i] = "ctx_typed"
NResources(sig) == Cardinality(Idx(sig, LAMBDA k : k = "res"))
EventPos(sig) == CHOOSE i \in Idx(sig, IsEventParam) : TRUE
Accepts(sig) == CASE sig.params[EventPos(sig)] = "ev_union" -> {"A", "B"} [] OTHER -> {"A"}
Returns(sig) == CASE sig.ret = "none" -> {"NoneType"} [] sig.ret = "ev" -> {"A"} [] sig.ret = "ev_opt" -> {"A"}
                  [] sig.ret = "ev_union" -> {"A", "B"} [] sig.ret = "plain" -> {"int"} [] OTHER -> {}

\* what a reader of the rules can rely on
Thm_OkIffOneEventAndReturn(sig) == (Outcome(sig) = "ok") <=> (NEvents(sig) = 1 /\ sig.ret # "missing")
\* parameters that are not the event parameter never change the verdict
Thm_OthersIrrelevant(sig) ==
  LET core == [sig EXCEPT !.params = SelectSeq(sig.params, IsEventParam)] IN Outcome(core) = Outcome(sig)
====
