CONSTANTS
  MaxParams = 3
SPECIFICATION Spec
INVARIANT Inv_Thms
