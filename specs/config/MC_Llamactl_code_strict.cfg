\* code as it is, all operations, strict C37: expected to be refuted (witness of the known finding)
CONSTANTS
  Envs = {"e0", "e1"}
  DefaultEnv = "e0"
  NameSeq <- Names2
  ApiLevel = TRUE
  Dev_DeleteEnvKeepsProfile = TRUE
SPECIFICATION Spec
INVARIANT Inv_C37
