CONSTANTS
  MaxParams = 2
SPECIFICATION Spec
INVARIANT Inv_Thms
