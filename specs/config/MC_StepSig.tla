---- MODULE MC_StepSig ----
(* Enumeration of signatures: every initial state is one signature, printed for the harness. *)
EXTENDS StepSig
CONSTANTS MaxParams
VARIABLES sig, done
PSeqs == UNION {[1..n -> PKinds] : n \in 0..MaxParams}
Init == /\ \E s \in BOOLEAN, p \in PSeqs, r \in RKinds : sig = [self |-> s, params |-> p, ret |-> r]
        /\ done = FALSE
Emit == /\ ~done /\ PrintT(<<"SIG", sig.self, sig.params, sig.ret, Outcome(sig), CtxPos(sig), NResources(sig), CtxTyped(sig),
                             IF NEvents(sig) = 1 THEN Accepts(sig) ELSE {}, Returns(sig)>>)
        /\ done' = TRUE /\ UNCHANGED sig
Next == Emit
Spec == Init /\ [][Next]_<<sig, done>>
Inv_Thms == done \/ (Thm_OkIffOneEventAndReturn(sig) /\ Thm_OthersIrrelevant(sig))
====
