CONSTANTS
  Dev_HitlExactClass = TRUE
  ClassesU = {"Start0", "Stop0", "A", "Ask", "Resp", "HR"}
  MaxAcc = 2
  MaxRet = 2
  MaxReg = 2
  SSkips = {{}}
  WSkips = {{}}
  MaxH = 0
  HRets = {{}}
  HFors = {{"*"}}
  Ordered = FALSE
  PruneNoStart = FALSE
SPECIFICATION Spec
INVARIANT Inv_Faithful
INVARIANT Inv_Repr
