CONSTANTS
  Envs <- TraceEnvs
  DefaultEnv <- TraceDefault
  NameSeq <- TraceNames
  ApiLevel = TRUE
  Dev_DeleteEnvKeepsProfile <- TraceDev
INIT TraceInit
NEXT TraceNext
