CONSTANTS
  Dev_HitlExactClass = TRUE
  ClassesU = {"Start0", "Stop0", "A", "Resp"}
  MaxAcc = 1
  MaxRet = 1
  MaxReg = 3
  SSkips = {{}, {"reachability"}, {"dead_end"}, {"reachability", "dead_end"}}
  WSkips = {{}, {"reachability", "terminal_event", "dead_end"}}
  MaxH = 0
  HRets = {{}}
  HFors = {{"*"}}
  Ordered = FALSE
  PruneNoStart = TRUE
SPECIFICATION Spec
INVARIANT Inv_Faithful
INVARIANT Inv_Repr
