\* small instance of the code as it is whose state graph is dumped and replayed edge by edge on the real code
CONSTANTS
  Envs = {"e0", "e1"}
  DefaultEnv = "e0"
  NameSeq <- Names2
  ApiLevel = TRUE
  Dev_DeleteEnvKeepsProfile = TRUE
SPECIFICATION Spec
INVARIANT TypeOK
INVARIANT Inv_C37_Faithful
INVARIANT Inv_KeptOnlyByDelete
