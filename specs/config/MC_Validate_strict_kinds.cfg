CONSTANTS
  Dev_HitlExactClass = FALSE
  ClassesU = {"Start", "Start0", "Stop", "Stop0", "IR", "Ask", "HR", "Resp", "Failed"}
  MaxAcc = 1
  MaxRet = 1
  MaxReg = 2
  SSkips = {{}}
  WSkips = {{}}
  MaxH = 0
  HRets = {{}}
  HFors = {{"*"}}
  Ordered = FALSE
  PruneNoStart = TRUE
SPECIFICATION Spec
INVARIANT Inv_Strict
INVARIANT Inv_Repr
