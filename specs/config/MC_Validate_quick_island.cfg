CONSTANTS
  Dev_HitlExactClass = TRUE
  ClassesU = {"Start0", "Stop0", "A", "B"}
  MaxAcc = 1
  MaxRet = 1
  MaxReg = 3
  SSkips = {{}, {"reachability"}}
  WSkips = {{}}
  MaxH = 0
  HRets = {{}}
  HFors = {{"*"}}
  Ordered = FALSE
  PruneNoStart = TRUE
SPECIFICATION Spec
INVARIANT Inv_Faithful
INVARIANT Inv_Repr
