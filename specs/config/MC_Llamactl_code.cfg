\* code as it is, all operations: C37 outside the known failure shape (state graph dumped for replay)
CONSTANTS
  Envs = {"e0", "e1", "e2"}
  DefaultEnv = "e0"
  NameSeq <- Names2
  ApiLevel = TRUE
  Dev_DeleteEnvKeepsProfile = TRUE
SPECIFICATION Spec
INVARIANT TypeOK
INVARIANT Inv_C37_Faithful
INVARIANT Inv_KeptOnlyByDelete
