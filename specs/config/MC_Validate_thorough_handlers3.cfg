CONSTANTS
  Dev_HitlExactClass = TRUE
  ClassesU = {"Start0", "Stop0", "A"}
  MaxAcc = 1
  MaxRet = 1
  MaxReg = 3
  SSkips = {{}}
  WSkips = {{}}
  MaxH = 1
  HRets = {{}, {"Stop0"}, {"A"}}
  HFors = {{"*"}, {}, {"s1"}, {"s2"}, {"s1", "s2"}, {"h1"}, {"h2"}, {"ghost"}, {"s1", "ghost"}, {"s3"}}
  Ordered = TRUE
  PruneNoStart = TRUE
SPECIFICATION Spec
INVARIANT Inv_Faithful
INVARIANT Inv_Repr
