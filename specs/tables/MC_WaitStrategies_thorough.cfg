CONSTANTS
  Dev_PowOverflow = TRUE
  Thorough = TRUE
SPECIFICATION Spec
INVARIANT Inv_Laws
INVARIANT Inv_TotalFaithful
INVARIANT Inv_Constructible
