CONSTANTS
  MaxFeatures = 1
  PairPaths <- PairPathsCore
  Plan <- PlanQuick
  Dev_StopDropsDynamic = TRUE
  Dev_ExcRebuiltFromStr = TRUE
SPECIFICATION Spec
INVARIANT Inv_WellFormed
INVARIANT Inv_IdentityKF
INVARIANT Inv_TagResolves
