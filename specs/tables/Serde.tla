------------------------------- MODULE Serde -------------------------------
(* Events and ticks across serialisation (workflows/events.py: DictLikeModel / StopEvent model serialisers,       *)
(* SerializableEvent / SerializableException; workflows/context/serializers.py: JsonSerializer;                    *)
(* workflows/runtime/types/ticks.py: WorkflowTickAdapter; llama_agents/client/protocol/serializable_events.py:     *)
(* EventEnvelope / EventEnvelopeWithMetadata).                                                                     *)
(*                                                                                                                 *)
(* "Function table" flavour: there is no state machine.  A state of this module is ONE test vector, the SHAPE of    *)
(* an event and of the path it is sent through:                                                                    *)
(*   cls    class kind            typed  set of typed field kinds        dyn  set of dynamic field kinds            *)
(*   res    result kind | "na"    exc    exception kind | "na"           path serialisation path                    *)
(*   trips  number of consecutive round trips                            rep  which representative values are used  *)
(* TLC enumerates the well-formed vectors; the harness concretises each one (harness/drivers/serde.py) and runs the *)
(* real code.  The oracle is the identity, so nothing about pydantic's dumping rules is modelled: the wire format   *)
(* is abstracted to WHICH components it carries (Enc) and the reader to how it rebuilds them (Dec).                 *)
(*                                                                                                                 *)
(* Two behaviours of today's code that break the statement are modelled under deviation constants:                  *)
(*   Dev_StopDropsDynamic   StopEvent.custom_model_dump shadows DictLikeModel.custom_model_dump, so `_data` is not  *)
(*                          written for StopEvent and its subclasses (TRUE = as the code is today)                  *)
(*   Dev_ExcRebuiltFromStr  _deserialize_exception rebuilds the exception as cls(str(exc)): the message survives    *)
(*                          only when str(cls(m)) = m; when the constructor does not accept a single message        *)
(*                          argument the reader falls back to Exception(m) (type lost)                              *)
(*   Dev_CtorFailureRaises  (with Dev_ExcRebuiltFromStr) that constructor failure is not caught: reading the event  *)
(*                          or tick back raises TypeError.  FALSE since /repo 'fix: reading back an exception ...'  *)
(***************************************************************************************************************)
EXTENDS Naturals, FiniteSets, Sequences, TLC

CONSTANTS MaxFeatures,            \* max number of varied payload features in one vector (1 = depth-1 shapes)
          PairPaths,              \* paths on which shapes with two varied features are run (feature interactions live
                                  \* in the event's own dump/validate, which every path shares)
          Plan,                   \* set of <<trips, rep>>: number of consecutive round trips (1 or 2) and which
                                  \* representative values are used
          Dev_StopDropsDynamic,
          Dev_ExcRebuiltFromStr,
          Dev_CtorFailureRaises

(* ---------------------------------------------------------------- kinds *)
GeneratedBases == {"event", "start", "stop", "input_required", "human_response"}    \* base class itself, or a generated subclass with typed fields
FixedClasses   == {"wf_failed", "step_failed", "timed_out", "cancelled", "idle_released", "step_state", "unhandled", "idle"}
StopLike       == {"stop", "wf_failed", "timed_out", "cancelled", "idle_released"}    \* StopEvent and its subclasses
FailureClasses == {"wf_failed", "step_failed"}                                        \* events that carry an exception
ClassKinds     == GeneratedBases \cup FixedClasses \cup {"none"}                      \* "none": a tick without an event

TypedKinds == {"int", "str", "float_int", "float_frac", "bool", "opt_none", "opt_some", "union", "list_int", "list_str",
               "list_list", "dict_str_int", "dict_nested", "any_json", "model", "model_nested", "opt_model", "list_model",
               "dict_model", "list_nested_model", "event", "event_ser", "enum", "str_enum", "datetime_aware",
               "datetime_naive", "tuple_typed", "set_typed",
               "factory_unset"}      \* left unset by the caller, filled by a default_factory that never returns the same value twice
\* values of untyped slots (dynamic fields, StopEvent.result): JSON values are demanded back unchanged ...
JsonKinds  == {"int", "str", "float_int", "float_frac", "bool", "none", "list", "dict", "nested", "tagged_lookalike"}
\* ... values that are not JSON values cannot be restored by an untyped slot: recorded, never demanded
LossyKinds == {"model", "event", "enum", "datetime", "tuple"}
UntypedKinds == JsonKinds \cup LossyKinds

\* exception kinds, split by what cls(str(exc)) does
FixpointExc == {"builtin_msg", "builtin_empty", "builtin_uni", "builtin_args2", "oserror", "custom_msg", "custom_empty", "chained"}
StrWrapExc  == {"keyerror", "custom_str"}                              \* str(cls(m)) # m
CtorExc     == {"custom_ctor2", "stdlib_ctor", "pydantic_validation"}  \* cls(m) raises (TypeError, ValueError, AttributeError, ...)
FallbackExc == {"unresolvable_local", "unresolvable_nested"}           \* class cannot be re-imported: documented fallback to Exception(m)
ExcKinds    == FixpointExc \cup StrWrapExc \cup CtorExc \cup FallbackExc

\* env_meta_reg_base: load_event with a registry that holds the event's ANCESTORS but not its class (a typed client that
\* registered the base events only): the class is then found by its qualified name, never replaced by an ancestor
EventPaths     == {"json", "json_container", "env_meta_qn", "env_meta_reg", "env_meta_reg_base", "env_client", "env_client_str"}
TickEventPaths == {"tick_add", "tick_add_retry", "tick_publish", "tick_step_result", "tick_step_trigger", "tick_step_failed",
                   "tick_step_collect", "tick_step_waiter"}
TickBarePaths  == {"tick_cancel", "tick_idle_release", "tick_timeout", "tick_waiter_timeout", "tick_idle_check"}
ExcPaths       == {"tick_add_retry", "tick_step_failed"}               \* the tick itself carries an exception
Paths          == EventPaths \cup TickEventPaths \cup TickBarePaths

VARIABLES cls, typed, dyn, res, exc, path, trips, rep
vars == <<cls, typed, dyn, res, exc, path, trips, rep>>

(* ---------------------------------------------------------------- the grid *)
Features(t, d, r, x) == Cardinality(t) + Cardinality(d) + (IF r \in {"na", "none"} THEN 0 ELSE 1)
                          + (IF x \in {"na", "builtin_msg"} THEN 0 ELSE 1)

WellFormed(c, t, d, r, x, p) ==
  /\ (c = "none") <=> (p \in TickBarePaths)
  /\ c = "none" => (t = {} /\ d = {} /\ r = "na" /\ x = "na")
  /\ t # {} => c \in GeneratedBases
  /\ c # "none" => ((c \in StopLike) <=> (r # "na"))
  /\ (c \in FailureClasses \/ p \in ExcPaths) <=> (x # "na")
  /\ Features(t, d, r, x) <= MaxFeatures
  /\ Features(t, d, r, x) >= 2 => p \in PairPaths

SmallSubsets(S) == {{}} \cup {{a} : a \in S} \cup (IF MaxFeatures >= 2 THEN {{a, b} : a, b \in S} ELSE {})

\* constructive enumeration (each variable drawn from the set its predecessors allow); Inv_WellFormed re-checks it
Init ==
  /\ cls \in ClassKinds
  /\ path \in (IF cls = "none" THEN TickBarePaths ELSE EventPaths \cup TickEventPaths)
  /\ typed \in (IF cls \in GeneratedBases THEN SmallSubsets(TypedKinds) ELSE {{}})
  /\ dyn \in (IF cls = "none" THEN {{}}
              ELSE {d \in SmallSubsets(UntypedKinds) : Features(typed, d, "na", "na") <= MaxFeatures})
  /\ res \in (IF cls \in StopLike THEN {r \in UntypedKinds : Features(typed, dyn, r, "na") <= MaxFeatures} ELSE {"na"})
  /\ exc \in (IF cls \in FailureClasses \/ path \in ExcPaths
              THEN {x \in ExcKinds : Features(typed, dyn, res, x) <= MaxFeatures} ELSE {"na"})
  /\ Features(typed, dyn, res, exc) >= 2 => path \in PairPaths
  /\ \E p \in Plan : trips = p[1] /\ rep = p[2]
Next == UNCHANGED vars       \* one state = one vector
Spec == Init /\ [][Next]_vars

(* ---------------------------------------------------------------- abstract wire format and reader *)
\* how the class is named on the wire and found again
Tag == CASE path \in {"env_client", "env_client_str"} -> "short_name"             \* EventEnvelope: type only, needs a registry
         [] path \in {"env_meta_reg", "env_meta_reg_base"} -> "short_name_then_qualified"
         [] OTHER -> "qualified_name"
\* every grid class is importable and (on registry paths) registered, so the tag resolves to the class itself
ResolvedClass == cls

\* what the writer puts on the wire
EncDyn == IF cls \in StopLike /\ Dev_StopDropsDynamic THEN {} ELSE dyn
Enc == [class |-> cls, typed |-> typed, dyn |-> EncDyn, res |-> res, exc |-> exc]

\* what the reader rebuilds; "raise" = the reader raises instead of returning
DecRaises == exc \in CtorExc /\ Dev_ExcRebuiltFromStr /\ Dev_CtorFailureRaises
DecExcType == IF exc \in FallbackExc \/ (exc \in CtorExc /\ Dev_ExcRebuiltFromStr) THEN "builtins.Exception" ELSE exc
DecExcMsg  == IF exc \in StrWrapExc /\ Dev_ExcRebuiltFromStr THEN "wrapped" ELSE "same"
Dec == [class |-> ResolvedClass, typed |-> Enc.typed, dyn |-> Enc.dyn, res |-> Enc.res,
        exc_type |-> DecExcType, exc_msg |-> DecExcMsg]

(* ---------------------------------------------------------------- the statement, on the abstract level *)
Family == IF cls \in StopLike THEN "stop" ELSE "plain"
\* clauses predicted to fail for this vector (the names are the observer's clause names)
Pred ==
  IF DecRaises THEN {"raised:deserialize:TypeError:" \o exc}
  ELSE (IF Dec.class # cls THEN {"class_changed:" \o cls} ELSE {})
       \cup (IF Dec.typed # typed THEN {"typed_field_changed"} ELSE {})
       \cup (IF Dec.dyn # dyn THEN {"dynamic_field_dropped:" \o Family} ELSE {})
       \cup (IF Dec.res # res THEN {"result_changed"} ELSE {})
       \cup (IF exc # "na" /\ exc \notin FallbackExc /\ Dec.exc_type # exc THEN {"exception_type_lost:" \o exc} ELSE {})
       \cup (IF exc # "na" /\ Dec.exc_msg # "same" THEN {"exception_message_lost:" \o exc} ELSE {})

\* known failure shapes (carve-outs), exactly as narrow as the deviations
KF_StopDyn == cls \in StopLike /\ dyn # {}
KF_ExcStr  == exc \in StrWrapExc \cup CtorExc

Inv_WellFormed == WellFormed(cls, typed, dyn, res, exc, path) /\ <<trips, rep>> \in Plan /\ trips \in 1..2
\* the intended design (both deviations FALSE) satisfies the statement on every vector
Inv_Identity == Pred = {}
\* today's code: nothing fails outside the two known shapes, and each known shape predicts exactly its own clause
Inv_IdentityKF ==
  /\ (~KF_StopDyn /\ ~KF_ExcStr) => Pred = {}
  /\ Pred \subseteq {"dynamic_field_dropped:stop", "exception_message_lost:" \o exc, "exception_type_lost:" \o exc,
                     "raised:deserialize:TypeError:" \o exc}
  /\ ("dynamic_field_dropped:stop" \in Pred) => KF_StopDyn
  /\ (Pred \cap {"exception_message_lost:" \o exc, "exception_type_lost:" \o exc,
                 "raised:deserialize:TypeError:" \o exc} # {}) => KF_ExcStr
\* the class tag always resolves in the grid (no vector depends on an unregistered short name)
Inv_TagResolves == Tag \in {"short_name", "short_name_then_qualified", "qualified_name"} /\ ResolvedClass = cls
=============================================================================
