CONSTANTS
  Kind = "stop"
  Thorough = FALSE
SPECIFICATION Spec
INVARIANT Inv_Laws
INVARIANT Inv_Constructible
