CONSTANTS
  MaxLen = 5
  ModeLen = 3
  Families <- FamQuick
  Dev_SuffixOnSanitizedLength = TRUE
SPECIFICATION Spec
INVARIANT Inv_Valid
INVARIANT Inv_Derived
INVARIANT Inv_SuffixKF
INVARIANT Inv_KFShape
INVARIANT Inv_Forced
