CONSTANTS
  MaxLen = 5
  ModeLen = 3
  Families <- FamQuick
  Dev_SuffixOnSanitizedLength = FALSE
SPECIFICATION Spec
INVARIANT Inv_Valid
INVARIANT Inv_Derived
INVARIANT Inv_Suffix
INVARIANT Inv_Forced
