CONSTANTS
  MaxC = 1
  MaxN = 1
SPECIFICATION Spec
INVARIANT Inv_RoundTrip
INVARIANT Inv_Injective
