---- MODULE MC_RetryAlgebra ----
(* Enumeration of the C07 boolean vectors: every initial state is one condition tree; a vector is  *)
(* (tree, abstract input).  Emit prints the tree for the harness, which builds it from the real     *)
(* constructors/operators and evaluates it on concretised inputs.                                   *)
EXTENDS RetryAlgebra, SequencesExt

CONSTANTS Kind,       \* "retry" | "stop"
          Thorough    \* FALSE: depth <= 1, small input grid; TRUE: arity 3 everywhere and depth 2

\* ------------------------------------------------------------------ retry: atoms, kids, inputs
TypeArgs == {<<>>, <<"EX">>, <<"VE">>, <<"LE">>, <<"OS">>, <<"BE">>, <<"VE", "OS">>, <<"IE", "TO">>, <<"BX", "CU">>}
RAtoms == {RA("always", <<>>), RA("never", <<>>)}
   \cup {RA(o, a) : o \in {"type", "not_type", "unless_type", "cause"}, a \in TypeArgs}
   \cup {RA(o, <<l>>) : o \in {"msg_eq", "not_msg_eq"}, l \in {"lit", "empty"}}
   \cup {RA(o, <<p>>) : o \in {"msg_re", "not_msg_re"}, p \in {"http5", "starts_please", "anything"}}
   \cup {RA(o, <<p>>) : o \in {"pred", "bare"}, p \in {"msg_nonempty", "is_os"}}
RKids == {RA("always", <<>>), RA("never", <<>>), RA("type", <<"VE">>), RA("unless_type", <<"OS">>),
          RA("msg_eq", <<"lit">>), RA("not_msg_re", <<"http5">>), RA("cause", <<"OS">>), RA("bare", <<"msg_nonempty">>)}
RKids3 == {RA("type", <<"VE">>), RA("not_msg_re", <<"http5">>), RA("bare", <<"msg_nonempty">>)}

RCls == IF Thorough THEN ExcClasses \ {"BE", "EX"} ELSE {"VE", "CU", "IE", "TO", "BX"}
RCauses == IF Thorough THEN {<<>>, <<"OS">>, <<"BX">>, <<"VE", "TO">>, <<"IE", "BX">>}
           ELSE {<<>>, <<"BX">>, <<"VE", "OS">>}
RInputs == [cls : RCls, msg : MsgClasses, causes : RCauses, ctx : {"none", "OS"}]

\* ------------------------------------------------------------------ stop: atoms, kids, inputs (half-seconds)
SAtoms == {SA("s_never", <<>>)} \cup {SA("after_attempt", <<n>>) : n \in {0, 1, 3}}
   \cup {SA("after_delay", <<d>>) : d \in {0, 1, 60}} \cup {SA("before_delay", <<d>>) : d \in {1, 60}}
   \cup {SA("s_bare", <<2>>)}
SKids == {SA("s_never", <<>>), SA("after_attempt", <<0>>), SA("after_attempt", <<3>>), SA("after_delay", <<60>>),
          SA("before_delay", <<60>>), SA("s_bare", <<2>>)}
SKids3 == {SA("after_attempt", <<3>>), SA("before_delay", <<60>>), SA("s_bare", <<2>>)}
SInputs == [att : 0..4, el : {0, 1, 59, 60, 61}, sl : {0, 1, 2}]

\* ------------------------------------------------------------------ trees
Atoms == IF Kind = "retry" THEN RAtoms ELSE SAtoms
Kids == IF Kind = "retry" THEN RKids ELSE SKids
Kids3 == IF Kind = "retry" THEN RKids3 ELSE SKids3
Inputs == IF Kind = "retry" THEN RInputs ELSE SInputs

Depth1 == IF Thorough THEN Combos(Kids, 3, 3) ELSE Combos(Kids, 2, 2) \cup Combos(Kids3, 3, 3)
\* quick: mixed nesting over two kids (a combinator inside the OTHER combinator is where flattening goes wrong)
Kids2 == IF Kind = "retry" THEN {RA("type", <<"VE">>), RA("not_msg_re", <<"http5">>)} ELSE {SA("after_attempt", <<3>>), SA("s_bare", <<2>>)}
Depth2 == IF Thorough THEN Combos(Kids3 \cup Combos(Kids3, 2, 2), 2, 2) ELSE Combos(Kids2 \cup Combos(Kids2, 2, 2), 2, 2)
Trees == Atoms \cup Depth1 \cup Depth2

ASSUME PrintT(<<"INPUTS", SetToSeq(Inputs)>>)

VARIABLES t, done
Init == t \in Trees /\ done = FALSE
Emit == ~done /\ PrintT(<<"T", t>>) /\ done' = TRUE /\ UNCHANGED t
Spec == Init /\ [][Emit]_<<t, done>>

Inv_Laws == done \/ (Law_Or(t, Inputs) /\ Law_And(t, Inputs) /\ Law_Operator(t, Inputs) /\ Law_Units(t, Inputs))
Inv_Constructible == Constructible(t)
====
