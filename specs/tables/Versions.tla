---------------------------- MODULE Versions ----------------------------
(* Release tooling versions (src/dev_cli/changesets.py: pep440_to_semver, semver_to_pep440;            *)
(* src/dev_cli/versioning.py: detect_change_type).                                                      *)
(*                                                                                                      *)
(* A version is a record [maj, min, pat, pre, n] with pre \in {"none","a","b","rc"} (n = 0 when          *)
(* pre = "none").  It has two spellings: normalized PEP 440 (Pep440) and semver (Semver).  The           *)
(* conversions are defined declaratively through the denotation: ToSemver(p) is the semver spelling of   *)
(* the version whose PEP 440 spelling is p, and conversely.  Order is PEP 440's: release tuple first,    *)
(* then a < b < rc < final, then the pre-release number.                                                 *)
(*                                                                                                      *)
(* Each state of the model is one input vector <<old, new>>; TLC enumerates the grid.                     *)
(**************************************************************************)
EXTENDS Naturals, Sequences, TLC

CONSTANTS MaxC,    \* release components range over 0..MaxC
          MaxN     \* pre-release numbers range over 0..MaxN

Labels == {"a", "b", "rc"}
Versions == {v \in [maj : 0..MaxC, min : 0..MaxC, pat : 0..MaxC, pre : Labels \cup {"none"}, n : 0..MaxN] :
               v.pre = "none" => v.n = 0}

VARIABLES old, new, stage
vars == <<old, new, stage>>

----------------------------------------------------------------------------
(* spellings *)
Rel(v) == ToString(v.maj) \o "." \o ToString(v.min) \o "." \o ToString(v.pat)
Pep440(v) == IF v.pre = "none" THEN Rel(v) ELSE Rel(v) \o v.pre \o ToString(v.n)
Semver(v) == IF v.pre = "none" THEN Rel(v) ELSE Rel(v) \o "-" \o v.pre \o "." \o ToString(v.n)

(* conversions, declaratively (over a universe U of versions) *)
ToSemver(U, p) == Semver(CHOOSE v \in U : Pep440(v) = p)
ToPep440(U, s) == Pep440(CHOOSE v \in U : Semver(v) = s)
Normalize(v) == Pep440(v)          \* the normalized PEP 440 spelling of whatever spelling denoted v

(* order *)
PreRank(v) == CASE v.pre = "a" -> 1 [] v.pre = "b" -> 2 [] v.pre = "rc" -> 3 [] v.pre = "none" -> 4
Key(v) == <<v.maj, v.min, v.pat, PreRank(v), v.n>>
RECURSIVE LexLess(_, _, _)
LexLess(a, b, i) == IF i > Len(a) THEN FALSE
                    ELSE IF a[i] < b[i] THEN TRUE
                    ELSE IF a[i] > b[i] THEN FALSE
                    ELSE LexLess(a, b, i + 1)
Less(a, b) == LexLess(Key(a), Key(b), 1)
Greater(a, b) == Less(b, a)

(* classification *)
Comp(v) == <<v.maj, v.min, v.pat>>
CompName == <<"major", "minor", "patch">>
Grew(nw, od) == {c \in 1..3 : Comp(nw)[c] > Comp(od)[c]}
MostSignificant(S) == CHOOSE c \in S : \A d \in S : c <= d
\* the statement: 'none' exactly when the new version is not greater, otherwise the most significant
\* release component that grew; when the new version is greater and no release component grew (only the
\* pre-release part did) the statement names nothing: "pre_only"
Classify(nw, od) ==
  IF ~Greater(nw, od) THEN "none"
  ELSE IF Grew(nw, od) # {} THEN CompName[MostSignificant(Grew(nw, od))]
  ELSE "pre_only"
\* what detect_change_type does today in the case the statement leaves open
ImplClassify(nw, od) == IF Classify(nw, od) = "pre_only" THEN "minor" ELSE Classify(nw, od)

----------------------------------------------------------------------------
\* enumeration in two levels (old first, then new) so that TLC's workers share the work; every state is one vector
Zero == [maj |-> 0, min |-> 0, pat |-> 0, pre |-> "none", n |-> 0]
Init == old \in Versions /\ new = Zero /\ stage = 0
Next == stage = 0 /\ stage' = 1 /\ new' \in Versions /\ UNCHANGED old
Spec == Init /\ [][Next]_vars

(* sanity of the declarative definitions, checked by TLC on every pair *)
Inv_Injective == old # new => (Pep440(old) # Pep440(new) /\ Semver(old) # Semver(new))
Inv_Trichotomy == /\ (old = new) <=> (~Less(old, new) /\ ~Less(new, old))
                  /\ ~(Less(old, new) /\ Less(new, old))
Inv_Classify ==
  /\ (Classify(new, old) = "none") <=> ~Greater(new, old)
  /\ (Greater(new, old) /\ Comp(new) # Comp(old)) =>
        LET c == MostSignificant(Grew(new, old)) IN
          /\ Grew(new, old) # {}
          /\ \A d \in 1..(c - 1) : Comp(new)[d] = Comp(old)[d]       \* it is the first differing component
          /\ Classify(new, old) = CompName[c]
  /\ (Greater(new, old) /\ Comp(new) = Comp(old)) => Classify(new, old) = "pre_only"
(* round trips at the level of the model (small universe: CHOOSE is expensive) *)
Inv_RoundTrip ==
  /\ ToPep440(Versions, ToSemver(Versions, Pep440(new))) = Normalize(new)
  /\ ToSemver(Versions, ToPep440(Versions, Semver(new))) = Semver(new)
=============================================================================
