CONSTANTS
  MaxC = 3
  MaxN = 2
SPECIFICATION Spec
INVARIANT Inv_Injective
INVARIANT Inv_Trichotomy
INVARIANT Inv_Classify
