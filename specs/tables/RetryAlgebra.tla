---- MODULE RetryAlgebra ----
(* C07, boolean half: retry conditions and stop conditions of workflows/retry_policy.py as         *)
(* function tables.                                                                                *)
(*                                                                                                 *)
(* A condition tree is a record [op, sargs, iargs, kids]:                                          *)
(*   retry atoms   always never type not_type unless_type msg_eq msg_re not_msg_eq not_msg_re      *)
(*                 cause pred bare          (sargs = class names / message-pattern ids)            *)
(*   stop atoms    s_never after_attempt after_delay before_delay s_bare   (iargs, half-seconds)   *)
(*   combinators   any all  (retry_any(...)/retry_all(...), stop_any/stop_all, any arity >= 0)     *)
(*                 or  and  (the | and & operators: left-nested binary applications, arity >= 2)   *)
(* Abstract inputs:                                                                                *)
(*   exception x = [cls, msg, causes, ctx]: class in a small hierarchy, message CLASS (which of    *)
(*     the literals/patterns str(error) equals/matches), explicit __cause__ chain (sequence of     *)
(*     classes), implicit __context__ class ("none" = unset; must be ignored)                      *)
(*   stop input y = [att, el, sl]: attempts, elapsed, upcoming sleep (half-seconds)                *)
(*                                                                                                 *)
(* Eval is IMPLEMENTATION-SHAPED (left-to-right short-circuit folds as Python's any()/all(), the   *)
(* operators build nested binary combinators); the LAWS of the property statement are the          *)
(* declarative formulas Law_* below, checked by TLC on every enumerated tree and re-evaluated by    *)
(* Obs_C07 on the values the real objects returned.                                                *)
EXTENDS Integers, Sequences, FiniteSets, TLC

ToSet(q) == {q[i] : i \in 1..Len(q)}

\* ------------------------------------------------------------------ exception classes
\* BE BaseException, EX Exception, BX a BaseException-only class, VE ValueError, CU custom(ValueError),
\* LE LookupError, IE IndexError, OS OSError, TO TimeoutError
ParentOf == [BE |-> "BE", EX |-> "BE", BX |-> "BE", VE |-> "EX", CU |-> "VE",
             LE |-> "EX", IE |-> "LE", OS |-> "EX", TO |-> "OS"]
ExcClasses == DOMAIN ParentOf
RECURSIVE Anc(_)
Anc(c) == IF ParentOf[c] = c THEN {c} ELSE {c} \cup Anc(ParentOf[c])
AncOf == [c \in ExcClasses |-> Anc(c)]               \* constant table (evaluated once)
IsA(c, T) == AncOf[c] \cap T # {}                   \* isinstance(instance of c, tuple(T))
TypeSet(sargs) == IF sargs = <<>> THEN {"EX"} ELSE ToSet(sargs)     \* no argument = Exception

\* ------------------------------------------------------------------ message classes
\* "empty" ""; "lit" = the literal "please retry"; "lit_more" contains the literal but is longer;
\* "http5" starts with "HTTP 5dd"; "http5_mid" contains it in the middle; "other" none of these
MsgClasses == {"empty", "lit", "lit_more", "http5", "http5_mid", "other"}
MsgEquals(litId, m) == m = litId                      \* message == literal   (litId in {"lit","empty"})
ReSearch(pat, m) == CASE pat = "http5" -> m \in {"http5", "http5_mid"}         \* r"HTTP 5\d\d" (search)
                      [] pat = "starts_please" -> m \in {"lit", "lit_more"}    \* r"^please"
                      [] pat = "anything" -> TRUE                              \* r"" matches everything
Pred(p, x) == CASE p = "msg_nonempty" -> x.msg # "empty"
                [] p = "is_os" -> IsA(x.cls, {"OS"})

RetryAtomOps == {"always", "never", "type", "not_type", "unless_type", "msg_eq", "msg_re",
                 "not_msg_eq", "not_msg_re", "cause", "pred", "bare"}
StopAtomOps == {"s_never", "after_attempt", "after_delay", "before_delay", "s_bare"}
CombOps == {"any", "all", "or", "and"}

RAtom(op, sargs, x) ==
  CASE op = "always" -> TRUE
    [] op = "never" -> FALSE
    [] op = "type" -> IsA(x.cls, TypeSet(sargs))
    [] op \in {"not_type", "unless_type"} -> ~IsA(x.cls, TypeSet(sargs))
    [] op = "msg_eq" -> MsgEquals(sargs[1], x.msg)
    [] op = "not_msg_eq" -> ~MsgEquals(sargs[1], x.msg)
    [] op = "msg_re" -> ReSearch(sargs[1], x.msg)
    [] op = "not_msg_re" -> ~ReSearch(sargs[1], x.msg)
    [] op = "cause" -> \E i \in 1..Len(x.causes) : IsA(x.causes[i], TypeSet(sargs))   \* __cause__ chain only
    [] op \in {"pred", "bare"} -> Pred(sargs[1], x)

SAtom(op, iargs, y) ==
  CASE op = "s_never" -> FALSE
    [] op = "after_attempt" -> y.att >= iargs[1]
    [] op = "after_delay" -> y.el >= iargs[1]
    [] op = "before_delay" -> y.el + y.sl >= iargs[1]
    [] op = "s_bare" -> y.att >= iargs[1] /\ y.sl > 0          \* a user callable

Atom(t, x) == IF t.op \in RetryAtomOps THEN RAtom(t.op, t.sargs, x) ELSE SAtom(t.op, t.iargs, x)

\* ------------------------------------------------------------------ evaluation as the code does it
RECURSIVE Eval(_, _), FoldAny(_, _, _), FoldAll(_, _, _), Chain(_, _, _, _)
FoldAny(ks, x, i) == IF i > Len(ks) THEN FALSE ELSE IF Eval(ks[i], x) THEN TRUE ELSE FoldAny(ks, x, i + 1)
FoldAll(ks, x, i) == IF i > Len(ks) THEN TRUE ELSE IF ~Eval(ks[i], x) THEN FALSE ELSE FoldAll(ks, x, i + 1)
\* a | b | c  builds  any(any(a, b), c): value of the first n operands combined
Chain(isOr, ks, x, n) ==
  IF n = 1 THEN Eval(ks[1], x)
  ELSE LET l == Chain(isOr, ks, x, n - 1) IN
       IF isOr THEN (IF l THEN TRUE ELSE Eval(ks[n], x)) ELSE (IF ~l THEN FALSE ELSE Eval(ks[n], x))
Eval(t, x) == CASE t.op = "any" -> FoldAny(t.kids, x, 1)
                [] t.op = "all" -> FoldAll(t.kids, x, 1)
                [] t.op = "or" -> Chain(TRUE, t.kids, x, Len(t.kids))
                [] t.op = "and" -> Chain(FALSE, t.kids, x, Len(t.kids))
                [] OTHER -> Atom(t, x)

\* ------------------------------------------------------------------ the laws of the statement
IsOr(t) == t.op \in {"any", "or"}
IsAnd(t) == t.op \in {"all", "and"}
Law_Or(t, X) == IsOr(t) => \A x \in X : Eval(t, x) = (\E i \in 1..Len(t.kids) : Eval(t.kids[i], x))
Law_And(t, X) == IsAnd(t) => \A x \in X : Eval(t, x) = (\A i \in 1..Len(t.kids) : Eval(t.kids[i], x))
\* the operators mean the same as the named combinators
Law_Operator(t, X) == t.op \in {"or", "and"} =>
   \A x \in X : Eval(t, x) = Eval([t EXCEPT !.op = IF t.op = "or" THEN "any" ELSE "all"], x)
\* units: any() = never, all() = always; De Morgan through the negated atoms is covered by Law_Or/Law_And
Law_Units(t, X) == t.kids = <<>> /\ t.op \in CombOps => \A x \in X : Eval(t, x) = (t.op = "all")

\* the operators need a library object on one side of the first application (a bare callable has no | or &)
IsBare(t) == t.op \in {"bare", "s_bare"}
Constructible(t) == t.op \in {"or", "and"} => Len(t.kids) >= 2 /\ ~(IsBare(t.kids[1]) /\ IsBare(t.kids[2]))

Node(op, sargs, iargs, kids) == [op |-> op, sargs |-> sargs, iargs |-> iargs, kids |-> kids]
RA(op, sargs) == Node(op, sargs, <<>>, <<>>)
SA(op, iargs) == Node(op, <<>>, iargs, <<>>)
KidSeqs(K, lo, hi) == UNION {[1..n -> K] : n \in lo..hi}
Combos(K, ctorHi, opHi) ==
  {Node(o, <<>>, <<>>, ks) : o \in {"any", "all"}, ks \in KidSeqs(K, 0, ctorHi)} \cup
  {t \in {Node(o, <<>>, <<>>, ks) : o \in {"or", "and"}, ks \in KidSeqs(K, 2, opHi)} : Constructible(t)}
====
