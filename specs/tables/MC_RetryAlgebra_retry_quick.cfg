CONSTANTS
  Kind = "retry"
  Thorough = FALSE
SPECIFICATION Spec
INVARIANT Inv_Laws
INVARIANT Inv_Constructible
