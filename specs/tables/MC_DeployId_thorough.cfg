CONSTANTS
  MaxLen = 6
  ModeLen = 4
  Families <- FamThorough
  Dev_SuffixOnSanitizedLength = TRUE
SPECIFICATION Spec
INVARIANT Inv_Valid
INVARIANT Inv_Derived
INVARIANT Inv_SuffixKF
INVARIANT Inv_KFShape
INVARIANT Inv_Forced
