CONSTANTS
  MaxLen = 6
  ModeLen = 4
  Families <- FamThorough
  Dev_SuffixOnSanitizedLength = FALSE
SPECIFICATION Spec
INVARIANT Inv_Valid
INVARIANT Inv_Derived
INVARIANT Inv_Suffix
INVARIANT Inv_Forced
