---- MODULE WaitStrategies ----
(* C07, numeric half: the wait strategies of workflows/retry_policy.py as function tables over an  *)
(* integer/rational grid.  TLC has no floats: a delay is an integer number of UNITS, U units per     *)
(* second; parameters are given in half-seconds (h); INFH stands for float("inf").                  *)
(*                                                                                                  *)
(* A strategy tree is [op, iargs, kids]:                                                            *)
(*   fixed<<w>> none<<>> exp<<mult,base,max,min>> incr<<start,inc,max>> random<<min,max>>           *)
(*   expjit<<initial,base,max,jitter>> randexp<<mult,base,max,min>> wbare<<c>> (a user callable)    *)
(*   combine (wait_combine(...)), plus (a + b + c), sum (builtin sum([...])), chain (wait_chain)    *)
(* WB(t, k) = [lo, hi]: the DOCUMENTED value range of t at retry index k (lo = hi: deterministic),  *)
(* transcribed from the docstrings:                                                                 *)
(*   exp      "multiplier * exp_base**n, clamped between min and max" (never below 0)               *)
(*   incr     "start + increment*n, capped by max and never going below zero"                       *)
(*   random   "uniformly sampled from [min, max]"                                                   *)
(*   expjit   "base delay min(initial*exp_base**n, max) plus a random value in [0, jitter]", <= max *)
(*   randexp  "sampled between min and the exponential upper bound for the current attempt"         *)
(*   combine/+/sum  the sum of the parts;   chain  the k-th strategy, the last one once exhausted   *)
(* Parameter domain of the grid: time parameters >= 0 except where a docstring promises clamping    *)
(* (exp.min, incr.start, incr.increment may be negative); min <= max.                               *)
EXTENDS Integers, Sequences, FiniteSets, TLC

CONSTANT Dev_PowOverflow     \* TRUE (code today): exp_base**attempts raises OverflowError for huge attempts

U == 256                  \* units per second
H == 128                  \* units per half-second
INFH == 7812500           \* "max = inf", in half-seconds (INFH * H = INF)
INF == INFH * H
HUGE == 900000000         \* stands for mult * base^BigK when base > 1, mult > 0: above every finite cap
BigK == 2000              \* the abstract "huge attempt count"

Min2(a, b) == IF a <= b THEN a ELSE b
Max2(a, b) == IF a >= b THEN a ELSE b
RECURSIVE Pow(_, _)
Pow(b, k) == IF k = 0 THEN 1 ELSE b * Pow(b, k - 1)

\* (mult_h/2) * (base_h/2)^k seconds in units; exact for k <= 7.  For k = BigK: symbolic.
Raw(mult_h, base_h, k) ==
  IF k = BigK
  THEN (IF base_h > 2 THEN (IF mult_h > 0 THEN HUGE ELSE 0)
        ELSE IF base_h = 2 THEN mult_h * H
        ELSE 0)                                  \* base < 1: below any resolution
  ELSE mult_h * Pow(base_h, k) * Pow(2, 7 - k)

PowOps == {"exp", "expjit", "randexp"}
AtomOps == {"fixed", "none", "exp", "incr", "random", "expjit", "randexp", "wbare"}
SumOps == {"combine", "plus", "sum"}
JitterOps == {"random", "expjit", "randexp"}

B(lo, hi) == [lo |-> lo, hi |-> hi]

WAtomB(op, a, k) ==
  CASE op = "fixed" -> B(a[1] * H, a[1] * H)
    [] op = "none" -> B(0, 0)
    [] op = "wbare" -> B(a[1] * H, a[1] * H)
    [] op = "exp" -> LET v == Max2(Max2(0, a[4] * H), Min2(Raw(a[1], a[2], k), a[3] * H)) IN B(v, v)
    [] op = "incr" -> LET v == Max2(0, Min2(a[1] * H + a[2] * H * k, a[3] * H)) IN B(v, v)
    [] op = "random" -> B(a[1] * H, a[2] * H)
    [] op = "expjit" -> LET b == Min2(Raw(a[1], a[2], k), a[3] * H) IN B(b, Min2(b + a[4] * H, a[3] * H))
    [] op = "randexp" -> B(a[4] * H, Max2(Max2(0, a[4] * H), Min2(Raw(a[1], a[2], k), a[3] * H)))

ChainIdx(n, k) == IF k >= n THEN n ELSE k + 1          \* strategies[min(k, n-1)], 1-based

RECURSIVE WB(_, _), SumB(_, _, _)
SumB(ks, k, i) == IF i > Len(ks) THEN B(0, 0)
                  ELSE LET a == WB(ks[i], k)  r == SumB(ks, k, i + 1) IN B(a.lo + r.lo, a.hi + r.hi)
WB(t, k) == IF t.op \in SumOps THEN SumB(t.kids, k, 1)
            ELSE IF t.op = "chain" THEN WB(t.kids[ChainIdx(Len(t.kids), k)], k)
            ELSE WAtomB(t.op, t.iargs, k)

\* does the call raise (deviation)?  a sum evaluates every part, a chain only the selected one
RECURSIVE Raises(_, _)
Raises(t, k) ==
  IF t.op \in SumOps THEN \E i \in 1..Len(t.kids) : Raises(t.kids[i], k)
  ELSE IF t.op = "chain" THEN Raises(t.kids[ChainIdx(Len(t.kids), k)], k)
  ELSE Dev_PowOverflow /\ k = BigK /\ t.op \in PowOps /\ t.iargs[2] > 2

RECURSIVE Jittered(_)
Jittered(t) == t.op \in JitterOps \/ \E i \in 1..Len(t.kids) : Jittered(t.kids[i])

\* ------------------------------------------------------------------ parameter domain of the grid
ParamOK(t) ==
  CASE t.op = "fixed" -> t.iargs[1] >= 0
    [] t.op = "exp" -> t.iargs[1] >= 0 /\ t.iargs[2] >= 1 /\ t.iargs[3] >= 0 /\ t.iargs[4] <= t.iargs[3]
    [] t.op = "incr" -> t.iargs[3] >= 0
    [] t.op = "random" -> 0 <= t.iargs[1] /\ t.iargs[1] <= t.iargs[2]
    [] t.op = "expjit" -> \A i \in 1..4 : t.iargs[i] >= (IF i = 2 THEN 1 ELSE 0)
    [] t.op = "randexp" -> t.iargs[1] >= 0 /\ t.iargs[2] >= 1 /\ 0 <= t.iargs[4] /\ t.iargs[4] <= t.iargs[3]
    [] OTHER -> TRUE

\* ------------------------------------------------------------------ the laws of the statement
Law_NonNegFinite(t, K) == \A k \in K : LET b == WB(t, k) IN 0 <= b.lo /\ b.lo <= b.hi /\ b.hi < INF
Law_DocumentedMax(t, K) == \A k \in K : LET b == WB(t, k)  a == t.iargs IN
  CASE t.op \in {"exp", "randexp"} -> b.hi <= a[3] * H /\ b.lo >= a[4] * H
    [] t.op = "incr" -> b.hi <= a[3] * H
    [] t.op = "random" -> a[1] * H <= b.lo /\ b.hi <= a[2] * H
    [] t.op = "expjit" -> b.hi <= a[3] * H /\ b.hi - b.lo <= a[4] * H
    [] OTHER -> TRUE
Law_Clamp(t, K) == t.op = "exp" => \A k \in K :
   LET raw == Raw(t.iargs[1], t.iargs[2], k)  v == WB(t, k).lo  lo == Max2(0, t.iargs[4] * H)  hi == t.iargs[3] * H IN
   /\ (lo <= raw /\ raw <= hi) => v = raw
   /\ raw > hi => v = hi
   /\ raw < lo => v = lo
Law_Sum(t, K) == t.op \in SumOps => \A k \in K :
   LET b == WB(t, k) IN
   /\ b.lo = SumB(t.kids, k, 1).lo /\ b.hi = SumB(t.kids, k, 1).hi
   /\ (t.kids = <<>> => b = B(0, 0))
Law_Deterministic(t, K) == ~Jittered(t) => \A k \in K : WB(t, k).lo = WB(t, k).hi
\* strict: no call raises; faithful: only the known shape (huge attempt count through base**attempts)
Law_TotalStrict(t, K) == \A k \in K : ~Raises(t, k)
Law_TotalFaithful(t, K) == \A k \in K : Raises(t, k) => k = BigK

\* the + operator and sum() need a library object to start from
Constructible(t) == /\ t.op = "plus" => Len(t.kids) >= 2 /\ ~(t.kids[1].op = "wbare" /\ t.kids[2].op = "wbare")
                    /\ t.op = "sum" => Len(t.kids) >= 1 /\ t.kids[1].op # "wbare"
                    /\ t.op = "chain" => Len(t.kids) >= 1

WNode(op, iargs, kids) == [op |-> op, iargs |-> iargs, kids |-> kids]
WA(op, iargs) == WNode(op, iargs, <<>>)
KidSeqs(K, lo, hi) == UNION {[1..n -> K] : n \in lo..hi}
WCombos(K, hi) == {t \in {WNode(o, <<>>, ks) : o \in SumOps \cup {"chain"}, ks \in KidSeqs(K, 0, hi)} : Constructible(t)}
====
