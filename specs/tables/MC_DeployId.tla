---- MODULE MC_DeployId ----
EXTENDS DeployId
Rep(c, n) == [i \in 1..n |-> c]
Alt(a, b, n) == [i \in 1..n |-> IF i % 2 = 1 THEN a ELSE b]
\* long names around the 57 (suffix cut) and 63 (label limit) boundaries
FamQuick ==
  {Rep("L", n) : n \in 55..66}
  \cup {<<"D">> \o Rep("L", n) : n \in 54..63}
  \cup {Rep("L", n) \o <<"H">> \o Rep("L", m) : n \in 55..63, m \in {0, 1, 8}}
  \cup {Rep("U", n) \o <<"O", "N">> \o Rep("D", m) : n \in 55..62, m \in {1, 8}}
  \cup {Alt("L", "O", n) : n \in 60..67}
  \cup {<<"D">> \o Rep("H", 70) \o <<"D">>, Rep("N", 70), <<"L">> \o Rep("O", 70) \o <<"L">>}
FamThorough ==
  FamQuick
  \cup {Rep(c, n) : c \in {"U", "D"}, n \in 50..70}
  \cup {<<"D">> \o Rep("L", n) \o <<"N">> \o Rep("L", m) : n \in 50..62, m \in 0..3}
  \cup {Rep("L", n) \o <<"H", "O">> \o Rep("L", m) : n \in 50..63, m \in {0, 1, 2, 8}}
  \cup {Alt("D", "N", n) : n \in 55..70}
  \cup {<<"N">> \o Rep("U", n) \o <<"H", "H">> : n \in 54..64}
  \cup {<<"L", "L">> \o Rep("H", k) \o Rep("D", n) : k \in 1..2, n \in 52..62}
====
