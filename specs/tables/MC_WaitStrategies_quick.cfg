CONSTANTS
  Dev_PowOverflow = TRUE
  Thorough = FALSE
SPECIFICATION Spec
INVARIANT Inv_Laws
INVARIANT Inv_TotalFaithful
INVARIANT Inv_Constructible
