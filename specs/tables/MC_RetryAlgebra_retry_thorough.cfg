CONSTANTS
  Kind = "retry"
  Thorough = TRUE
SPECIFICATION Spec
INVARIANT Inv_Laws
INVARIANT Inv_Constructible
