CONSTANTS
  MaxC = 2
  MaxN = 1
SPECIFICATION Spec
INVARIANT Inv_Injective
INVARIANT Inv_Trichotomy
INVARIANT Inv_Classify
