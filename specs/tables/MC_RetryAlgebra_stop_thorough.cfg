CONSTANTS
  Kind = "stop"
  Thorough = TRUE
SPECIFICATION Spec
INVARIANT Inv_Laws
INVARIANT Inv_Constructible
