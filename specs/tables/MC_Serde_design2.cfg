CONSTANTS
  MaxFeatures = 2
  PairPaths <- PairPathsCore
  Plan <- PlanDesign
  Dev_StopDropsDynamic = FALSE
  Dev_ExcRebuiltFromStr = FALSE
  Dev_CtorFailureRaises = FALSE
SPECIFICATION Spec
INVARIANT Inv_WellFormed
INVARIANT Inv_Identity
INVARIANT Inv_TagResolves
