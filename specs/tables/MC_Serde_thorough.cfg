CONSTANTS
  MaxFeatures = 2
  PairPaths <- PairPathsCore
  Plan <- PlanThorough
  Dev_StopDropsDynamic = TRUE
  Dev_ExcRebuiltFromStr = TRUE
SPECIFICATION Spec
INVARIANT Inv_WellFormed
INVARIANT Inv_IdentityKF
INVARIANT Inv_TagResolves
