CONSTANTS
  MaxFeatures = 2
  PairPaths <- PairPathsCore
  Plan <- PlanThorough
  Dev_StopDropsDynamic = FALSE
  Dev_ExcRebuiltFromStr = TRUE
  Dev_CtorFailureRaises = FALSE
SPECIFICATION Spec
INVARIANT Inv_WellFormed
INVARIANT Inv_IdentityKF
INVARIANT Inv_TagResolves
