---------------------------- MODULE DeployId ----------------------------
(* find_deployment_id / _append_random_suffix (llama_agents/control_plane/k8s_client.py).              *)
(*                                                                                                      *)
(* A display name is a sequence of character classes                                                    *)
(*   "L" ascii lower-case letter   "U" character whose Python lower() is an ascii letter                 *)
(*   "D" ascii digit               "O" other ascii character      "H" hyphen      "N" non-ascii           *)
(* The pipeline works on tagged characters [ch, src]: ch \in {"a" letter, "0" digit, "-" hyphen,         *)
(* "d" the inserted letter of the "d-" prefix, "x" a random hex character whose first draw may be a      *)
(* digit ("0x") or a letter ("ax")}; src = position in the name the character was taken from (0 = made   *)
(* up).  One operator per statement of the function, in the function's order.                            *)
(*                                                                                                      *)
(* Each state of the model is one input vector <<name, mode, draw>>.                                     *)
(**************************************************************************)
EXTENDS Naturals, Sequences, FiniteSets, TLC

CONSTANTS MaxLen,                     \* all class strings up to this length are enumerated
          Families,                   \* extra (long) names, as a set of sequences of classes
          ModeLen,                    \* modes other than "plain" are enumerated for names up to this length (and families)
          Dev_SuffixOnSanitizedLength \* TRUE: the suffix rule tests len(sanitised id) < 3 (code today);
                                      \* FALSE: it tests the number of alphanumerics of the name (the statement)

Classes == {"L", "U", "D", "O", "H", "N"}
Modes == {"plain", "force", "collide"}     \* force_suffix=True (reserved name); first candidate already in use
Draws == {"digit", "alpha"}                \* first character of the random hex suffix
MaxLabel == 63
Randomness == 5

VARIABLES name, mode, draw
vars == <<name, mode, draw>>

----------------------------------------------------------------------------
IsAlnumClass(c) == c \in {"L", "U", "D"}
C(ch, src) == [ch |-> ch, src |-> src]

\* name.lower() ; re.sub(r"[^a-z0-9]", "-", ...)
Sanitize(nm) == [i \in 1..Len(nm) |-> IF nm[i] \in {"L", "U"} THEN C("a", i)
                                       ELSE IF nm[i] = "D" THEN C("0", i) ELSE C("-", 0)]
\* re.sub(r"-+", "-", ...)
RECURSIVE Collapse(_)
Collapse(s) == IF Len(s) <= 1 THEN s
               ELSE IF s[1].ch = "-" /\ s[2].ch = "-" THEN Collapse(Tail(s))
               ELSE <<s[1]>> \o Collapse(Tail(s))
\* re.sub(r"^-|-$", "", ...)
StripEnds(s) == LET a == IF s # <<>> /\ s[1].ch = "-" THEN Tail(s) ELSE s
                IN IF a # <<>> /\ a[Len(a)].ch = "-" THEN SubSeq(a, 1, Len(a) - 1) ELSE a
\* if id and not id[0].isalpha(): id = "d-" + id
Prefix(s) == IF s # <<>> /\ s[1].ch # "a" THEN <<C("d", 0), C("-", 0)>> \o s ELSE s
RECURSIVE RStrip(_)
RStrip(s) == IF s # <<>> /\ s[Len(s)].ch = "-" THEN RStrip(SubSeq(s, 1, Len(s) - 1)) ELSE s
\* id[:63].rstrip("-")
Truncate(s) == RStrip(SubSeq(s, 1, IF Len(s) < MaxLabel THEN Len(s) ELSE MaxLabel))

Base(nm) == Truncate(Prefix(StripEnds(Collapse(Sanitize(nm)))))

Hex(dr, forceAlpha) == <<C(IF dr = "alpha" \/ forceAlpha THEN "ax" ELSE "0x", 0)>>
                       \o [i \in 1..(Randomness - 1) |-> C("x", 0)]
\* _append_random_suffix(id, 63)
AppendSuffix(s, dr) ==
  IF s = <<>> THEN Hex(dr, TRUE)
  ELSE LET take == MaxLabel - Randomness - 1 IN
       SubSeq(s, 1, IF Len(s) < take THEN Len(s) ELSE take) \o <<C("-", 0)>> \o Hex(dr, FALSE)

NAlnum(nm) == Cardinality({i \in 1..Len(nm) : IsAlnumClass(nm[i])})

NeedsSuffix(nm) == IF Dev_SuffixOnSanitizedLength THEN Len(Base(nm)) < 3 ELSE NAlnum(nm) < 3

\* the id returned when the availability check answers "free" (mode "collide": "in use" once, then "free")
Id(nm, md, dr) ==
  LET b == Base(nm)
      first == IF NeedsSuffix(nm) \/ md = "force" THEN AppendSuffix(b, dr) ELSE b
  IN IF md = "collide" THEN AppendSuffix(b, dr) ELSE first

----------------------------------------------------------------------------
(* the statement, on tagged characters *)
IsLetter(c) == c.ch \in {"a", "d", "ax"}
IsAlnum(c) == c.ch \in {"a", "d", "0", "ax", "0x", "x"}
IsRandom(c) == c.ch \in {"ax", "0x", "x"}

Valid(id) == /\ Len(id) >= 1 /\ Len(id) <= MaxLabel
             /\ IsLetter(id[1])
             /\ \A i \in 1..Len(id) : IsAlnum(id[i]) \/ id[i].ch = "-"
             /\ id[Len(id)].ch # "-"

HasSuffix(id) == /\ Len(id) >= Randomness
                 /\ \A i \in (Len(id) - Randomness + 1)..Len(id) : IsRandom(id[i])
                 /\ (Len(id) = Randomness \/ id[Len(id) - Randomness].ch = "-")

AlnumPositions(nm) == SelectSeq([i \in 1..Len(nm) |-> i], LAMBDA i : IsAlnumClass(nm[i]))
\* the id consists of the name's alphanumerics, in order, from the first one on (an optional "d-" in front when
\* the first one is a digit, single hyphens in between), and of all of them unless the 63 limit cut it
Derived(id, nm) ==
  LET body == IF id # <<>> /\ id[1].ch = "d" THEN SubSeq(id, 3, Len(id)) ELSE id
      srcs == SelectSeq([i \in 1..Len(body) |-> body[i].src], LAMBDA x : x # 0)
      want == AlnumPositions(nm)
  IN /\ \A i \in 1..Len(body) : body[i].src # 0 \/ body[i].ch = "-"
     /\ (id # <<>> /\ id[1].ch = "d") => (id[2].ch = "-" /\ nm[want[1]] = "D")
     /\ Len(srcs) <= Len(want) /\ \A i \in 1..Len(srcs) : srcs[i] = want[i]
     /\ Len(id) <= MaxLabel - 2 => Len(srcs) = Len(want)

Inv_Valid == Valid(Id(name, mode, draw))
Inv_Derived == (mode = "plain" /\ NAlnum(name) >= 3) =>
                  /\ Derived(Id(name, mode, draw), name)
                  /\ ~HasSuffix(Id(name, mode, draw))
Inv_Suffix == (mode = "plain" /\ NAlnum(name) < 3) => HasSuffix(Id(name, mode, draw))
\* known failure shape: fewer than three alphanumerics, yet the sanitised id is three characters or longer,
\* which happens exactly when a "d-" prefix was added or a hyphen separates two alphanumerics
KF_SanitizedLen(nm) == NAlnum(nm) < 3 /\ Len(Base(nm)) >= 3
Inv_SuffixKF == (mode = "plain" /\ NAlnum(name) < 3 /\ ~KF_SanitizedLen(name)) => HasSuffix(Id(name, mode, draw))
Inv_KFShape == KF_SanitizedLen(name) =>
                 LET b == Base(name) IN b[1].ch = "d" \/ (Len(b) = 3 /\ b[2].ch = "-")
Inv_Forced == mode \in {"force", "collide"} => HasSuffix(Id(name, mode, draw))

\* enumeration: the empty name, every extension by one class up to the length bound, and a jump to each family member
\* (a tree, so that TLC's workers share the work; every state is one input vector)
Init == name = <<>> /\ mode \in Modes /\ draw \in Draws
Extend(c) == /\ Len(name) < (IF mode = "plain" THEN MaxLen ELSE ModeLen)
             /\ name' = Append(name, c) /\ UNCHANGED <<mode, draw>>
Jump == /\ name = <<>> /\ name' \in Families /\ UNCHANGED <<mode, draw>>
Next == (\E c \in Classes : Extend(c)) \/ Jump
Spec == Init /\ [][Next]_vars
=============================================================================
