---- MODULE MC_WaitStrategies ----
(* Enumeration of the C07 numeric vectors: every initial state is one strategy tree; a vector is    *)
(* (tree, retry index k, seed).                                                                     *)
EXTENDS WaitStrategies

CONSTANT Thorough

Caps == {<<2, 0>>, <<20, 1>>, <<120, 0>>, <<120, -2>>, <<20, 20>>, <<10, 4>>}      \* <<max_h, min_h>>
Atoms ==
  {WA("fixed", <<w>>) : w \in {0, 1, 2, 10}} \cup {WA("none", <<>>), WA("wbare", <<3>>)}
  \cup {WA("exp", <<m, b, c[1], c[2]>>) : m \in {0, 1, 2, 6}, b \in {1, 2, 3, 4, 6}, c \in Caps}
  \cup {WA("incr", <<s, i, c>>) : s \in {-4, 0, 2, 10}, i \in {-2, 0, 1, 4, 200}, c \in {0, 6, 20, INFH}}
  \cup {WA("random", p) : p \in {<<0, 0>>, <<0, 2>>, <<1, 3>>, <<4, 4>>, <<2, 20>>}}
  \cup {WA("expjit", <<i, b, c, j>>) : i \in {0, 1, 2}, b \in {2, 3, 4}, c \in {2, 20, 120}, j \in {0, 1, 2, 10}}
  \cup {WA("randexp", <<m, b, c[1], c[2]>>) : m \in {0, 1, 2, 6}, b \in {1, 2, 3, 4, 6}, c \in {c \in Caps : c[2] >= 0}}

WKids == {WA("fixed", <<2>>), WA("none", <<>>), WA("exp", <<2, 4, 20, 1>>), WA("incr", <<2, -2, 6>>),
          WA("random", <<1, 3>>), WA("expjit", <<2, 4, 20, 2>>), WA("randexp", <<2, 4, 20, 0>>), WA("wbare", <<3>>)}
WKids3 == {WA("exp", <<2, 4, 20, 1>>), WA("randexp", <<2, 4, 20, 0>>), WA("wbare", <<3>>)}

Ks == {0, 1, 2, 3, 5, 7, BigK}
Seeds == IF Thorough THEN {0, 1, 7, 12345, -1} ELSE {0, 1, 12345, -1}       \* -1 = no seed (module-level RNG)

Depth1 == IF Thorough THEN WCombos(WKids, 3) ELSE WCombos(WKids, 2) \cup WCombos(WKids3, 3)
Depth2 == IF Thorough THEN WCombos(WKids3 \cup WCombos(WKids3, 2), 2) ELSE {}
Trees == Atoms \cup Depth1 \cup Depth2

ASSUME PrintT(<<"KS", Ks, "SEEDS", Seeds>>)
ASSUME \A a \in Atoms : ParamOK(a)

VARIABLES t, done
Init == t \in Trees /\ done = FALSE
Emit == ~done /\ PrintT(<<"W", t>>) /\ done' = TRUE /\ UNCHANGED t
Spec == Init /\ [][Emit]_<<t, done>>

Inv_Laws == done \/ (/\ Law_NonNegFinite(t, Ks) /\ Law_DocumentedMax(t, Ks) /\ Law_Clamp(t, Ks)
                     /\ Law_Sum(t, Ks) /\ Law_Deterministic(t, Ks))
Inv_TotalStrict == done \/ Law_TotalStrict(t, Ks)
Inv_TotalFaithful == done \/ Law_TotalFaithful(t, Ks)
Inv_Constructible == Constructible(t)
====
