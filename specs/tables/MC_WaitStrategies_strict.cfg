CONSTANTS
  Dev_PowOverflow = FALSE
  Thorough = FALSE
SPECIFICATION Spec
INVARIANT Inv_Laws
INVARIANT Inv_TotalStrict
INVARIANT Inv_Constructible
