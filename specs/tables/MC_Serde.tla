---- MODULE MC_Serde ----
EXTENDS Serde
\* <<trips, representative>> plans
PlanDesign   == {<<1, 0>>}
PlanQuick    == {<<2, 0>>, <<1, 1>>}
PlanThorough == {<<1, 0>>, <<1, 1>>, <<1, 2>>, <<2, 0>>}
\* one path per serialiser family, plus the exception-carrying ticks
PairPathsCore == {"json", "env_meta_qn", "env_client", "tick_add_retry", "tick_step_result", "tick_step_failed"}
====
