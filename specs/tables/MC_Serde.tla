---- MODULE MC_Serde ----
EXTENDS Serde
\* <<trips, representative>> plans
PlanDesign   == {<<1, 0>>}
PlanQuick    == {<<2, 0>>, <<1, 1>>}
PlanThorough == {<<1, 0>>, <<1, 1>>, <<1, 2>>, <<2, 0>>, <<2, 1>>}
====
