---- MODULE MC_Versions ----
EXTENDS Versions
====
