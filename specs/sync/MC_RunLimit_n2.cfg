CONSTANTS
  Runs = {"r1", "r2", "r3", "r4"}
  Insts = {"w1", "w2"}
  InstOf <- InstOf4
  Limit <- Limit21
  MaxCancel = 1
  MaxFail = 1
SPECIFICATION FairSpec
INVARIANT TypeOK
INVARIANT Inv_Limit
INVARIANT Inv_Value
INVARIANT Inv_Baton
INVARIANT Inv_Cleanup
PROPERTY Act_Independence
PROPERTY Live_Executes
