CONSTANTS
  D = 2
  M = 4
  Scenarios <- ScenQuick
  Dev_PassthroughOnSignal = FALSE
SPECIFICATION FairSpec
INVARIANT Inv_Once
INVARIANT Inv_AllOnce_KF
INVARIANT Inv_BurstFirst
INVARIANT Inv_NoEarly
PROPERTY Live_Closes
