CONSTANTS
  Names = {"a", "b", "c"}
  Procs = {"p1", "p2", "p3"}
  Programs <- Programs3
  Dev_SharedResolutionState = FALSE
SPECIFICATION FairSpec
INVARIANT Inv_CachedOnce
INVARIANT Inv_FreshPerInvocation
INVARIANT Inv_CycleReported
INVARIANT Inv_NoFalseCycle
INVARIANT Inv_Rest
PROPERTY Live_Terminates
