CONSTANTS
  D = 2
  M = 5
  Scenarios <- ScenThorough
  Dev_PassthroughOnSignal = FALSE
SPECIFICATION FairSpec
INVARIANT Inv_Once
INVARIANT Inv_AllOnce_KF
INVARIANT Inv_BurstFirst
INVARIANT Inv_NoEarly
PROPERTY Live_Closes
