---- MODULE MC_RunLimit ----
EXTENDS RunLimit
InstOf4 == [r1 |-> "w1", r2 |-> "w1", r3 |-> "w1", r4 |-> "w2"]
InstOf6 == [r1 |-> "w1", r2 |-> "w1", r3 |-> "w1", r4 |-> "w1", r5 |-> "w1", r6 |-> "w2"]
Limit11 == [w1 |-> 1, w2 |-> 1]
Limit21 == [w1 |-> 2, w2 |-> 1]
Limit31 == [w1 |-> 3, w2 |-> 1]
Limit42 == [w1 |-> 4, w2 |-> 2]
====
