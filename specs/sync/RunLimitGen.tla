---------------------------- MODULE RunLimitGen ----------------------------
(* num_concurrent_runs across object lifetimes.  RunLimit.tla models one generation of live workflow  *)
(* instances; this module models the TABLE in which BasicRuntime keeps their semaphores:               *)
(*     self._max_concurrent_runs: WeakValueDictionary[int, asyncio.Semaphore], keyed by id(workflow)   *)
(* id(workflow) is the object's address: unique among LIVE objects only.  The module-level            *)
(* basic_runtime lives as long as the process, workflow instances come and go, and the allocator hands *)
(* the address of a dead instance to a new one -- possibly one with another num_concurrent_runs.       *)
(*                                                                                                      *)
(*   _maybe_acquire_max_concurrent_runs(workflow):                                                      *)
(*       sem = table.get(id(workflow)); if None: sem = Semaphore(workflow.num_concurrent_runs);         *)
(*       table[id(workflow)] = sem;   async with sem: run                                               *)
(* The table holds its values weakly: a semaphore exists exactly as long as some run of its instance   *)
(* refers to it (the local `sem` of the run's task).  Dev_TableKeepsSemaphores = TRUE models a plain   *)
(* dict instead (entries outlive their instance): the sanity configuration shows what then goes wrong. *)
(* Runs are counted, not named (RunLimit.tla has the per-run protocol of the semaphore itself).        *)
(*****************************************************************************)
EXTENDS Naturals, FiniteSets, TLC

CONSTANTS Insts, Addrs, Limits, MaxRuns, MaxGen, Dev_TableKeepsSemaphores

VARIABLES
  live,      \* Insts -> [alive, addr, limit]      the workflow objects (addr 0 = not allocated)
  table,     \* Addrs -> [present, cap, value]     the runtime's dict: address -> Semaphore(cap), value = free units
  holding,   \* Insts -> Nat                       runs inside `async with sem`
  waiting,   \* Insts -> Nat                       runs blocked in sem.acquire()
  ngen

vars == <<live, table, holding, waiting, ngen>>
NoSem == [present |-> FALSE, cap |-> 0, value |-> 0]
Dead == [alive |-> FALSE, addr |-> 0, limit |-> 0]

Init ==
  /\ live = [i \in Insts |-> Dead]
  /\ table = [a \in Addrs |-> NoSem]
  /\ holding = [i \in Insts |-> 0]
  /\ waiting = [i \in Insts |-> 0]
  /\ ngen = 0

AddrFree(a) == \A i \in Insts : ~(live[i].alive /\ live[i].addr = a)

\* a new workflow object: the allocator may give it any address no live object occupies
Create(i, a, n) ==
  /\ ~live[i].alive /\ AddrFree(a) /\ ngen < MaxGen
  /\ live' = [live EXCEPT ![i] = [alive |-> TRUE, addr |-> a, limit |-> n]]
  /\ ngen' = ngen + 1
  /\ UNCHANGED <<table, holding, waiting>>

\* workflow.run(): look the semaphore up by address, create it on a miss, take a unit or queue
Start(i) ==
  /\ live[i].alive /\ holding[i] + waiting[i] < MaxRuns
  /\ LET a == live[i].addr
         sem == IF table[a].present THEN table[a] ELSE [present |-> TRUE, cap |-> live[i].limit, value |-> live[i].limit]
     IN IF sem.value > 0
          THEN /\ table' = [table EXCEPT ![a] = [sem EXCEPT !.value = @ - 1]]
               /\ holding' = [holding EXCEPT ![i] = @ + 1]
               /\ waiting' = waiting
          ELSE /\ table' = [table EXCEPT ![a] = sem]
               /\ waiting' = [waiting EXCEPT ![i] = @ + 1]
               /\ holding' = holding
  /\ UNCHANGED <<live, ngen>>

\* a run ends: its unit goes to a queued run of the same semaphore, or back; with weak values the semaphore
\* disappears from the table when no run refers to it any more
Finish(i) ==
  /\ live[i].alive /\ holding[i] > 0
  /\ LET a == live[i].addr
         handover == waiting[i] > 0
         h == IF handover THEN holding[i] ELSE holding[i] - 1
         w == IF handover THEN waiting[i] - 1 ELSE waiting[i]
         sem == IF handover THEN table[a] ELSE [table[a] EXCEPT !.value = @ + 1]
     IN /\ holding' = [holding EXCEPT ![i] = h]
        /\ waiting' = [waiting EXCEPT ![i] = w]
        /\ table' = [table EXCEPT ![a] = IF ~Dev_TableKeepsSemaphores /\ h = 0 /\ w = 0 THEN NoSem ELSE sem]
  /\ UNCHANGED <<live, ngen>>

\* the object is dropped (only possible when no run of it is active: a run refers to its workflow)
Die(i) ==
  /\ live[i].alive /\ holding[i] = 0 /\ waiting[i] = 0
  /\ live' = [live EXCEPT ![i] = Dead]
  /\ UNCHANGED <<table, holding, waiting, ngen>>

Next == \/ \E i \in Insts, a \in Addrs, n \in Limits : Create(i, a, n)
        \/ \E i \in Insts : Start(i) \/ Finish(i) \/ Die(i)
Spec == Init /\ [][Next]_vars

----------------------------------------------------------------------------
(* C30 across lifetimes *)
\* at most N runs of the same workflow instance execute steps at any time (N = the instance's own limit)
Inv_OwnLimit == \A i \in Insts : live[i].alive => holding[i] <= live[i].limit
\* every started run executes unless its instance is at its own limit
Inv_NotThrottled == \A i \in Insts : (live[i].alive /\ waiting[i] > 0) => holding[i] >= live[i].limit
\* separate instances have independent limits -- also instances separated in time: the semaphore an instance finds
\* at its address is one that was created for it
Inv_EntryIsOwn == \A i \in Insts : (live[i].alive /\ table[live[i].addr].present) => table[live[i].addr].cap = live[i].limit
\* what makes that true in the code: no entry without a run referring to it
Inv_NoStaleEntry == \A a \in Addrs : table[a].present =>
                       \E i \in Insts : live[i].alive /\ live[i].addr = a /\ holding[i] + waiting[i] > 0
Inv_Value == \A i \in Insts : (live[i].alive /\ table[live[i].addr].present) =>
                table[live[i].addr].value + holding[i] = table[live[i].addr].cap
TypeOK ==
  /\ \A i \in Insts : holding[i] \in 0..MaxRuns /\ waiting[i] \in 0..MaxRuns
  /\ \A a \in Addrs : table[a].value \in 0..table[a].cap
=============================================================================
