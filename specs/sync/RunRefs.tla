------------------------------ MODULE RunRefs ------------------------------
(* Who keeps a run alive.  BasicRuntime executes a run as ONE asyncio task; the event loop refers to its tasks   *)
(* weakly, the runtime's table of per-run queues (`_queues`) is a WeakValueDictionary.  A run is reachable for   *)
(* the garbage collector only through                                                                            *)
(*   - the handler / external adapter its starter kept (`held`),                                                 *)
(*   - a pending timer of the run (workflow timeout, retry delay, waiter timeout: the loop's timer heap is a     *)
(*     root) (`timer`),                                                                                          *)
(*   - a step body or the control loop being scheduled right now (`busy`: the loop's ready queue is a root),     *)
(*   - the runtime's own set of run tasks, if it has one (RuntimeHoldsTasks).                                    *)
(* A run that is parked waiting for an external event with none of these is an unreachable cycle                 *)
(* (task -> frame -> queues -> queue getter future -> task): the collector may take it at any time.              *)
(*                                                                                                               *)
(* The server's idle-release reload (`_ensure_active_run_locked`) calls workflow.run(ctx=..., run_id=...) and     *)
(* drops the handler: a reloaded run starts with held = FALSE.  RuntimeHoldsTasks = FALSE is the code before the  *)
(* /repo repair 141e0cf (sanity configuration: TLC must find the lost run), TRUE the code as it is.               *)
(****************************************************************************)
EXTENDS Naturals, FiniteSets, TLC

CONSTANTS Runs, MaxSends, RuntimeHoldsTasks

VARIABLES st,        \* Runs -> "none" | "live" | "released" | "done" | "collected"
          held,      \* Runs -> BOOLEAN     the starter still has the handler
          timer,     \* Runs -> BOOLEAN     a timer of the run is pending
          busy,      \* Runs -> BOOLEAN     work of the run is scheduled / executing
          active,    \* Runs -> BOOLEAN     the idle-release layer's `_active_run_ids`
          lost,      \* number of events accepted for a run that could not be delivered
          nsend
vars == <<st, held, timer, busy, active, lost, nsend>>

Init == /\ st = [r \in Runs |-> "none"] /\ held = [r \in Runs |-> FALSE] /\ timer = [r \in Runs |-> FALSE]
        /\ busy = [r \in Runs |-> FALSE] /\ active = [r \in Runs |-> FALSE] /\ lost = 0 /\ nsend = 0

Reachable(r) == held[r] \/ timer[r] \/ busy[r] \/ RuntimeHoldsTasks

\* POST /run: the service keeps the handler of a run it started (keep = TRUE) or it is a fire-and-forget start
Start(r, keep) ==
  /\ st[r] = "none"
  /\ st' = [st EXCEPT ![r] = "live"] /\ held' = [held EXCEPT ![r] = keep] /\ busy' = [busy EXCEPT ![r] = TRUE]
  /\ active' = [active EXCEPT ![r] = TRUE] /\ UNCHANGED <<timer, lost, nsend>>
\* the run has nothing left to do but wait for an external event (with or without a timer of its own pending)
Park(r, t) ==
  /\ st[r] = "live" /\ busy[r]
  /\ busy' = [busy EXCEPT ![r] = FALSE] /\ timer' = [timer EXCEPT ![r] = t] /\ UNCHANGED <<st, held, active, lost, nsend>>
TimerFires(r) ==
  /\ st[r] = "live" /\ timer[r]
  /\ timer' = [timer EXCEPT ![r] = FALSE] /\ busy' = [busy EXCEPT ![r] = TRUE] /\ UNCHANGED <<st, held, active, lost, nsend>>
Finish(r) ==
  /\ st[r] = "live" /\ busy[r]
  /\ st' = [st EXCEPT ![r] = "done"] /\ busy' = [busy EXCEPT ![r] = FALSE] /\ timer' = [timer EXCEPT ![r] = FALSE]
  /\ UNCHANGED <<held, active, lost, nsend>>
\* the caller forgets the handler
Drop(r) == held[r] /\ held' = [held EXCEPT ![r] = FALSE] /\ UNCHANGED <<st, timer, busy, active, lost, nsend>>
\* idle release: the parked run is aborted on purpose and leaves memory (its ticks are in the store)
Release(r) ==
  /\ st[r] = "live" /\ ~busy[r] /\ ~timer[r] /\ active[r]
  /\ st' = [st EXCEPT ![r] = "released"] /\ active' = [active EXCEPT ![r] = FALSE] /\ held' = [held EXCEPT ![r] = FALSE]
  /\ UNCHANGED <<timer, busy, lost, nsend>>
\* a client event for run r
Send(r) ==
  /\ nsend < MaxSends /\ nsend' = nsend + 1
  /\ \/ /\ st[r] = "released" /\ ~active[r]                 \* reload: workflow.run(...) -- the handler is dropped
        /\ st' = [st EXCEPT ![r] = "live"] /\ active' = [active EXCEPT ![r] = TRUE] /\ busy' = [busy EXCEPT ![r] = TRUE]
        /\ UNCHANGED <<held, timer, lost>>
     \/ /\ st[r] = "live"                                    \* delivered to the live run
        /\ busy' = [busy EXCEPT ![r] = TRUE] /\ UNCHANGED <<st, held, timer, active, lost>>
     \/ /\ st[r] = "collected" /\ active[r]                  \* "No active workflow with run_id": nothing reloads it either
        /\ lost' = lost + 1 /\ UNCHANGED <<st, held, timer, busy, active>>
\* the garbage collector
Collect(r) ==
  /\ st[r] = "live" /\ ~Reachable(r)
  /\ st' = [st EXCEPT ![r] = "collected"] /\ UNCHANGED <<held, timer, busy, active, lost, nsend>>

Next == \E r \in Runs : \/ \E k \in BOOLEAN : Start(r, k) \/ Park(r, k)
                        \/ TimerFires(r) \/ Finish(r) \/ Drop(r) \/ Release(r) \/ Send(r) \/ Collect(r)
Spec == Init /\ [][Next]_vars

----------------------------------------------------------------------------
TypeOK == /\ st \in [Runs -> {"none", "live", "released", "done", "collected"}] /\ lost \in 0..MaxSends
\* C26: every event sent to a run is eventually processed by it -- at least it is never refused because the run vanished
Inv_NoEventLost == lost = 0
\* a run that has not finished and was not released on purpose is in memory
Inv_LiveRunKept == \A r \in Runs : st[r] # "collected"
\* (holds in both variants) while a run does something, or will by itself, it cannot be collected
Inv_BusyIsSafe == \A r \in Runs : (st[r] = "collected") => (~busy[r] /\ ~timer[r])
=============================================================================
