---- MODULE MC_Debounce ----
EXTENDS Debounce
NonDec(n, tmax) == {s \in [1..n -> 0..tmax] : \A i \in 1..n : i < n => s[i] <= s[i + 1]}
KeyPerms(n) == {k \in [1..n -> 1..n] : \A i, j \in 1..n : i # j => k[i] # k[j]}
LastT(s) == IF Len(s) = 0 THEN 0 ELSE s[Len(s)]
ScenOf(tt, keys, late) == {[t |-> tt, key |-> kk, endT |-> e] : kk \in keys, e \in {LastT(tt), late}}
Scen(nmax, tmax) == UNION {UNION {ScenOf(tt, KeyPerms(n), tmax + 1) : tt \in NonDec(n, tmax)} : n \in 0..nmax}
ScenFull == Scen(3, 5)
\* quick: the same arrival-time vectors, keys restricted to the reversed order / a rotation
KeyShapes2(n) == {[i \in 1..n |-> n + 1 - i], [i \in 1..n |-> (i % n) + 1]}
ScenQuick == UNION {UNION {ScenOf(tt, IF n < 3 THEN KeyShapes2(n) ELSE {[i \in 1..3 |-> (i % 3) + 1]}, 6) : tt \in NonDec(n, 5)} : n \in 0..3}
\* thorough: up to 5 items; keys restricted to three shapes (reverse, rotation, identity) to bound the product
KeyShapes(n) == {[i \in 1..n |-> n + 1 - i], [i \in 1..n |-> (i % n) + 1], [i \in 1..n |-> i]}
ScenThorough == UNION {UNION {ScenOf(tt, KeyShapes(n), 7) : tt \in NonDec(n, 6)} : n \in 4..5}
====
