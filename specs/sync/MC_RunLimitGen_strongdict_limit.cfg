CONSTANTS
  Insts <- I2
  Addrs <- A2
  Limits <- L12
  MaxRuns = 3
  MaxGen = 3
  Dev_TableKeepsSemaphores = TRUE
INIT Init
NEXT Next
INVARIANT Inv_OwnLimit
