CONSTANTS
  Procs = {"p1", "p2", "p3", "p4"}
  Keys = {"a", "b"}
  KeyOf <- KeyOf4
  MaxCancel = 3
SPECIFICATION FairSpec
INVARIANT TypeOK
INVARIANT Inv_Mutex
INVARIANT Inv_LockedIffHeld
INVARIANT Inv_Refs
INVARIANT Inv_Cleanup
INVARIANT Inv_Baton
PROPERTY Act_Independence
PROPERTY Live_Enters
