CONSTANTS
  Insts <- TraceInsts
  Addrs <- TraceAddrs
  Limits <- TraceLimits
  MaxRuns = 99
  MaxGen = 9999
  Dev_TableKeepsSemaphores = FALSE
INIT TraceInit
NEXT TraceNext
INVARIANT Inv_OwnLimit
INVARIANT Inv_NotThrottled
INVARIANT Inv_EntryIsOwn
INVARIANT Inv_NoStaleEntry
