---- MODULE TraceResources ----
(* Trace validation: are executions recorded from the real ResourceManager (driven through real     *)
(* step invocations) behaviours of Resources.tla?  One event = one driver command (begin p /         *)
(* release p) issued at a quiescence point and the projected manager + invocation state at the next  *)
(* quiescence point; every command is exactly one action of the spec (followed, in the design       *)
(* variant only, by the Wake steps of invocations it unblocked).                                      *)
EXTENDS Resources, Json, IOUtils

T == JsonDeserialize(IOEnv.TRACE_FILE)
TraceNames == LET TT == T IN {TT.names[k] : k \in 1..Len(TT.names)}
TraceProcs == LET TT == T IN {TT.procs[k] : k \in 1..Len(TT.procs)}
TraceDev == T.dev
ProgOf(i) == LET pr == T.traces[i].prog IN [deps |-> pr.deps, cache |-> pr.cache, asyncf |-> pr.asyncf, params |-> pr.params]
TracePrograms == LET TT == T.traces IN {[deps |-> TT[i].prog.deps, cache |-> TT[i].prog.cache,
                                          asyncf |-> TT[i].prog.asyncf, params |-> TT[i].prog.params] : i \in 1..Len(TT)}

VARIABLES tid, l, applied
tvars == <<vars, tid, l, applied>>
Tr == T.traces[tid]
Ev == Tr.events[l]

\* the state at the quiescence point against the recorded projection
MatchesNow(post) ==
  /\ \A p \in Procs : /\ (IF st[p].status = "waitfor" THEN "waiting" ELSE st[p].status) = post.status[p]
                     /\ (st[p].status = "done") => (st[p].inj = post.inj[p])   \* the body reports what it received
  /\ Len(objs) = Len(post.objs)
  /\ \A k \in 1..Len(objs) : objs[k].name = post.objs[k].name /\ objs[k].by = post.objs[k].by
                              /\ objs[k].deps = post.objs[k].deps
  /\ resolving = post.resolving /\ depth = post.depth
  /\ \A n \in Names : rc[n] = post.rc[n] /\ res[n] = post.res[n]

TraceInit == tid \in 1..Len(T.traces) /\ l = 1 /\ applied = FALSE /\ InitWith(ProgOf(tid))

\* the command is one action; in the design variant invocations woken by it (Wake) may run before quiescence
Cmd ==
  /\ l <= Len(Tr.events) /\ ~applied
  /\ \/ Ev.cmd[1] = "begin" /\ Begin(Ev.cmd[2])
     \/ Ev.cmd[1] = "release" /\ Release(Ev.cmd[2])
  /\ applied' = TRUE /\ UNCHANGED <<tid, l>>
Silent ==
  /\ l <= Len(Tr.events) /\ applied
  /\ \E p \in Procs : Wake(p)
  /\ UNCHANGED <<tid, l, applied>>
Match ==
  /\ l <= Len(Tr.events) /\ applied
  /\ MatchesNow(Ev.post)
  /\ PrintT(<<"P", tid, l>>)
  /\ l' = l + 1 /\ applied' = FALSE /\ UNCHANGED <<vars, tid>>

TraceNext == Cmd \/ Silent \/ Match
====
