CONSTANTS
  D = 2
  M = 4
  Scenarios <- ScenFull
  Dev_PassthroughOnSignal = TRUE
SPECIFICATION FairSpec
INVARIANT Inv_Once
INVARIANT Inv_AllOnce_KF
INVARIANT Inv_BurstFirst_KF
PROPERTY Live_Closes
