CONSTANTS
  Runs <- TraceRuns
  Insts <- TraceInsts
  InstOf <- TraceInstOf
  Limit <- TraceLimit
  MaxCancel = 1000
  MaxFail = 9
INIT TraceInit
NEXT TraceNext
INVARIANT Inv_Limit
INVARIANT Inv_Value
INVARIANT Inv_Baton
