CONSTANTS
  Srcs = {"a", "b", "c"}
  Programs <- Programs3
SPECIFICATION Spec
INVARIANT TypeOK
INVARIANT Inv_Order
INVARIANT Inv_Complete
INVARIANT Inv_Error
INVARIANT Inv_Tasks
