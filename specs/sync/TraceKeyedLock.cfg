CONSTANTS
  Procs <- TraceProcs
  Keys <- TraceKeys
  KeyOf <- TraceKeyOf
  MaxCancel = 1000
INIT TraceInit
NEXT TraceNext
INVARIANT Inv_Mutex
INVARIANT Inv_Refs
INVARIANT Inv_Baton
