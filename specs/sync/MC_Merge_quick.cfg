CONSTANTS
  Srcs = {"a", "b"}
  Programs <- Programs2
SPECIFICATION FairSpec
INVARIANT TypeOK
INVARIANT Inv_Order
INVARIANT Inv_Complete
INVARIANT Inv_Error
INVARIANT Inv_Tasks
PROPERTY Live_Closes
