CONSTANTS
  Runs = {"r1", "r2"}
  MaxSends = 3
  RuntimeHoldsTasks = TRUE
SPECIFICATION Spec
INVARIANT TypeOK
INVARIANT Inv_NoEventLost
INVARIANT Inv_LiveRunKept
INVARIANT Inv_BusyIsSafe
