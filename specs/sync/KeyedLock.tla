---------------------------- MODULE KeyedLock ----------------------------
(* llama_agents.server._keyed_lock.KeyedLock over asyncio.Lock (CPython 3.12).          *)
(*                                                                                        *)
(* Structured like the implementation: environment actions (Start, Release, Cancel) are   *)
(* what a caller / the event loop's user does; task steps (Arrive, Resume, CancelResume,  *)
(* Exit) are what a task does when the event loop runs it.  Each task step is one         *)
(* suspension-free section of the code:                                                   *)
(*   Arrive       = main-lock section (create lock, refs += 1) + asyncio.Lock.acquire     *)
(*                  up to its first suspension (fast path or enqueue a waiter future)     *)
(*   Resume       = acquire() after `await fut` returned: remove waiter, locked := True   *)
(*   CancelResume = acquire() after `await fut` raised CancelledError: remove waiter,     *)
(*                  pass the baton if the lock is free, then the `finally` main-lock      *)
(*                  section (refs -= 1, delete at 0)                                      *)
(*   Exit         = release() (locked := False, wake first waiter) + `finally` section    *)
(* Cancel on a pending waiter cancels its future at once (Future.cancel is synchronous);  *)
(* on an already woken waiter it only sets the task's must-cancel flag.                   *)
(**************************************************************************)
EXTENDS Naturals, Sequences, FiniteSets, TLC

CONSTANTS Procs, Keys, KeyOf, MaxCancel

VARIABLES
  pc,        \* Procs -> {"idle","start","wait","cs","exiting","done","cancelled"}
  why,       \* Procs -> {"ok","cancel"}   how an exiting holder leaves
  locked,    \* Keys -> BOOLEAN            asyncio.Lock._locked of the key's lock
  waiters,   \* Keys -> Seq([p, fut])      asyncio.Lock._waiters; fut in {"pending","woken","cancelled"}
  must,      \* Procs -> BOOLEAN           Task._must_cancel (cancel hit an already woken waiter)
  refs,      \* Keys -> Nat                KeyedLock._refs (0 = no entry)
  present,   \* Keys -> BOOLEAN            key in KeyedLock._locks
  ncancel

vars == <<pc, why, locked, waiters, must, refs, present, ncancel>>

K(p) == KeyOf[p]

Init ==
  /\ pc = [p \in Procs |-> "idle"]
  /\ why = [p \in Procs |-> "ok"]
  /\ locked = [k \in Keys |-> FALSE]
  /\ waiters = [k \in Keys |-> <<>>]
  /\ must = [p \in Procs |-> FALSE]
  /\ refs = [k \in Keys |-> 0]
  /\ present = [k \in Keys |-> FALSE]
  /\ ncancel = 0

WakeFirst(ws) ==
  IF ws = <<>> THEN ws
  ELSE IF ws[1].fut = "pending" THEN [ws EXCEPT ![1].fut = "woken"] ELSE ws

RemoveProc(ws, p) == SelectSeq(ws, LAMBDA w : w.p # p)

AllCancelled(ws) == \A i \in 1..Len(ws) : ws[i].fut = "cancelled"

FutOf(p) == LET ws == waiters[K(p)]
                i == CHOOSE i \in 1..Len(ws) : ws[i].p = p
            IN ws[i].fut

Unregister(k) ==
  /\ refs' = [refs EXCEPT ![k] = @ - 1]
  /\ present' = [present EXCEPT ![k] = (refs[k] - 1 > 0)]

----------------------------------------------------------------------------
(* environment *)
Start(p) ==
  /\ pc[p] = "idle"
  /\ pc' = [pc EXCEPT ![p] = "start"]
  /\ UNCHANGED <<why, locked, waiters, must, refs, present, ncancel>>

Release(p) ==
  /\ pc[p] = "cs"
  /\ pc' = [pc EXCEPT ![p] = "exiting"]
  /\ why' = [why EXCEPT ![p] = "ok"]
  /\ UNCHANGED <<locked, waiters, must, refs, present, ncancel>>

Cancel(p) ==
  /\ ncancel < MaxCancel
  /\ ncancel' = ncancel + 1
  /\ \/ /\ pc[p] = "start"                       \* cancelled before its first step: never runs
        /\ pc' = [pc EXCEPT ![p] = "cancelled"]
        /\ UNCHANGED <<why, locked, waiters, must, refs, present>>
     \/ /\ pc[p] \in {"cs", "exiting"}             \* CancelledError is thrown into the body
        /\ pc' = [pc EXCEPT ![p] = "exiting"]
        /\ why' = [why EXCEPT ![p] = "cancel"]
        /\ UNCHANGED <<locked, waiters, must, refs, present>>
     \/ /\ pc[p] = "wait" /\ ~must[p]
        /\ IF FutOf(p) = "pending"
             THEN /\ waiters' = [waiters EXCEPT ![K(p)] =
                        [i \in 1..Len(@) |-> IF @[i].p = p THEN [@[i] EXCEPT !.fut = "cancelled"] ELSE @[i]]]
                  /\ must' = must
             ELSE /\ must' = [must EXCEPT ![p] = TRUE]
                  /\ waiters' = waiters
        /\ UNCHANGED <<pc, why, locked, refs, present>>

(* task steps *)
Arrive(p) ==
  /\ pc[p] = "start"
  /\ LET k == K(p) IN
     /\ refs' = [refs EXCEPT ![k] = @ + 1]
     /\ present' = [present EXCEPT ![k] = TRUE]
     /\ IF ~locked[k] /\ AllCancelled(waiters[k])
          THEN /\ locked' = [locked EXCEPT ![k] = TRUE]
               /\ pc' = [pc EXCEPT ![p] = "cs"]
               /\ waiters' = waiters
          ELSE /\ waiters' = [waiters EXCEPT ![k] = Append(@, [p |-> p, fut |-> "pending"])]
               /\ pc' = [pc EXCEPT ![p] = "wait"]
               /\ locked' = locked
  /\ UNCHANGED <<why, must, ncancel>>

Resume(p) ==
  /\ pc[p] = "wait" /\ ~must[p] /\ FutOf(p) = "woken"
  /\ waiters' = [waiters EXCEPT ![K(p)] = RemoveProc(@, p)]
  /\ locked' = [locked EXCEPT ![K(p)] = TRUE]
  /\ pc' = [pc EXCEPT ![p] = "cs"]
  /\ UNCHANGED <<why, must, refs, present, ncancel>>

CancelResume(p) ==
  /\ pc[p] = "wait" /\ (must[p] \/ FutOf(p) = "cancelled")
  /\ LET k == K(p)
         ws == RemoveProc(waiters[k], p)
     IN /\ waiters' = [waiters EXCEPT ![k] = IF locked[k] THEN ws ELSE WakeFirst(ws)]
        /\ Unregister(k)
  /\ pc' = [pc EXCEPT ![p] = "cancelled"]
  /\ must' = [must EXCEPT ![p] = FALSE]
  /\ UNCHANGED <<why, locked, ncancel>>

Exit(p) ==
  /\ pc[p] = "exiting"
  /\ LET k == K(p) IN
     /\ locked' = [locked EXCEPT ![k] = FALSE]
     /\ waiters' = [waiters EXCEPT ![k] = WakeFirst(@)]
     /\ Unregister(k)
  /\ pc' = [pc EXCEPT ![p] = IF why[p] = "ok" THEN "done" ELSE "cancelled"]
  /\ UNCHANGED <<why, must, ncancel>>

TaskStep(p) == Arrive(p) \/ Resume(p) \/ CancelResume(p) \/ Exit(p)
EnvStep(p) == Start(p) \/ Release(p) \/ Cancel(p)

Next == \E p \in Procs : TaskStep(p) \/ EnvStep(p)

Spec == Init /\ [][Next]_vars
FairSpec == Spec /\ \A p \in Procs : WF_vars(TaskStep(p)) /\ WF_vars(Release(p))

----------------------------------------------------------------------------
(* C25 *)
Holders(k) == {p \in Procs : K(p) = k /\ pc[p] \in {"cs", "exiting"}}
Interested(k) == {p \in Procs : K(p) = k /\ pc[p] \in {"wait", "cs", "exiting"}}

Inv_Mutex == \A k \in Keys : Cardinality(Holders(k)) <= 1
Inv_LockedIffHeld == \A k \in Keys : locked[k] <=> Holders(k) # {}
Inv_Refs == \A k \in Keys : /\ refs[k] = Cardinality(Interested(k))
                            /\ present[k] <=> refs[k] > 0
Inv_Cleanup == (\A p \in Procs : pc[p] \in {"idle", "done", "cancelled"})
                 => \A k \in Keys : ~present[k] /\ refs[k] = 0 /\ waiters[k] = <<>> /\ ~locked[k]
(* no lost wake-up: a free lock with waiters always has a runnable waiter task *)
Inv_Baton == \A k \in Keys : (~locked[k] /\ waiters[k] # <<>>) =>
                \E i \in 1..Len(waiters[k]) :
                   waiters[k][i].fut \in {"woken", "cancelled"} \/ must[waiters[k][i].p]
(* holders of different keys do not block each other: a task only ever waits when its own *)
(* key is held or already has waiters                                                     *)
Act_Independence == [][\A p \in Procs : (pc[p] = "start" /\ pc'[p] = "wait")
                          => (locked[K(p)] \/ waiters[K(p)] # <<>>)]_vars
(* every waiter eventually enters (or is cancelled) *)
Live_Enters == \A p \in Procs : (pc[p] = "wait") ~> (pc[p] # "wait")

TypeOK ==
  /\ pc \in [Procs -> {"idle", "start", "wait", "cs", "exiting", "done", "cancelled"}]
  /\ \A k \in Keys : \A i \in 1..Len(waiters[k]) : waiters[k][i].fut \in {"pending", "woken", "cancelled"}
=============================================================================
