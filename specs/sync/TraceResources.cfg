CONSTANTS
  Names <- TraceNames
  Procs <- TraceProcs
  Programs <- TracePrograms
  Dev_SharedResolutionState <- TraceDev
INIT TraceInit
NEXT TraceNext
INVARIANT Inv_CachedOnce
INVARIANT Inv_CycleReported
INVARIANT Inv_Rest
