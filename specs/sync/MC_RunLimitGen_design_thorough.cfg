CONSTANTS
  Insts <- I2
  Addrs <- A3
  Limits <- L123
  MaxRuns = 4
  MaxGen = 6
  Dev_TableKeepsSemaphores = FALSE
INIT Init
NEXT Next
INVARIANT TypeOK
INVARIANT Inv_OwnLimit
INVARIANT Inv_NotThrottled
INVARIANT Inv_EntryIsOwn
INVARIANT Inv_NoStaleEntry
INVARIANT Inv_Value
