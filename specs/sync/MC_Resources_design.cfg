CONSTANTS
  Names = {"a", "b"}
  Procs = {"p1", "p2"}
  Programs <- Programs2
  Dev_SharedResolutionState = FALSE
SPECIFICATION FairSpec
INVARIANT Inv_CachedOnce
INVARIANT Inv_FreshPerInvocation
INVARIANT Inv_CycleReported
INVARIANT Inv_NoFalseCycle
INVARIANT Inv_Rest
PROPERTY Live_Terminates
