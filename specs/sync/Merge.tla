------------------------------- MODULE Merge -------------------------------
(* llama_agents.core.iter_utils.merge_generators (stop_on_first_completion=False).           *)
(*                                                                                            *)
(* Shaped like the code: one pending `anext` task per source (next_item_tasks), the          *)
(* `await asyncio.wait(..., FIRST_COMPLETED)` whose `done` set may contain any number of      *)
(* finished tasks and is iterated in an arbitrary order (it is a Python set), the             *)
(* completed_results list that is yielded item by item, the re-arming create_task after each  *)
(* yield, the exception_to_raise flag and the `finally` clean-up.                             *)
(*                                                                                            *)
(*   Produce(s)       environment: the pending anext task of source s finishes (next item,    *)
(*                    StopAsyncIteration or an exception), as the source's script says        *)
(*   Pull             the consumer asks for the next item: the generator body runs from its   *)
(*                    current suspension (start, or after a `yield`) to the next one          *)
(*   WaitReturn(ord)  `asyncio.wait` returns; `done` = every finished task, iterated in the   *)
(*                    order `ord`; the body runs up to the next yield / wait / the end        *)
(* A source's items are [s |-> s, i |-> 1..len[s]]; term[s] says how it ends.                 *)
(****************************************************************************)
EXTENDS Naturals, Sequences, FiniteSets, TLC

CONSTANTS Srcs, Programs      \* Programs: set of [len: Srcs -> Nat, term: Srcs -> {"end","err"}]

VARIABLES
  prog,      \* the program chosen in Init (never changes)
  pos,       \* Srcs -> Nat        items produced so far by the source
  task,      \* Srcs -> {"none","pending","item","end","err"}   state/result of next_item_tasks[s]
  intasks,   \* Srcs -> BOOLEAN    s in next_item_tasks
  active,    \* Srcs -> BOOLEAN    s in active_generators
  mpc,       \* "init" | "wait" | "yielded" | "closed"
  cur,       \* source whose item the consumer currently holds ("-" if none)
  batch,     \* Seq(Srcs)          completed_results still to be yielded
  out,       \* Seq([s, i])        what the consumer received
  exc,       \* "-" or the source whose exception is exception_to_raise
  result     \* "none" | "ended" | "raised"

vars == <<prog, pos, task, intasks, active, mpc, cur, batch, out, exc, result>>

Item(s, i) == [s |-> s, i |-> i]

Perms(S) == {f \in [1..Cardinality(S) -> S] : \A i, j \in 1..Cardinality(S) : i # j => f[i] # f[j]}

InitWith(p) ==
  /\ prog = p
  /\ pos = [s \in Srcs |-> 0]
  /\ task = [s \in Srcs |-> "none"]
  /\ intasks = [s \in Srcs |-> FALSE]
  /\ active = [s \in Srcs |-> FALSE]
  /\ mpc = "init" /\ cur = "-" /\ batch = <<>> /\ out = <<>> /\ exc = "-" /\ result = "none"
Init == \E p \in Programs : InitWith(p)

----------------------------------------------------------------------------
Produce(s) ==
  /\ task[s] = "pending"
  /\ IF pos[s] < prog.len[s]
       THEN /\ task' = [task EXCEPT ![s] = "item"]
            /\ pos' = [pos EXCEPT ![s] = @ + 1]
       ELSE /\ task' = [task EXCEPT ![s] = prog.term[s]]
            /\ pos' = pos
  /\ UNCHANGED <<prog, intasks, active, mpc, cur, batch, out, exc, result>>

(* the `finally` block: cancel what is pending, close the generators, then return / raise *)
Finish(ex) ==
  /\ mpc' = "closed"
  /\ result' = IF ex # "-" THEN "raised" ELSE "ended"
  /\ cur' = "-" /\ batch' = <<>>

(* `while next_item_tasks and exception_to_raise is None` *)
LoopCheck(tk, it, ex) ==
  IF (\E s \in Srcs : it[s]) /\ ex = "-"
    THEN /\ mpc' = "wait" /\ cur' = "-" /\ batch' = <<>> /\ result' = result /\ task' = tk
    ELSE /\ Finish(ex)
         /\ task' = [s \in Srcs |-> IF tk[s] = "pending" THEN "none" ELSE tk[s]]

(* pop the finished task of Head(b) and yield its value *)
YieldHead(tk, it, b) ==
  LET h == Head(b) IN
  /\ task' = [tk EXCEPT ![h] = "none"]
  /\ intasks' = [it EXCEPT ![h] = FALSE]
  /\ out' = Append(out, Item(h, pos[h]))
  /\ cur' = h /\ batch' = Tail(b) /\ mpc' = "yielded" /\ result' = result

Pull ==
  \/ /\ mpc = "init"
     /\ Srcs # {}
     /\ task' = [s \in Srcs |-> "pending"]
     /\ intasks' = [s \in Srcs |-> TRUE]
     /\ active' = [s \in Srcs |-> TRUE]
     /\ mpc' = "wait"
     /\ UNCHANGED <<prog, pos, cur, batch, out, exc, result>>
  \/ /\ mpc = "yielded"
     /\ LET rearm == active[cur]                \* create_task(anext(active_gen))
            tk == IF rearm THEN [task EXCEPT ![cur] = "pending"] ELSE task
            it == IF rearm THEN [intasks EXCEPT ![cur] = TRUE] ELSE intasks
        IN IF batch # <<>>
             THEN YieldHead(tk, it, batch)
             ELSE /\ LoopCheck(tk, it, exc) /\ intasks' = it /\ out' = out
     /\ UNCHANGED <<prog, pos, active, exc>>

(* the loop over `done`: items are collected, an exhausted source is dropped, an exception *)
(* stops the loop (what was collected before it is still yielded)                          *)
RECURSIVE Proc(_, _, _, _)
Proc(ord, k, res, ended) ==
  IF k > Len(ord) THEN [res |-> res, ex |-> "-", ended |-> ended]
  ELSE LET s == ord[k] IN
       IF task[s] = "item" THEN Proc(ord, k + 1, Append(res, s), ended)
       ELSE IF task[s] = "end" THEN Proc(ord, k + 1, res, ended \cup {s})
       ELSE [res |-> res, ex |-> s, ended |-> ended]

Done == {s \in Srcs : intasks[s] /\ task[s] \in {"item", "end", "err"}}

WaitReturn(ord) ==
  /\ mpc = "wait"
  /\ Done # {}
  /\ ord \in Perms(Done)
  /\ LET r == Proc(ord, 1, <<>>, {})
         tk == [s \in Srcs |-> IF s \in r.ended THEN "none" ELSE task[s]]
         it == [s \in Srcs |-> intasks[s] /\ s \notin r.ended]
     IN /\ active' = [s \in Srcs |-> active[s] /\ s \notin r.ended]
        /\ exc' = r.ex
        /\ IF r.res # <<>>
             THEN YieldHead(tk, it, r.res)
             ELSE /\ LoopCheck(tk, it, r.ex) /\ intasks' = it /\ out' = out
  /\ UNCHANGED <<prog, pos>>

Next == (\E s \in Srcs : Produce(s)) \/ Pull \/ (\E o \in Perms(Done) : WaitReturn(o))

Spec == Init /\ [][Next]_vars
FairSpec == Spec /\ WF_vars(Pull) /\ (\A s \in Srcs : WF_vars(Produce(s)))
                 /\ WF_vars(\E o \in Perms(Done) : WaitReturn(o))

----------------------------------------------------------------------------
(* C29, merge_generators *)
OutOf(s) == SelectSeq(out, LAMBDA x : x.s = s)

(* every input's items appear in the input's order, none twice, none invented *)
Inv_Order == \A s \in Srcs :
   /\ Len(OutOf(s)) <= pos[s]
   /\ \A k \in 1..Len(OutOf(s)) : OutOf(s)[k] = Item(s, k)
(* a normal end means every item of every input was yielded *)
Inv_Complete == (result = "ended") =>
   \A s \in Srcs : prog.term[s] = "end" /\ Len(OutOf(s)) = prog.len[s]
(* an input's error is re-raised (after that input's own earlier items) *)
Inv_Error == /\ (result = "raised") => (exc \in Srcs /\ prog.term[exc] = "err"
                                         /\ Len(OutOf(exc)) = prog.len[exc])
             /\ (mpc = "closed" /\ \E s \in Srcs : prog.term[s] = "err") => result = "raised"
(* one pending task per live source while waiting; nothing lost inside the machinery *)
Inv_Tasks == /\ \A s \in Srcs : (task[s] # "none" /\ mpc # "closed") => intasks[s]
             /\ mpc = "wait" => \A s \in Srcs : active[s] => intasks[s]
Live_Closes == <>(mpc = "closed")

TypeOK ==
  /\ mpc \in {"init", "wait", "yielded", "closed"}
  /\ \A s \in Srcs : task[s] \in {"none", "pending", "item", "end", "err"}
  /\ result \in {"none", "ended", "raised"}
=============================================================================
