CONSTANTS
  D = 2
  M = 5
  Scenarios <- ScenThorough
  Dev_PassthroughOnSignal = TRUE
SPECIFICATION FairSpec
INVARIANT Inv_Once
INVARIANT Inv_AllOnce_KF
INVARIANT Inv_BurstFirst_KF
PROPERTY Live_Closes
