CONSTANTS
  Runs = {"r1", "r2"}
  MaxSends = 3
  RuntimeHoldsTasks = FALSE
SPECIFICATION Spec
INVARIANT TypeOK
INVARIANT Inv_BusyIsSafe
INVARIANT Inv_NoEventLost
