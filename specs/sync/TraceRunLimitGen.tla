---- MODULE TraceRunLimitGen ----
(* Trace validation for RunLimitGen.tla: histories recorded from ONE real BasicRuntime over several  *)
(* generations of workflow instances and event loops.  Lines:                                         *)
(*   create {i, addr, limit}   a workflow object was made (addr = index of its id() among the ids seen) *)
(*   start {i} / finish {i}    workflow.run() was called / a run's step body was let go              *)
(*   die {i}                   the object was dropped and collected                                   *)
(*   obs {present, holding, waiting}   at a quiescence point: which addresses have an entry in        *)
(*                             runtime._max_concurrent_runs, how many bodies of each live instance    *)
(*                             are executing, how many runs are queued                                *)
(* The spec's invariants are evaluated on every state of the validated behaviour.                     *)
EXTENDS RunLimitGen, Json, IOUtils, Sequences

T == JsonDeserialize(IOEnv.TRACE_FILE)
TraceInsts == LET TT == T IN {TT.insts[k] : k \in 1..Len(TT.insts)}
TraceAddrs == 1..T.naddr
TraceLimits == 1..9

VARIABLES tid, l
Tr == T.traces[tid]
Ev == Tr[l]

TraceInit == Init /\ tid \in 1..Len(T.traces) /\ l = 1

Matches(e) ==
  /\ \A a \in DOMAIN e.present : table[a].present = e.present[a]
  /\ \A i \in DOMAIN e.holding : holding[i] = e.holding[i] /\ waiting[i] = e.waiting[i]

Line ==
  /\ l <= Len(Tr)
  /\ \/ Ev.e = "create" /\ Create(Ev.i, Ev.addr, Ev.limit)
     \/ Ev.e = "start" /\ Start(Ev.i)
     \/ Ev.e = "finish" /\ Finish(Ev.i)
     \/ Ev.e = "die" /\ Die(Ev.i)
     \/ Ev.e = "obs" /\ Matches(Ev) /\ UNCHANGED vars
  /\ PrintT(<<"P", tid, l>>)
  /\ l' = l + 1 /\ UNCHANGED tid

TraceNext == Line
====
