---- MODULE TraceRunLimit ----
(* Trace validation: are executions recorded from the real BasicRuntime (num_concurrent_runs)       *)
(* behaviours of RunLimit.tla?  One event = a batch of driver commands (start/finish/fail/cancel) issued  *)
(* at a quiescence point of the event loop, followed by the projected state at the next quiescence  *)
(* point; the task steps in between are inferred by TLC.  start/cancel reach the runtime through    *)
(* loop.call_soon, so they may interleave with task steps of the same batch.                        *)
EXTENDS RunLimit, Json, IOUtils

T == JsonDeserialize(IOEnv.TRACE_FILE)
TraceRuns == LET TT == T IN {TT.runs[k] : k \in 1..Len(TT.runs)}
TraceInsts == LET TT == T IN {TT.insts[k] : k \in 1..Len(TT.insts)}
TraceInstOf == T.instof
TraceLimit == T.limit

VARIABLES tid, l, ci
tvars == <<vars, tid, l, ci>>
Tr == T.traces[tid]
Ev == Tr[l]

Matches(post) ==
  /\ \A r \in Runs : pc[r] = post.pc[r]
  /\ \A i \in Insts : /\ value[i] = post.value[i]
                      /\ Len(waiters[i]) = Len(post.waiters[i])
                      /\ \A k \in 1..Len(waiters[i]) : waiters[i][k].fut = post.waiters[i][k]

TraceInit == Init /\ tid \in 1..Len(T.traces) /\ l = 1 /\ ci = 1

ApplyCmd ==
  /\ l <= Len(Tr) /\ ci <= Len(Ev.cmds)
  /\ LET c == Ev.cmds[ci] IN
       \/ c[1] = "start" /\ Start(c[2])
       \/ c[1] = "finish" /\ Finish(c[2])
       \/ c[1] = "fail" /\ Fail(c[2])
       \/ c[1] = "cancel" /\ Cancel(c[2])
  /\ ci' = ci + 1 /\ UNCHANGED <<tid, l>>

Silent ==
  /\ l <= Len(Tr)
  /\ \E r \in Runs : TaskStep(r)
  /\ UNCHANGED <<tid, l, ci>>

Match ==
  /\ l <= Len(Tr) /\ ci > Len(Ev.cmds)
  /\ Matches(Ev.post)
  /\ PrintT(<<"P", tid, l>>)
  /\ l' = l + 1 /\ ci' = 1 /\ UNCHANGED <<vars, tid>>

TraceNext == ApplyCmd \/ Silent \/ Match
====
