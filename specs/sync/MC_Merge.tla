---- MODULE MC_Merge ----
EXTENDS Merge
\* sources are strings so that the same values appear in implementation traces
Progs(S, maxlen, maxerr) ==
  {p \in [len : [S -> 0..maxlen], term : [S -> {"end", "err"}]] :
      Cardinality({s \in S : p.term[s] = "err"}) <= maxerr}
Programs2 == Progs({"a", "b"}, 2, 1)
Programs3 == Progs({"a", "b", "c"}, 2, 1)
Programs3x3 == {p \in Progs({"a", "b", "c"}, 3, 1) : p.len["a"] >= p.len["b"] /\ p.len["b"] >= p.len["c"]}
====
