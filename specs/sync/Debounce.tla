------------------------------ MODULE Debounce ------------------------------
(* llama_agents.core.iter_utils.debounced_sorted_prefix = Debouncer + merge_generators(inner,  *)
(* debouncer.aiter()) + the buffering consumer loop, with an eager outer consumer.             *)
(*                                                                                             *)
(* Integer time.  The scenario (arrival times and keys of the inner items, time of the inner   *)
(* stream's end) is chosen in Init.  One action per suspension-free section:                   *)
(*   Arrive / EndArrive  the pending anext task of `inner` finishes (item i / exhaustion)      *)
(*   LoopWake            Debouncer._loop wakes from its sleep: sets complete_signal if the      *)
(*                       (possibly extended) window is over, else sleeps again                 *)
(*   MarkerReady         aiter()'s anext task, woken by the signal, finishes with __COMPLETE__ *)
(*   MarkerEnds          the re-armed anext task of aiter() finishes with StopAsyncIteration   *)
(*   DoneBatch(ord)      asyncio.wait returns; the `done` set (any order) is processed by       *)
(*                       merge_generators and every collected value by the consumer loop:      *)
(*                       buffer+extend_window / pass through / flush the sorted buffer         *)
(*   Tick                the clock advances when nothing is runnable                           *)
(* Dev_PassthroughOnSignal = TRUE is the code as it is: an item is passed through as soon as   *)
(* `debouncer.is_complete` (the signal) is set, even though the __COMPLETE__ marker that       *)
(* flushes the buffer has not been consumed yet.  FALSE = intended design: pass through only   *)
(* after the flush.                                                                            *)
(*****************************************************************************)
EXTENDS Naturals, Sequences, FiniteSets, TLC

CONSTANTS D, M, Scenarios, Dev_PassthroughOnSignal
\* a scenario: [t : Seq(Nat) nondecreasing, key : Seq(Nat) distinct, endT : Nat]

VARIABLES
  scen, now,
  nextArr,      \* index of the next inner element to arrive (N+1 = the end, N+2 = nothing left)
  innerTask,    \* "none" | "pending" | "item" | "end"
  innerVal,     \* the item the finished inner task carries (0 = none)
  markTask,     \* "none" | "pending" | "marker" | "ending" | "end"
  completeTime, \* Debouncer.complete_time
  loopAlive, loopTimer,   \* Debouncer._loop sleeping until loopTimer
  signal,       \* complete_signal.is_set()
  buffer, out, flushed,
  closed,
  H_early       \* history: an item was passed through before the flush while the buffer was not empty

vars == <<scen, now, nextArr, innerTask, innerVal, markTask, completeTime, loopAlive, loopTimer,
          signal, buffer, out, flushed, closed, H_early>>

N == Len(scen.t)
Min(a, b) == IF a < b THEN a ELSE b
ByKey(s) == SortSeq(s, LAMBDA a, b : scen.key[a] < scen.key[b])
Perms(S) == {f \in [1..Cardinality(S) -> S] : \A i, j \in 1..Cardinality(S) : i # j => f[i] # f[j]}

InitWith(sc) ==
  /\ scen = sc
  /\ now = 0 /\ nextArr = 1
  /\ innerTask = "pending" /\ innerVal = 0 /\ markTask = "pending"
  /\ completeTime = D /\ loopAlive = TRUE /\ loopTimer = Min(D, M)
  /\ signal = FALSE /\ buffer = <<>> /\ out = <<>> /\ flushed = FALSE /\ closed = FALSE
  /\ H_early = FALSE
Init == \E sc \in Scenarios : InitWith(sc)

Arrive ==
  /\ innerTask = "pending" /\ nextArr <= N /\ scen.t[nextArr] <= now
  /\ innerTask' = "item" /\ innerVal' = nextArr /\ nextArr' = nextArr + 1
  /\ UNCHANGED <<scen, now, markTask, completeTime, loopAlive, loopTimer, signal, buffer, out, flushed, closed, H_early>>

EndArrive ==
  /\ innerTask = "pending" /\ nextArr = N + 1 /\ scen.endT <= now
  /\ innerTask' = "end" /\ nextArr' = N + 2
  /\ UNCHANGED <<scen, now, innerVal, markTask, completeTime, loopAlive, loopTimer, signal, buffer, out, flushed, closed, H_early>>

LoopWake ==
  /\ loopAlive /\ loopTimer <= now
  /\ IF Min(completeTime, M) <= now
       THEN signal' = TRUE /\ loopAlive' = FALSE /\ loopTimer' = loopTimer
       ELSE signal' = signal /\ loopAlive' = TRUE /\ loopTimer' = Min(completeTime, M)
  /\ UNCHANGED <<scen, now, nextArr, innerTask, innerVal, markTask, completeTime, buffer, out, flushed, closed, H_early>>

MarkerReady ==
  /\ signal /\ markTask = "pending"
  /\ markTask' = "marker"
  /\ UNCHANGED <<scen, now, nextArr, innerTask, innerVal, completeTime, loopAlive, loopTimer, signal, buffer, out, flushed, closed, H_early>>

MarkerEnds ==
  /\ markTask = "ending"
  /\ markTask' = "end"
  /\ UNCHANGED <<scen, now, nextArr, innerTask, innerVal, completeTime, loopAlive, loopTimer, signal, buffer, out, flushed, closed, H_early>>

DoneSet == (IF innerTask \in {"item", "end"} THEN {"inner"} ELSE {})
             \cup (IF markTask \in {"marker", "end"} THEN {"mark"} ELSE {})

\* the consumer loop of debounced_sorted_prefix applied to the values merge_generators yields, in order
RECURSIVE Consume(_, _, _)
Consume(ord, k, st) ==
  IF k > Len(ord) THEN st
  ELSE IF ord[k] = "inner" /\ innerTask = "item" THEN
         LET pass == IF Dev_PassthroughOnSignal THEN signal ELSE st.flushed IN
         IF pass
           THEN Consume(ord, k + 1, [st EXCEPT !.out = Append(@, innerVal),
                                               !.early = @ \/ (~st.flushed /\ st.buffer # <<>>)])
           ELSE Consume(ord, k + 1, [st EXCEPT !.buffer = Append(@, innerVal), !.ct = now + D])
       ELSE IF ord[k] = "mark" /\ markTask = "marker" THEN
         Consume(ord, k + 1, [st EXCEPT !.out = @ \o ByKey(st.buffer), !.buffer = <<>>, !.flushed = TRUE])
       ELSE Consume(ord, k + 1, st)

DoneBatch(ord) ==
  /\ ~closed /\ DoneSet # {} /\ ord \in Perms(DoneSet)
  /\ LET st == Consume(ord, 1, [out |-> out, buffer |-> buffer, flushed |-> flushed,
                                ct |-> completeTime, early |-> H_early])
         it == IF innerTask = "item" THEN "pending" ELSE IF innerTask = "end" THEN "none" ELSE innerTask
         mt == IF markTask = "marker" THEN "ending" ELSE IF markTask = "end" THEN "none" ELSE markTask
     IN /\ out' = st.out /\ buffer' = st.buffer /\ flushed' = st.flushed
        /\ completeTime' = st.ct /\ H_early' = st.early
        /\ innerTask' = it /\ markTask' = mt
        /\ innerVal' = 0
        /\ closed' = (it = "none" /\ mt = "none")
  /\ UNCHANGED <<scen, now, nextArr, loopAlive, loopTimer, signal>>

Runnable ==
  \/ ENABLED Arrive \/ ENABLED EndArrive \/ ENABLED LoopWake
  \/ ENABLED MarkerReady \/ ENABLED MarkerEnds
  \/ (~closed /\ DoneSet # {})

Horizon == scen.endT + D + M + 1

Tick ==
  /\ ~closed /\ ~Runnable /\ now < Horizon
  /\ now' = now + 1
  /\ UNCHANGED <<scen, nextArr, innerTask, innerVal, markTask, completeTime, loopAlive, loopTimer,
                 signal, buffer, out, flushed, closed, H_early>>

Next == Arrive \/ EndArrive \/ LoopWake \/ MarkerReady \/ MarkerEnds
          \/ (\E o \in Perms(DoneSet) : DoneBatch(o)) \/ Tick
Spec == Init /\ [][Next]_vars
FairSpec == Spec /\ WF_vars(Next)

----------------------------------------------------------------------------
(* C29, debounced_sorted_prefix *)
Arrived == [i \in 1..(IF nextArr > N THEN N ELSE nextArr - 1) |-> i]
All == [i \in 1..N |-> i]
ToSet(s) == {s[i] : i \in 1..Len(s)}
(* never twice, never invented *)
Inv_Once == /\ \A i, j \in 1..Len(out) : i # j => out[i] # out[j]
            /\ ToSet(out) \cup ToSet(buffer) \subseteq ToSet(Arrived)
(* at the end: every item, the burst sorted first, then the rest in arrival order *)
\* the documented window closes D after the last item that arrived while it was open, at most at M; the burst holds at
\* least the items that arrived before that moment and at most those that arrived up to it
RECURSIVE Win(_, _)
Win(i, c) == IF i > N THEN Min(c, M)
             ELSE IF scen.t[i] < Min(c, M) THEN Win(i + 1, scen.t[i] + D) ELSE Win(i + 1, c)
W == Win(1, D)
NEarly == Cardinality({i \in 1..N : scen.t[i] < W})
\* latest close: an item arriving at the very instant the window would close may still be taken into it and extend it
RECURSIVE WinLe(_, _)
WinLe(i, c) == IF i > N THEN Min(c, M)
               ELSE IF scen.t[i] <= Min(c, M) THEN WinLe(i + 1, scen.t[i] + D) ELSE WinLe(i + 1, c)
WLate == WinLe(1, D)
NLate == Cardinality({i \in 1..N : scen.t[i] <= WLate})
SplitOK(o) == \E k \in NEarly..NLate : o = ByKey(SubSeq(All, 1, k)) \o SubSeq(All, k + 1, N)
Inv_BurstFirst == closed => SplitOK(out)
(* the same with the known failure shape carved out (used when Dev_PassthroughOnSignal = TRUE) *)
Inv_BurstFirst_KF == (closed /\ ~H_early) => SplitOK(out)
Inv_AllOnce_KF == closed => (Len(out) = N /\ ToSet(out) = ToSet(All))
(* nothing is passed through before the flush while something is buffered *)
Inv_NoEarly == ~H_early
Live_Closes == <>closed
=============================================================================
