---- MODULE TraceMerge ----
(* Trace validation: are executions recorded from the real merge_generators behaviours of Merge.tla? *)
(* One event = a batch of driver commands (produce s / pull) issued at a quiescence point of the     *)
(* event loop, the order in which `done` collections were iterated, and the projected state at the   *)
(* next quiescence point.  The WaitReturn steps in between are inferred by TLC.                      *)
EXTENDS Merge, Json, IOUtils

T == JsonDeserialize(IOEnv.TRACE_FILE)
TraceSrcs == LET TT == T IN {TT.srcs[i] : i \in 1..Len(TT.srcs)}

VARIABLES tid, l, ci
tvars == <<vars, tid, l, ci>>

Tr == T.traces[tid]
Ev == Tr.events[l]

Restrict(seq, S) == SelectSeq(seq, LAMBDA x : x \in S)

Matches(post) ==
  /\ mpc = post.mpc /\ result = post.result
  /\ Len(out) = Len(post.out)
  /\ \A k \in 1..Len(out) : out[k].s = post.out[k].s /\ out[k].i = post.out[k].i
  /\ \A s \in Srcs : pos[s] = post.pos[s] /\ ((task[s] = "pending") <=> post.pending[s])
  /\ (result = "raised") => exc = post.exc

TraceInit == /\ tid \in 1..Len(T.traces) /\ l = 1 /\ ci = 1
             /\ InitWith([len |-> T.traces[tid].len, term |-> T.traces[tid].term])

ApplyCmd ==
  /\ l <= Len(Tr.events) /\ ci <= Len(Ev.cmds)
  /\ LET c == Ev.cmds[ci] IN
       \/ c[1] = "produce" /\ Produce(c[2])
       \* the gate of a source whose task the `finally` block has just cancelled (same batch): nothing happens
       \/ c[1] = "produce" /\ mpc = "closed" /\ task[c[2]] = "none" /\ UNCHANGED vars
       \/ c[1] = "pull" /\ Pull
  /\ ci' = ci + 1 /\ UNCHANGED <<tid, l>>

Silent ==
  /\ l <= Len(Tr.events) /\ ci > Len(Ev.cmds)
  /\ WaitReturn(Restrict(Ev.order, Done))
  /\ UNCHANGED <<tid, l, ci>>

Match ==
  /\ l <= Len(Tr.events) /\ ci > Len(Ev.cmds)
  /\ Matches(Ev.post)
  /\ PrintT(<<"P", tid, l>>)
  /\ l' = l + 1 /\ ci' = 1 /\ UNCHANGED <<vars, tid>>

TraceNext == ApplyCmd \/ Silent \/ Match
TraceSpec == TraceInit /\ [][TraceNext]_tvars
AnyProg == LET TT == T.traces IN {[len |-> TT[i].len, term |-> TT[i].term] : i \in 1..Len(TT)}
====
