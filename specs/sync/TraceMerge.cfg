CONSTANTS
  Srcs <- TraceSrcs
  Programs <- AnyProg
INIT TraceInit
NEXT TraceNext
INVARIANT Inv_Order
INVARIANT Inv_Complete
INVARIANT Inv_Error
INVARIANT Inv_Tasks
