CONSTANTS
  Runs = {"r1", "r2", "r3", "r4", "r5", "r6"}
  Insts = {"w1", "w2"}
  InstOf <- InstOf6
  Limit <- Limit31
  MaxCancel = 1
  MaxFail = 1
SPECIFICATION FairSpec
INVARIANT TypeOK
INVARIANT Inv_Limit
INVARIANT Inv_Value
INVARIANT Inv_Baton
INVARIANT Inv_Cleanup
PROPERTY Act_Independence
PROPERTY Live_Executes
