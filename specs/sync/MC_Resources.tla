---- MODULE MC_Resources ----
EXTENDS Resources
\* ---- 2 resources, 2 invocations
D2none == [a |-> <<>>, b |-> <<>>]
D2dep == [a |-> <<>>, b |-> <<"a">>]
D2cyc == [a |-> <<"b">>, b |-> <<"a">>]
D2self == [a |-> <<>>, b |-> <<"b">>]      \* a is free, b depends on itself: <<a, b>> creates a, then ends with the cycle error
A2 == {[a |-> TRUE, b |-> TRUE], [a |-> TRUE, b |-> FALSE], [a |-> FALSE, b |-> TRUE]}
L2 == {<<"a">>, <<"b">>, <<"b", "a">>, <<"a", "b">>}
Rank2(l) == IF l = <<"a">> THEN 1 ELSE IF l = <<"b">> THEN 2 ELSE IF l = <<"b", "a">> THEN 3 ELSE 4
Programs2 == {pr \in [deps : {D2none, D2dep, D2cyc, D2self}, cache : [{"a", "b"} -> BOOLEAN], asyncf : A2,
                      params : [{"p1", "p2"} -> L2]] : Rank2(pr.params["p1"]) <= Rank2(pr.params["p2"])}
\* ---- 3 resources, 3 invocations
D3chain == [a |-> <<>>, b |-> <<"a">>, c |-> <<"b">>]
D3dia == [a |-> <<>>, b |-> <<"a">>, c |-> <<"b", "a">>]
D3cyc == [a |-> <<"c">>, b |-> <<"a">>, c |-> <<"b">>]
D3part == [a |-> <<>>, b |-> <<"c">>, c |-> <<"b">>]
A3 == {[a |-> TRUE, b |-> TRUE, c |-> TRUE], [a |-> TRUE, b |-> FALSE, c |-> TRUE]}
L3 == {<<"a">>, <<"b">>, <<"c">>, <<"c", "a">>, <<"a", "c">>}
Rank3(l) == IF l = <<"a">> THEN 1 ELSE IF l = <<"b">> THEN 2 ELSE IF l = <<"c">> THEN 3 ELSE IF l = <<"c", "a">> THEN 4 ELSE 5
Programs3 == {pr \in [deps : {D3chain, D3dia, D3cyc, D3part}, cache : [{"a", "b", "c"} -> BOOLEAN],
                      asyncf : A3, params : [{"p1", "p2", "p3"} -> L3]] :
                 Rank3(pr.params["p1"]) <= Rank3(pr.params["p2"]) /\ Rank3(pr.params["p2"]) <= Rank3(pr.params["p3"])}
====
