---- MODULE MC_KeyedLock ----
EXTENDS KeyedLock
\* processes and keys are strings so that the same values appear in implementation traces
KeyOf3 == [p1 |-> "a", p2 |-> "a", p3 |-> "b"]
KeyOf3a == [p1 |-> "a", p2 |-> "a", p3 |-> "a"]
KeyOf4 == [p1 |-> "a", p2 |-> "a", p3 |-> "a", p4 |-> "b"]
====
