CONSTANTS
  Names = {"a", "b", "c"}
  Procs = {"p1", "p2", "p3"}
  Programs <- Programs3
  Dev_SharedResolutionState = TRUE
SPECIFICATION FairSpec
INVARIANT Inv_CachedOnce
INVARIANT Inv_FreshPerInvocation_KF
INVARIANT Inv_CycleReported
INVARIANT Inv_NoFalseCycle_KF
INVARIANT Inv_Rest
PROPERTY Live_Terminates
