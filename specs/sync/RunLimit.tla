------------------------------ MODULE RunLimit ------------------------------
(* num_concurrent_runs: BasicRuntime._maybe_acquire_max_concurrent_runs keeps one            *)
(* asyncio.Semaphore(N) per workflow *instance* (dict keyed by id(workflow)); every run is a   *)
(* task  `async with sem: await workflow_run_fn(...)`.  asyncio.Semaphore as in CPython 3.12:   *)
(*   acquire: fast path iff value > 0 and no waiter that is not cancelled; else append a       *)
(*            future to the FIFO, await it, remove it; a woken waiter already owns its unit    *)
(*            (release() decrements value on its behalf) and wakes the next one if value > 0;  *)
(*            on CancelledError a woken-but-cancelled waiter gives its unit back and wakes the *)
(*            next waiter                                                                      *)
(*   release: value += 1; wake the first waiter that is not done (value -= 1 for it)           *)
(* Environment actions (what a caller does): Start(r) = workflow.run(), Finish(r) = the run's  *)
(* steps complete, Fail(r) = a step of the executing run raises (the run ends with an error;   *)
(* `async with sem` releases the slot on every way out), Cancel(r) = handler.cancel() on a run that has not begun to execute (hard   *)
(* abort of a queued run's task; aborting an executing run is outside the statement's          *)
(* start/finish quantifier).  Task steps (one suspension-free section each): Arrive, Resume,   *)
(* CancelResume, Exit.                                                                         *)
(*****************************************************************************)
EXTENDS Naturals, Sequences, FiniteSets, TLC

CONSTANTS Runs, Insts, InstOf, Limit, MaxCancel, MaxFail

VARIABLES
  pc,        \* Runs -> {"idle","started","waiting","exec","exiting","done","cancelled","error"}
  why,       \* Runs -> {"ok","cancel","fail"}
  value,     \* Insts -> Nat                  Semaphore._value
  waiters,   \* Insts -> Seq([r, fut])        Semaphore._waiters; fut in {"pending","woken","cancelled"}
  must,      \* Runs -> BOOLEAN               Task._must_cancel (cancel hit an already woken waiter)
  ncancel

vars == <<pc, why, value, waiters, must, ncancel>>
I(r) == InstOf[r]

Init ==
  /\ pc = [r \in Runs |-> "idle"]
  /\ why = [r \in Runs |-> "ok"]
  /\ value = [i \in Insts |-> Limit[i]]
  /\ waiters = [i \in Insts |-> <<>>]
  /\ must = [r \in Runs |-> FALSE]
  /\ ncancel = 0

FirstPending(ws) == IF \E k \in 1..Len(ws) : ws[k].fut = "pending"
                      THEN CHOOSE k \in 1..Len(ws) : ws[k].fut = "pending" /\ \A j \in 1..(k-1) : ws[j].fut # "pending"
                      ELSE 0
\* _wake_up_next on (waiters, value): returns the new pair
Wake(ws, v) == LET k == FirstPending(ws) IN
                 IF k = 0 THEN [ws |-> ws, v |-> v]
                 ELSE [ws |-> [ws EXCEPT ![k].fut = "woken"], v |-> v - 1]
RemoveRun(ws, r) == SelectSeq(ws, LAMBDA w : w.r # r)
Locked(i) == value[i] = 0 \/ \E k \in 1..Len(waiters[i]) : waiters[i][k].fut # "cancelled"
FutOf(r) == LET ws == waiters[I(r)] k == CHOOSE k \in 1..Len(ws) : ws[k].r = r IN ws[k].fut

----------------------------------------------------------------------------
(* environment *)
Start(r) ==
  /\ pc[r] = "idle"
  /\ pc' = [pc EXCEPT ![r] = "started"]
  /\ UNCHANGED <<why, value, waiters, must, ncancel>>

Finish(r) ==
  /\ pc[r] = "exec"
  /\ pc' = [pc EXCEPT ![r] = "exiting"]
  /\ why' = [why EXCEPT ![r] = "ok"]
  /\ UNCHANGED <<value, waiters, must, ncancel>>

Fail(r) ==
  /\ pc[r] = "exec" /\ Cardinality({q \in Runs : why[q] = "fail"}) < MaxFail
  /\ pc' = [pc EXCEPT ![r] = "exiting"]
  /\ why' = [why EXCEPT ![r] = "fail"]
  /\ UNCHANGED <<value, waiters, must, ncancel>>

Cancel(r) ==
  /\ ncancel < MaxCancel
  /\ ncancel' = ncancel + 1
  /\ \/ /\ pc[r] = "started"
        /\ pc' = [pc EXCEPT ![r] = "cancelled"]
        /\ UNCHANGED <<why, value, waiters, must>>
     \/ /\ pc[r] = "waiting" /\ ~must[r]
        /\ IF FutOf(r) = "pending"
             THEN /\ waiters' = [waiters EXCEPT ![I(r)] =
                        [k \in 1..Len(@) |-> IF @[k].r = r THEN [@[k] EXCEPT !.fut = "cancelled"] ELSE @[k]]]
                  /\ must' = must
             ELSE /\ must' = [must EXCEPT ![r] = TRUE]
                  /\ waiters' = waiters
        /\ UNCHANGED <<pc, why, value>>

(* task steps *)
Arrive(r) ==
  /\ pc[r] = "started"
  /\ LET i == I(r) IN
     IF ~Locked(i)
       THEN /\ value' = [value EXCEPT ![i] = @ - 1]
            /\ pc' = [pc EXCEPT ![r] = "exec"]
            /\ waiters' = waiters
       ELSE /\ waiters' = [waiters EXCEPT ![i] = Append(@, [r |-> r, fut |-> "pending"])]
            /\ pc' = [pc EXCEPT ![r] = "waiting"]
            /\ value' = value
  /\ UNCHANGED <<why, must, ncancel>>

Resume(r) ==
  /\ pc[r] = "waiting" /\ ~must[r] /\ FutOf(r) = "woken"
  /\ LET i == I(r)
         ws == RemoveRun(waiters[i], r)
         w == IF value[i] > 0 THEN Wake(ws, value[i]) ELSE [ws |-> ws, v |-> value[i]]
     IN /\ waiters' = [waiters EXCEPT ![i] = w.ws]
        /\ value' = [value EXCEPT ![i] = w.v]
  /\ pc' = [pc EXCEPT ![r] = "exec"]
  /\ UNCHANGED <<why, must, ncancel>>

CancelResume(r) ==
  /\ pc[r] = "waiting" /\ (must[r] \/ FutOf(r) = "cancelled")
  /\ LET i == I(r)
         ws == RemoveRun(waiters[i], r)
         w == IF FutOf(r) # "cancelled" THEN Wake(ws, value[i] + 1) ELSE [ws |-> ws, v |-> value[i]]
     IN /\ waiters' = [waiters EXCEPT ![i] = w.ws]
        /\ value' = [value EXCEPT ![i] = w.v]
  /\ pc' = [pc EXCEPT ![r] = "cancelled"]
  /\ must' = [must EXCEPT ![r] = FALSE]
  /\ UNCHANGED <<why, ncancel>>

Exit(r) ==
  /\ pc[r] = "exiting"
  /\ LET i == I(r) w == Wake(waiters[i], value[i] + 1) IN
     /\ waiters' = [waiters EXCEPT ![i] = w.ws]
     /\ value' = [value EXCEPT ![i] = w.v]
  /\ pc' = [pc EXCEPT ![r] = IF why[r] = "ok" THEN "done" ELSE IF why[r] = "fail" THEN "error" ELSE "cancelled"]
  /\ UNCHANGED <<why, must, ncancel>>

TaskStep(r) == Arrive(r) \/ Resume(r) \/ CancelResume(r) \/ Exit(r)
EnvStep(r) == Start(r) \/ Finish(r) \/ Fail(r) \/ Cancel(r)
Next == \E r \in Runs : TaskStep(r) \/ EnvStep(r)
Spec == Init /\ [][Next]_vars
FairSpec == Spec /\ \A r \in Runs : WF_vars(TaskStep(r)) /\ WF_vars(Finish(r))

----------------------------------------------------------------------------
(* C30 *)
Holders(i) == {r \in Runs : I(r) = i /\ pc[r] \in {"exec", "exiting"}}
Woken(i) == {k \in 1..Len(waiters[i]) : waiters[i][k].fut = "woken"}
Inv_Limit == \A i \in Insts : Cardinality(Holders(i)) <= Limit[i]
Inv_Value == \A i \in Insts : value[i] + Cardinality(Holders(i)) + Cardinality(Woken(i)) = Limit[i]
(* no lost wake-up: free capacity with waiters means some waiter is runnable *)
Inv_Baton == \A i \in Insts : (value[i] > 0 /\ waiters[i] # <<>>) =>
                \E k \in 1..Len(waiters[i]) :
                   waiters[i][k].fut \in {"woken", "cancelled"} \/ must[waiters[i][k].r]
Inv_Cleanup == (\A r \in Runs : pc[r] \in {"idle", "done", "cancelled", "error"})
                 => \A i \in Insts : value[i] = Limit[i] /\ waiters[i] = <<>>
(* separate instances have independent limits: a run only ever waits on its own instance *)
Act_Independence == [][\A r \in Runs : (pc[r] = "started" /\ pc'[r] = "waiting")
                          => (value[I(r)] = 0 \/ waiters[I(r)] # <<>>)]_vars
(* every started run eventually executes (or is cancelled) *)
Live_Executes == \A r \in Runs : (pc[r] \in {"started", "waiting"}) ~> (pc[r] \notin {"started", "waiting"})
TypeOK ==
  /\ pc \in [Runs -> {"idle", "started", "waiting", "exec", "exiting", "done", "cancelled", "error"}]
  /\ \A i \in Insts : value[i] \in 0..Limit[i]
=============================================================================
