CONSTANTS
  Names = {"a", "b"}
  Procs = {"p1", "p2"}
  Programs <- Programs2
  Dev_SharedResolutionState = TRUE
SPECIFICATION Spec
INVARIANT Inv_FreshPerInvocation
