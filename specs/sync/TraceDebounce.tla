---- MODULE TraceDebounce ----
(* Trace validation: is an execution recorded from the real debounced_sorted_prefix a behaviour of   *)
(* Debounce.tla?  The trace gives the scenario and the output seen at the quiescence point of every  *)
(* integer time 0..Horizon; everything between two clock ticks is inferred by TLC.                   *)
EXTENDS Debounce, Json, IOUtils

T == JsonDeserialize(IOEnv.TRACE_FILE)
TraceD == T.D
TraceM == T.M
TraceDev == T.dev
ScenOfTrace(i) == [t |-> T.traces[i].t, key |-> T.traces[i].key, endT |-> T.traces[i].endT]
TraceScens == LET TT == T.traces IN {[t |-> TT[i].t, key |-> TT[i].key, endT |-> TT[i].endT] : i \in 1..Len(TT)}

VARIABLES tid, l
tvars == <<vars, tid, l>>
Tr == T.traces[tid]

TraceInit == tid \in 1..Len(T.traces) /\ l = 1 /\ InitWith(ScenOfTrace(tid))

Silent == /\ l <= Len(Tr.snaps)
          /\ (Arrive \/ EndArrive \/ LoopWake \/ MarkerReady \/ MarkerEnds \/ (\E o \in Perms(DoneSet) : DoneBatch(o)))
          /\ UNCHANGED <<tid, l>>

MatchTick ==
  /\ l <= Len(Tr.snaps)
  /\ ~Runnable
  /\ out = Tr.snaps[l]
  /\ (l = Len(Tr.snaps)) => (closed = Tr.closed)
  /\ PrintT(<<"P", tid, l>>)
  /\ l' = l + 1 /\ UNCHANGED tid
  /\ IF closed \/ now >= Horizon THEN UNCHANGED vars ELSE Tick

TraceNext == Silent \/ MatchTick
====
