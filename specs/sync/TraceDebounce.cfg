CONSTANTS
  D <- TraceD
  M <- TraceM
  Scenarios <- TraceScens
  Dev_PassthroughOnSignal <- TraceDev
INIT TraceInit
NEXT TraceNext
INVARIANT Inv_Once
