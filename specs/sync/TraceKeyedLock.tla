---- MODULE TraceKeyedLock ----
(* Trace validation: are executions recorded from the real KeyedLock behaviours of KeyedLock.tla? *)
(* One event = one batch of driver commands issued at a quiescence point of the event loop,       *)
(* followed by the projected state at the next quiescence point.  Commands are environment        *)
(* actions; the task steps the loop ran in between are inferred by TLC.                           *)
EXTENDS KeyedLock, Json, IOUtils

T == JsonDeserialize(IOEnv.TRACE_FILE)
TraceProcs == {T.procs[i] : i \in 1..Len(T.procs)}
TraceKeys == {T.keys[i] : i \in 1..Len(T.keys)}
TraceKeyOf == T.keyof

VARIABLES tid, l, ci, pend   \* pend: deferred cancels (loop.call_soon(task.cancel))
tvars == <<vars, tid, l, ci, pend>>

Tr == T.traces[tid]
Ev == Tr[l]

ObsPc(x) == x
Matches(post) ==
  /\ \A p \in Procs : pc[p] = post.pc[p]
  /\ \A k \in Keys : /\ locked[k] = post.locked[k]
                     /\ refs[k] = post.refs[k]
                     /\ present[k] = post.present[k]
                     /\ Len(waiters[k]) = Len(post.waiters[k])
                     /\ \A i \in 1..Len(waiters[k]) : waiters[k][i].fut = post.waiters[k][i]

TraceInit == Init /\ tid \in 1..Len(T.traces) /\ l = 1 /\ ci = 1 /\ pend = {}

ApplyCmd ==
  /\ l <= Len(Tr) /\ ci <= Len(Ev.cmds)
  /\ LET c == Ev.cmds[ci] IN
       \/ c[1] = "start" /\ Start(c[2])
       \/ c[1] = "release" /\ Release(c[2])
       \/ c[1] = "cancel" /\ Cancel(c[2])
       \/ c[1] = "cancel_soon" /\ UNCHANGED vars
  /\ pend' = IF Ev.cmds[ci][1] = "cancel_soon" THEN pend \cup {Ev.cmds[ci][2]} ELSE pend
  /\ ci' = ci + 1 /\ UNCHANGED <<tid, l>>

Silent ==
  /\ l <= Len(Tr) /\ ci > Len(Ev.cmds)
  /\ \/ (\E p \in Procs : TaskStep(p)) /\ UNCHANGED pend
     \/ \E p \in pend : pend' = pend \ {p} /\ (Cancel(p) \/ (pc[p] \in {"done", "cancelled"} /\ UNCHANGED vars))
  /\ UNCHANGED <<tid, l, ci>>

Match ==
  /\ l <= Len(Tr) /\ ci > Len(Ev.cmds)
  /\ Matches(Ev.post) /\ pend = {}
  /\ PrintT(<<"P", tid, l>>)
  /\ l' = l + 1 /\ ci' = 1 /\ UNCHANGED <<vars, tid, pend>>

TraceNext == ApplyCmd \/ Silent \/ Match
TraceSpec == TraceInit /\ [][TraceNext]_tvars
====
