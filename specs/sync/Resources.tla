------------------------------ MODULE Resources ------------------------------
(* workflows.resource.ResourceManager as used by runtime.types.step_function.partial.          *)
(*                                                                                             *)
(* Manager state exactly as coded: `resources` (cached values), `_resolving` (list of names),  *)
(* `_resolution_cache`, `_resolution_depth` -- ONE copy per manager, hence shared by every     *)
(* step invocation that resolves concurrently (Dev_SharedResolutionState = TRUE, the code as   *)
(* it is).  FALSE = intended design: resolving list / resolution cache local to one            *)
(* invocation, and a cached resource that another invocation is creating is awaited instead    *)
(* of being created a second time.                                                             *)
(*                                                                                             *)
(* A step invocation p runs `partial`: open the resolution scope, then for every resource      *)
(* parameter `await manager.get(descriptor)`.  `_get(n)`: cycle check (n in _resolving ->      *)
(* ValueError), cached value, scoped value, else append n to _resolving, resolve the           *)
(* dependencies of n's factory recursively, call the factory, store, remove n.  The only       *)
(* suspension points are inside async factories (the harness gates them), so one action =      *)
(* run p from where it stands to its next factory gate / completion / error:                   *)
(*   Begin(p)    the engine starts invocation p                                                *)
(*   Release(p)  the async factory p is suspended in returns                                   *)
(*   Wake(p)     (design variant only) the in-flight creation p waited for has finished        *)
(* Objects are numbered in creation order; objs[k] records who created k from which arguments. *)
(*****************************************************************************)
EXTENDS Naturals, Sequences, FiniteSets, TLC

CONSTANTS Names, Procs, Programs, Dev_SharedResolutionState
\* a program: [deps : [Names -> Seq(Names)], cache : [Names -> BOOLEAN], asyncf : [Names -> BOOLEAN],
\*             params : [Procs -> Seq(Names)]]

VARIABLES
  prog,
  res,        \* Names -> Nat      ResourceManager.resources (0 = absent)
  resolving,  \* Seq(Names)        ResourceManager._resolving
  rc,         \* Names -> Nat      ResourceManager._resolution_cache (0 = absent)
  depth,      \* Nat               ResourceManager._resolution_depth
  inflight,   \* Names -> Procs \cup {"-"}   (design variant) who is creating a cached resource
  objs,       \* Seq([name, by, deps])       every object a factory returned, in creation order
  st          \* Procs -> local state of the invocation

vars == <<prog, res, resolving, rc, depth, inflight, objs, st>>
Dev == Dev_SharedResolutionState

NoneMap == [n \in Names |-> 0]
Idle == [status |-> "idle", pi |-> 1, stack |-> <<>>, inj |-> <<>>, pend |-> 0, waitn |-> "-",
         lres |-> <<>>, lrc |-> NoneMap, overlap |-> FALSE]

InitWith(pr) ==
  /\ prog = pr
  /\ res = NoneMap /\ resolving = <<>> /\ rc = NoneMap /\ depth = 0
  /\ inflight = [n \in Names |-> "-"]
  /\ objs = <<>>
  /\ st = [p \in Procs |-> Idle]
Init == \E pr \in Programs : InitWith(pr)

InSeq(x, s) == \E k \in 1..Len(s) : s[k] = x
RemoveFirst(s, x) == IF ~InSeq(x, s) THEN s
                     ELSE LET k == CHOOSE k \in 1..Len(s) : s[k] = x /\ \A j \in 1..(k-1) : s[j] # x
                          IN SubSeq(s, 1, k - 1) \o SubSeq(s, k + 1, Len(s))

\* g = [res, resolving, rc, depth, inflight, objs, l] : the manager and the local state of the running invocation
Resolving(g) == IF Dev THEN g.resolving ELSE g.l.lres
Rc(g) == IF Dev THEN g.rc ELSE g.l.lrc
SetResolving(g, v) == IF Dev THEN [g EXCEPT !.resolving = v] ELSE [g EXCEPT !.l.lres = v]
SetRc(g, v) == IF Dev THEN [g EXCEPT !.rc = v] ELSE [g EXCEPT !.l.lrc = v]
\* leaving the resolution scope of `partial`
ExitScope(g) == IF Dev THEN LET d == g.depth - 1 IN
                              [g EXCEPT !.depth = d, !.rc = IF d = 0 THEN NoneMap ELSE @]
                ELSE [g EXCEPT !.l.lrc = NoneMap, !.l.lres = <<>>]

RECURSIVE Go(_, _), Enter(_, _, _), Return(_, _, _), FactoryReturn(_, _, _), Unwind(_, _, _)

Go(g, p) ==
  LET l == g.l pars == prog.params[p] IN
  IF l.stack = <<>> THEN
    IF l.pi > Len(pars) THEN [ExitScope(g) EXCEPT !.l.status = "done"]
    ELSE Enter(g, p, pars[l.pi])
  ELSE LET f == l.stack[Len(l.stack)] IN
    IF f.di <= Len(prog.deps[f.n]) THEN Enter(g, p, prog.deps[f.n][f.di])
    ELSE LET k == Len(g.objs) + 1
             g1 == [g EXCEPT !.objs = Append(@, [name |-> f.n, by |-> p, deps |-> f.args])]
         IN IF prog.asyncf[f.n] THEN [g1 EXCEPT !.l.status = "blocked", !.l.pend = k]
            ELSE FactoryReturn(g1, p, k)

\* the error path: every enclosing _get frame removes its name in its `finally`, then the scope is left
Unwind(g, p, k) ==
  IF k = 0 THEN [ExitScope([g EXCEPT !.l.stack = <<>>]) EXCEPT !.l.status = "error"]
  ELSE LET n == g.l.stack[k].n
           g1 == SetResolving(g, RemoveFirst(Resolving(g), n))
           g2 == IF ~Dev /\ g1.inflight[n] = p THEN [g1 EXCEPT !.inflight[n] = "-"] ELSE g1
       IN Unwind(g2, p, k - 1)

Enter(g, p, n) ==
  IF InSeq(n, Resolving(g)) THEN Unwind(g, p, Len(g.l.stack))
  ELSE IF prog.cache[n] /\ g.res[n] # 0 THEN Return(g, p, g.res[n])
  ELSE IF Rc(g)[n] # 0 THEN Return(g, p, Rc(g)[n])
  ELSE IF ~Dev /\ prog.cache[n] /\ g.inflight[n] # "-" THEN [g EXCEPT !.l.status = "waitfor", !.l.waitn = n]
  ELSE LET g1 == SetResolving(g, Append(Resolving(g), n))
           g2 == IF ~Dev /\ prog.cache[n] THEN [g1 EXCEPT !.inflight[n] = p] ELSE g1
       IN Go([g2 EXCEPT !.l.stack = Append(@, [n |-> n, di |-> 1, args |-> <<>>])], p)

Return(g, p, v) ==
  IF g.l.stack = <<>> THEN Go([g EXCEPT !.l.inj = Append(@, v), !.l.pi = @ + 1], p)
  ELSE LET top == Len(g.l.stack) IN
       Go([g EXCEPT !.l.stack[top].args = Append(@, v), !.l.stack[top].di = @ + 1], p)

FactoryReturn(g, p, k) ==
  LET top == Len(g.l.stack)
      n == g.l.stack[top].n
      g1 == IF prog.cache[n] THEN [g EXCEPT !.res[n] = k] ELSE g
      g2 == SetRc(g1, [Rc(g1) EXCEPT ![n] = k])
      g3 == SetResolving(g2, RemoveFirst(Resolving(g2), n))
      g4 == IF ~Dev /\ g3.inflight[n] = p THEN [g3 EXCEPT !.inflight[n] = "-"] ELSE g3
  IN Return([g4 EXCEPT !.l.stack = SubSeq(@, 1, top - 1)], p, k)

Pack(p) == [res |-> res, resolving |-> resolving, rc |-> rc, depth |-> depth, inflight |-> inflight,
            objs |-> objs, l |-> st[p]]
Active(q) == st[q].status \in {"blocked", "waitfor"}
\* history: p and every invocation in flight while p runs have overlapped
Unpack(g, p) ==
  /\ res' = g.res /\ resolving' = g.resolving /\ rc' = g.rc /\ depth' = g.depth
  /\ inflight' = g.inflight /\ objs' = g.objs
  /\ st' = [q \in Procs |-> IF q = p THEN g.l
                            ELSE IF Active(q) THEN [st[q] EXCEPT !.overlap = TRUE] ELSE st[q]]
  /\ prog' = prog

Begin(p) ==
  /\ st[p].status = "idle"
  /\ LET g0 == Pack(p)
         g1 == [g0 EXCEPT !.depth = IF Dev THEN @ + 1 ELSE @, !.l.status = "running",
                          !.l.overlap = \E q \in Procs : q # p /\ Active(q)]
     IN Unpack(Go(g1, p), p)

Release(p) ==
  /\ st[p].status = "blocked"
  /\ LET g0 == Pack(p)
         k == st[p].pend
         g1 == [g0 EXCEPT !.l.status = "running", !.l.pend = 0,
                          !.l.overlap = @ \/ \E q \in Procs : q # p /\ Active(q)]
     IN Unpack(FactoryReturn(g1, p, k), p)

Wake(p) ==
  /\ ~Dev /\ st[p].status = "waitfor"
  /\ (res[st[p].waitn] # 0 \/ inflight[st[p].waitn] = "-")
  /\ LET g0 == Pack(p) IN
     Unpack(Go([g0 EXCEPT !.l.status = "running", !.l.waitn = "-"], p), p)

Next == \E p \in Procs : Begin(p) \/ Release(p) \/ Wake(p)
Spec == Init /\ [][Next]_vars
FairSpec == Spec /\ \A p \in Procs : WF_vars(Begin(p) \/ Release(p) \/ Wake(p))

----------------------------------------------------------------------------
(* C22 *)
\* the dependency graph of the program: is a cycle reachable from n?
Edge(a, b) == InSeq(b, prog.deps[a])
RECURSIVE ReachN(_, _)
ReachN(S, k) == IF k = 0 THEN S ELSE ReachN(S \cup {b \in Names : \E a \in S : Edge(a, b)}, k - 1)
Below(n) == ReachN({b \in Names : Edge(n, b)}, Cardinality(Names))      \* proper descendants
OnCycle(n) == n \in Below(n)
Needs(p) == LET roots == {prog.params[p][k] : k \in 1..Len(prog.params[p])} IN ReachN(roots, Cardinality(Names))
Cyclic(p) == \E n \in Needs(p) : OnCycle(n)
Acyclic == \A n \in Names : ~OnCycle(n)

ObjsOf(n) == {k \in 1..Len(objs) : objs[k].name = n}
\* who uses object k: the invocations it was injected into, and the creators of objects built from it
Users(k) == {p \in Procs : InSeq(k, st[p].inj)} \cup {objs[j].by : j \in {j \in 1..Len(objs) : InSeq(k, objs[j].deps)}}
\* value delivered for parameter number i of p
Injected(p, i) == st[p].inj[i]

(* a cached resource is created once per manager and the same object is injected everywhere *)
Inv_CachedOnce == Acyclic => \A n \in Names : prog.cache[n] =>
   /\ Cardinality(ObjsOf(n)) <= 1
   /\ \A p \in Procs : \A i \in 1..Len(st[p].inj) : prog.params[p][i] = n => Injected(p, i) \in ObjsOf(n)
(* a non-cached resource is created fresh per step invocation and shared only within that resolution -- also when a *)
(* resolution ends with an error (cycle): what it had created must not reach a later invocation                      *)
Inv_FreshPerInvocation == \A n \in Names : ~prog.cache[n] =>
   /\ \A k \in ObjsOf(n) : Users(k) \subseteq {objs[k].by}
   /\ \A p \in Procs : Cardinality({k \in ObjsOf(n) : objs[k].by = p}) <= 1
(* a genuine cycle is always reported *)
Inv_CycleReported == \A p \in Procs : Cyclic(p) => st[p].status # "done"
(* no false cycle error *)
Inv_NoFalseCycle == Acyclic => \A p \in Procs : st[p].status # "error"
(* the known failure shapes (Dev = TRUE): both need another invocation to be in flight *)
Inv_NoFalseCycle_KF == Acyclic => \A p \in Procs : st[p].status = "error" => st[p].overlap
Inv_FreshPerInvocation_KF == \A n \in Names : ~prog.cache[n] =>
   /\ \A k \in ObjsOf(n) : Users(k) \subseteq {objs[k].by} \cup {p \in Procs : st[p].overlap}
   /\ \A p \in Procs : Cardinality({k \in ObjsOf(n) : objs[k].by = p}) <= 1
(* bookkeeping returns to rest *)
Inv_Rest == (\A p \in Procs : st[p].status \in {"idle", "done", "error"})
               => (resolving = <<>> /\ depth = 0 /\ rc = NoneMap /\ \A n \in Names : inflight[n] = "-")
Live_Terminates == Acyclic => \A p \in Procs : (st[p].status # "idle") ~> (st[p].status \in {"done", "error"})
=============================================================================
