CONSTANTS
  Names = {"a", "b"}
  Procs = {"p1", "p2"}
  Programs <- Programs2
  Dev_SharedResolutionState = TRUE
SPECIFICATION FairSpec
INVARIANT Inv_CachedOnce
INVARIANT Inv_FreshPerInvocation_KF
INVARIANT Inv_CycleReported
INVARIANT Inv_NoFalseCycle_KF
INVARIANT Inv_Rest
PROPERTY Live_Terminates
