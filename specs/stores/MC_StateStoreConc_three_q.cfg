CONSTANTS
  Procs = {"p1", "p2", "p3"}
  Systems <- Sys_all
  ProgSpace <- PS_three_q
SPECIFICATION FairSpec
INVARIANT TypeOK
INVARIANT Inv_Lock
INVARIANT Inv_Baton
INVARIANT Inv_C20_KF
PROPERTY Act_C20_KF
PROPERTY Live_Done
