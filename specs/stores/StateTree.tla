---------------------------- MODULE StateTree ----------------------------
(* Pure operators shared by StateStore.tla (enumeration / model checking) and Obs_C19.tla  *)
(* (validation of histories recorded from the real stores).                                *)
(*                                                                                         *)
(* A state value is a finite tree:                                                         *)
(*    S(n)  scalar n          M(f)  map: function from a finite set of strings to trees    *)
(*    L(q)  list: sequence of trees                                                        *)
(* The same shape is what the harness writes as JSON ({"t":"s","v":1}, {"t":"m","m":{..}}, *)
(* {"t":"l","l":[..]}), so recorded values compare with model values by plain equality.    *)
(*                                                                                         *)
(* The semantics is the plain nested-dict semantics the property names as the oracle:      *)
(*   workflows.context.state_store.get_by_path / set_by_path / merge_state on dicts, lists *)
(*   and a root object that is either an open mapping (DictState) or a fixed set of fields *)
(*   (typed pydantic model).                                                               *)
(* A configuration record c = [kind, be, shares, numtop, freshrow] says which state model  *)
(* and back end is meant and which *deviations of today's code* (Dev_ constants of         *)
(* StateStore.tla) are switched on; with all three FALSE this is the intended design.      *)
(**************************************************************************)
EXTENDS Naturals, Sequences, FiniteSets, TLC

S(n) == [t |-> "s", v |-> n]
M(f) == [t |-> "m", m |-> f]
L(q) == [t |-> "l", l |-> q]
Missing == [t |-> "x"]          \* path does not exist
Err == [t |-> "e"]              \* the call raised
Ok == [t |-> "ok"]              \* the call returned None
NoFun == [k \in {} |-> 0]
EmptyMap == M(NoFun)

\* numeric-looking segments (list indexes); everything else is a plain key
NumIdx == ("0" :> 0) @@ ("1" :> 1)
IsNum(s) == s \in DOMAIN NumIdx

Put(f, k, v) == (k :> v) @@ f
Drop(f, k) == [x \in DOMAIN f \ {k} |-> f[x]]

RECURSIVE Lookup(_, _)
Lookup(val, path) ==
  IF path = <<>> THEN val
  ELSE LET s == Head(path)
           r == Tail(path)
       IN CASE val.t = "m" -> IF s \in DOMAIN val.m THEN Lookup(val.m[s], r) ELSE Missing
            [] val.t = "l" -> IF IsNum(s) /\ NumIdx[s] < Len(val.l)
                                THEN Lookup(val.l[NumIdx[s] + 1], r) ELSE Missing
            [] OTHER -> Missing

\* {k1: {k2: ... v}}: the intermediate dicts set_by_path creates
RECURSIVE Nest(_, _)
Nest(path, v) == IF Len(path) = 1 THEN M(Head(path) :> v)
                 ELSE M(Head(path) :> Nest(Tail(path), v))

\* set_by_path below the root: Err iff the real function raises (and then nothing was changed)
RECURSIVE Assign(_, _, _)
Assign(val, path, v) ==
  LET s == Head(path)
      r == Tail(path)
  IN CASE val.t = "m" ->
            IF r = <<>> THEN M(Put(val.m, s, v))
            ELSE IF s \in DOMAIN val.m
                   THEN LET sub == Assign(val.m[s], r, v)
                        IN IF sub = Err THEN Err ELSE M(Put(val.m, s, sub))
                   ELSE M(Put(val.m, s, Nest(r, v)))
       [] val.t = "l" ->
            IF IsNum(s) /\ NumIdx[s] < Len(val.l)
              THEN LET i == NumIdx[s] + 1
                       sub == IF r = <<>> THEN v ELSE Assign(val.l[i], r, v)
                   IN IF sub = Err THEN Err ELSE L([val.l EXCEPT ![i] = sub])
              ELSE Err
       [] OTHER -> Err

----------------------------------------------------------------------------
(* the root object *)
Fixed(c) == c.kind = "typed"                   \* typed model: no new top-level names
ParentFields == {"a"}
ChildFields == {"a", "b"}
DefaultRoot(c) == IF c.kind = "typed" THEN M([f \in ChildFields |-> S(0)]) ELSE EmptyMap

\* Dev numtop (today's code, DictState only): traverse_path_step / assign_path_step try
\* int(segment) indexing on the DictState itself, so a numeric-looking first segment reads and
\* writes the *integer* key 0 of DictState._data (slot "#0"), not the string key "0".
TopSlot(c, s) == IF c.numtop /\ c.kind = "dict" /\ IsNum(s) THEN "#" \o s ELSE s
TopPath(c, path) == IF path = <<>> THEN path ELSE <<TopSlot(c, Head(path))>> \o Tail(path)

\* ... and the SQLite store's JSON round trip turns that integer key back into the string key
\* (json.dumps emits both, json.loads keeps the last one, which is the integer key's value).
RECURSIVE NormSlots(_, _)
NormSlots(f, ks) ==
  IF ks = {} THEN f
  ELSE LET k == CHOOSE x \in ks : TRUE
           g == IF ("#" \o k) \in DOMAIN f THEN Put(Drop(f, "#" \o k), k, f["#" \o k]) ELSE f
       IN NormSlots(g, ks \ {k})
Persist(c, root) == IF c.be = "sqlite" /\ c.numtop /\ c.kind = "dict"
                      THEN M(NormSlots(root.m, DOMAIN NumIdx)) ELSE root

GetPath(c, root, path) == Lookup(root, TopPath(c, path))

SetPath(c, root, path, v) ==
  LET p == TopPath(c, path) IN
  IF p = <<>> THEN Err
  ELSE IF Fixed(c) /\ Head(p) \notin DOMAIN root.m THEN Err
  ELSE Assign(root, p, v)

----------------------------------------------------------------------------
(* store state:  root  -- the current state (always a map at the top)                       *)
(*               hs    -- snapshot handles: h -> [live, root]                               *)
(*               first -- no store operation has happened yet (SQLite: no row yet)          *)
InitState(c) == [root |-> DefaultRoot(c), hs |-> NoFun, first |-> TRUE]

Live(st) == {h \in DOMAIN st.hs : st.hs[h].live}
KillAll(hs) == [h \in DOMAIN hs |-> [hs[h] EXCEPT !.live = FALSE]]

\* Dev shares (today's code, InMemoryStateStore + DictState): model_copy() copies the model
\* but not the private _data dict, so snapshot and store share their top-level keys.
Shares(c) == c.shares /\ c.be = "memory" /\ c.kind = "dict"

\* Dev freshrow (today's code, SqliteStateStore + typed state): set_state on a store whose row
\* does not exist yet saves the incoming object as it is -- a parent-typed state replaces the
\* child state instead of being merged into it.
FreshRow(c, st) == c.freshrow /\ c.be = "sqlite" /\ c.kind = "typed" /\ st.first

Write(c, st, root) == [root |-> Persist(c, root), hs |-> KillAll(st.hs), first |-> FALSE]
Touch(st) == [st EXCEPT !.first = FALSE]

\* one probe = the reads the driver performs: get(p) for every probe path, get(p, default) for the
\* first NDefault of them, and a dump of get_state()
NDefault == 4
ProbeRet(c, st, paths, dflt) ==
  LET xs == TLCEval([i \in 1..Len(paths) |-> GetPath(c, st.root, paths[i])])
      nd == IF Len(paths) < NDefault THEN Len(paths) ELSE NDefault
  IN [t |-> "p",
      g |-> [i \in 1..Len(paths) |-> IF xs[i] = Missing THEN Err ELSE xs[i]],
      gd |-> [i \in 1..nd |-> IF xs[i] = Missing THEN dflt ELSE xs[i]],
      d |-> st.root]

(* Apply(c, st, o, paths): [st |-> state after, ret |-> returned value].                     *)
(* o has the fields op, path, val, k, h, sv (unused ones carry dummies).                     *)
Apply(c, st, o, paths) ==
  CASE o.op = "set" ->
         LET r == SetPath(c, st.root, o.path, o.val) IN
         IF r = Err THEN [st |-> Touch(st), ret |-> Err]
         ELSE [st |-> Write(c, st, r), ret |-> Ok]
    [] o.op = "get" ->          \* sv = "dflt": o.val is the default
         LET x == GetPath(c, st.root, o.path) IN
         [st |-> Touch(st), ret |-> IF x = Missing THEN (IF o.sv = "dflt" THEN o.val ELSE Err) ELSE x]
    [] o.op = "probe" -> [st |-> Touch(st), ret |-> ProbeRet(c, st, paths, o.val)]
    [] o.op = "setstate" ->     \* sv in {"dict", "child", "parent", "parent0"}; o.val = M(content)
         \* parent merge = {**current, **parent.model_dump()}: every parent field, set explicitly or left at its default
         IF o.sv \in {"parent", "parent0"} /\ ~FreshRow(c, st)
           THEN [st |-> Write(c, st, M(o.val.m @@ st.root.m)), ret |-> Ok]
           ELSE [st |-> Write(c, st, o.val), ret |-> Ok]
    [] o.op = "clear" -> [st |-> Write(c, st, DefaultRoot(c)), ret |-> Ok]
    [] o.op = "edit" ->         \* async with edit_state() as s: old = s[k]; s[k] = val
         IF o.k \in DOMAIN st.root.m
           THEN [st |-> Write(c, st, M(Put(st.root.m, o.k, o.val))), ret |-> st.root.m[o.k]]
           ELSE IF Fixed(c) THEN [st |-> Touch(st), ret |-> Err]
           ELSE [st |-> Write(c, st, M(Put(st.root.m, o.k, o.val))), ret |-> Missing]
    [] o.op = "getstate" ->
         [st |-> [Touch(st) EXCEPT !.hs = Put(st.hs, o.h, [live |-> TRUE, root |-> st.root])],
          ret |-> st.root]
    [] o.op = "mutate" ->       \* snapshot[k] = val  /  snapshot.k = val
         LET hr == st.hs[o.h].root IN
         IF Fixed(c) /\ o.k \notin DOMAIN hr.m THEN [st |-> st, ret |-> Err]
         ELSE IF Shares(c)
           THEN LET nr == M(Put(st.root.m, o.k, o.val)) IN
                [st |-> [st EXCEPT !.root = nr,
                                   !.hs = [h \in DOMAIN st.hs |->
                                             IF st.hs[h].live THEN [live |-> TRUE, root |-> nr] ELSE st.hs[h]]],
                 ret |-> Ok]
           ELSE [st |-> [st EXCEPT !.hs[o.h].root = M(Put(hr.m, o.k, o.val))], ret |-> Ok]
    [] o.op = "writeback" ->    \* set_state(snapshot)
         [st |-> Write(c, st, st.hs[o.h].root), ret |-> Ok]

=============================================================================
