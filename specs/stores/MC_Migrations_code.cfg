\* code as it is, crashes anywhere: C28 outside the known failure shape
CONSTANTS
  N = 4
  Idem <- Idem4
  MaxRuns = 2
  MaxCrash = 2
  Dev_BootstrapNotAtomic = TRUE
SPECIFICATION FairSpec
INVARIANT TypeOK
INVARIANT Inv_C28_Faithful
INVARIANT Inv_SchemaRecorded
PROPERTY Live_RunsComplete
