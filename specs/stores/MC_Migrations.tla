---- MODULE MC_Migrations ----
EXTENDS Migrations
\* the pinned tree: 0001 and 0004 use CREATE ... IF NOT EXISTS only, 0002 and 0003 are ALTER TABLE ADD COLUMN
Idem4 == {1, 4}
====
