CONSTANTS
  Ids <- Ids3
  Wfs <- Wfs1
  Statuses <- St4
  Confs <- ConfsThorough
  MaxOps = 6
  DelFilters <- Menu
  AllFilters <- AllF
  UpHasRun <- TrueOnly
  UpIdle <- FOnly
  UpStatuses <- UpStT
  UpIdleOps <- UpIoT
  CountOps = TRUE
  Dev_QueueCountsDeadEntries = FALSE
INIT Init
NEXT Next
INVARIANT TypeOK
INVARIANT Inv_C24_strict
CONSTRAINT DepthOK
