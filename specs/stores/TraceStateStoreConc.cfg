CONSTANTS
  Procs <- TraceProcs
  Systems = {}
  ProgSpace <- NoProgs
INIT TraceInit
NEXT TraceNext
INVARIANT Inv_Lock
INVARIANT Inv_Baton
