---------------------------- MODULE StateStore ----------------------------
(* C19 -- one state store (InMemoryStateStore / SqliteStateStore) used sequentially.       *)
(*                                                                                         *)
(* One action per public operation of the StateStore protocol:                             *)
(*   set(path, v)  get(path[, default])  set_state(replace | parent merge)  clear()        *)
(*   edit_state() {old = s[k]; s[k] = v}   get_state() -> snapshot handle                  *)
(*   snapshot[k] = v (MutateSnapshot)      set_state(snapshot) (WriteBack)                 *)
(* plus Probe = the battery of get(path) / get(path, default) / full dump the driver runs. *)
(* The semantics lives in StateTree.tla (Apply).  TLC enumerates every operation sequence  *)
(* of length MaxOps over the configured alphabet; `hist` carries the expected return value  *)
(* of every call and is printed (as JSON) for the driver when the sequence is complete.    *)
(*                                                                                         *)
(* Deviations of today's code from the intended design (TRUE = as the code is today):      *)
(*   Dev_SnapshotSharesData     InMemoryStateStore.get_state(): model_copy() shares         *)
(*                              DictState._data with the store                             *)
(*   Dev_NumericTopKey          a numeric-looking FIRST path segment on a DictState store   *)
(*                              addresses the integer key 0, not the string key "0"        *)
(*   Dev_FreshRowParentReplace  SqliteStateStore.set_state on a row that does not exist    *)
(*                              yet stores a parent-typed state without merging            *)
(**************************************************************************)
EXTENDS StateTree, Json

CONSTANTS
  Backend,         \* "memory" | "sqlite"
  Dev_SnapshotSharesData, Dev_NumericTopKey, Dev_FreshRowParentReplace,
  Families,        \* set of scenario families (records), one is chosen in Init:
                   \*   name, kind       "dict" (DictState) | "typed" (CState(PState): fields a | a, b)
                   \*   setpaths         set of paths (sequences of segments) used by set
                   \*   valkinds         subset of {"S","M","L","LM"}: scalar / {"b": n} / [n, n+50] / [{"a": n}, n+50]
                   \*   variants         subset of {"dict","child","parent","parent0"} for set_state
                   \*   editkeys, mutkeys, clear, probe
                   \*   ppaths           sequence of paths read by every probe
                   \*   maxops, maxh
  Emit             \* print complete histories for the driver

VARIABLES cf, st, hist, n
vars == <<cf, st, hist, n>>

Kind == cf.kind
SetPaths == cf.setpaths
ValKinds == cf.valkinds
StateVariants == cf.variants
EditKeys == cf.editkeys
MutKeys == cf.mutkeys
UseClear == cf.clear
UseProbe == cf.probe
ProbePaths == cf.ppaths
MaxOps == cf.maxops
MaxHandles == cf.maxh

C == [kind |-> Kind, be |-> Backend, shares |-> Dev_SnapshotSharesData,
      numtop |-> Dev_NumericTopKey, freshrow |-> Dev_FreshRowParentReplace]

Default == S(0)       \* a falsy default on purpose
O0 == [op |-> "", path |-> <<>>, val |-> S(0), k |-> "", h |-> "", sv |-> ""]

JsonScalar == [N |-> 60, T |-> 61, F |-> 62, X |-> 63, B |-> 64, E |-> 65]

\* the operation at position i (0-based) writes the scalar i: later writes are distinguishable from
\* earlier ones, and the first one writes a falsy value (0)
MkVal(vk, i) == CASE vk = "S" -> S(i)
                  [] vk = "M" -> M("b" :> S(i))
                  [] vk = "L" -> L(<<S(i), S(i + 50)>>)                 \* two elements: index 0 is not index -1
                  [] vk = "LM" -> L(<<M("a" :> S(i)), S(i + 50)>>)
                  \* other JSON values (the driver maps the scalar ids 60.. to None, True, 1.5, "s", False, "")
                  [] vk = "ME" -> EmptyMap
                  [] vk = "LE" -> L(<<>>)
                  [] vk \in DOMAIN JsonScalar -> S(JsonScalar[vk])
MkState(sv, i) == CASE sv = "dict" -> M("b" :> S(i))
                    [] sv = "child" -> M([a |-> S(i), b |-> S(0)])       \* CState(a=i)
                    [] sv = "parent" -> M([a |-> S(i)])                  \* PState(a=i)
                    [] sv = "parent0" -> M([a |-> S(0)])                 \* PState(): every field left at its default (unset)

NextH == "h" \o ToString(Cardinality(DOMAIN st.hs) + 1)
LastOp == IF hist = <<>> THEN "" ELSE hist[Len(hist)].o.op

Ops(i) ==
  {[O0 EXCEPT !.op = "set", !.path = p, !.val = MkVal(vk, i)] : p \in SetPaths, vk \in ValKinds}
  \cup {[O0 EXCEPT !.op = "setstate", !.sv = sv, !.val = MkState(sv, i)] : sv \in StateVariants}
  \cup (IF UseClear THEN {[O0 EXCEPT !.op = "clear"]} ELSE {})
  \cup {[O0 EXCEPT !.op = "edit", !.k = k, !.val = S(i)] : k \in EditKeys}
  \cup (IF Cardinality(DOMAIN st.hs) < MaxHandles
          THEN {[O0 EXCEPT !.op = "getstate", !.h = NextH]} ELSE {})
  \cup {[O0 EXCEPT !.op = "mutate", !.h = h, !.k = k, !.val = S(i)] : h \in Live(st), k \in MutKeys}
  \cup {[O0 EXCEPT !.op = "writeback", !.h = h] : h \in Live(st)}
  \cup (IF UseProbe /\ LastOp # "probe" THEN {[O0 EXCEPT !.op = "probe", !.val = Default]} ELSE {})

Init == /\ cf \in Families
        /\ st = InitState([kind |-> cf.kind, be |-> Backend, shares |-> Dev_SnapshotSharesData,
                           numtop |-> Dev_NumericTopKey, freshrow |-> Dev_FreshRowParentReplace])
        /\ hist = <<>> /\ n = 0

Do(o) == \E a \in {Apply(C, st, o, ProbePaths)} :     \* bound once (TLC re-evaluates LETs in actions)
         /\ cf' = cf
         /\ st' = a.st
         /\ hist' = Append(hist, [o |-> o, r |-> a.ret])
         /\ n' = n + 1

Step == n < MaxOps /\ \E o \in Ops(n) : Do(o)

\* A complete history is printed for the driver: operations with the expected result of each call.
\* (The driver ends every history with one more probe; its expected result is computed by the same
\* operators when TLC replays the recorded history in Obs_C19.tla.)
Done == /\ n = MaxOps
        /\ (Emit => PrintT(<<"SEQ", cf.name, ToJson(hist)>>))
        /\ UNCHANGED vars

Next == Step \/ Done
Spec == Init /\ [][Next]_vars

----------------------------------------------------------------------------
Last == hist'[Len(hist')]
Stepped == n' = n + 1

(* C19, second sentence: changing a snapshot does not change the store (until written back) *)
Act_C19_Isolation == [][(Stepped /\ Last.o.op = "mutate") => st'.root = st.root]_vars

(* self-consistency of the oracle: a successful set is read back, and only that path moved *)
Comparable(p, q) == LET k == IF Len(p) < Len(q) THEN Len(p) ELSE Len(q)
                    IN SubSeq(p, 1, k) = SubSeq(q, 1, k)
PathSet == {ProbePaths[i] : i \in 1..Len(ProbePaths)}
Act_SetGet == [][(Stepped /\ Last.o.op = "set" /\ Last.r = Ok)
                   => GetPath(C, st'.root, Last.o.path) = Last.o.val]_vars
Act_Frame == [][(Stepped /\ Last.o.op = "set")
                   => \A q \in PathSet : (~Comparable(q, Last.o.path) \/ Last.r = Err)
                                           => GetPath(C, st'.root, q) = GetPath(C, st.root, q)]_vars
Act_ReadsPure == [][(Stepped /\ Last.o.op \in {"get", "probe", "getstate"}) => st'.root = st.root]_vars
Inv_Shape == /\ st.root.t = "m"
             /\ Kind = "typed" => DOMAIN st.root.m \in {ChildFields, ParentFields}
Inv_TypedKeepsChild == (Kind = "typed") => DOMAIN st.root.m = ChildFields
=============================================================================
