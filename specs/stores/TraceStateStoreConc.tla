---- MODULE TraceStateStoreConc ----
(* Trace validation: are executions recorded from the real state stores behaviours of           *)
(* StateStoreConc.tla (lock discipline as coded)?  One event = one batch of driver commands      *)
(* issued at a quiescence point of the event loop + the state projected at the next quiescence   *)
(* point; the task steps in between are inferred by TLC.                                         *)
EXTENDS StateStoreConc, Json, IOUtils

T == JsonDeserialize(IOEnv.TRACE_FILE)
NoProgs(kind) == {}
TraceProcs == {T.procs[i] : i \in 1..Len(T.procs)}

VARIABLES tid, l, ci
tvars == <<vars, tid, l, ci>>

Tr == T.traces[tid]
Ev == Tr.events[l]

Matches(post) ==
  /\ \A p \in Procs : pc[p] = post.pc[p] /\ ip[p] = post.ip[p]
  /\ locked = post.locked
  /\ Len(waiters) = post.nwait
  /\ Store = post.store

TraceInit ==
  /\ tid \in 1..Len(T.traces)
  /\ sys = [be |-> T.traces[tid].backend, kind |-> T.traces[tid].kind, dev |-> T.dev]
  /\ prog = T.traces[tid].prog
  /\ pc = [p \in Procs |-> "idle"]
  /\ ip = [p \in Procs |-> 1]
  /\ locked = FALSE /\ waiters = <<>>
  /\ heap = <<IF T.traces[tid].kind = "typed" THEN [k \in Keys |-> 0] ELSE NoFun>> /\ cur = 1
  /\ loc = [p \in Procs |-> 0]
  /\ rd = [p \in Procs |-> 0]
  /\ kf = FALSE
  /\ l = 1 /\ ci = 1

ApplyCmd ==
  /\ l <= Len(Tr.events) /\ ci <= Len(Ev.cmds)
  /\ LET c == Ev.cmds[ci] IN
       \/ c[1] = "go" /\ Go(c[2])
       \/ c[1] = "resume" /\ Resume(c[2])
  /\ ci' = ci + 1 /\ UNCHANGED <<tid, l>>

Silent ==
  /\ l <= Len(Tr.events) /\ ci > Len(Ev.cmds)
  /\ \E p \in Procs : TaskStep(p)
  /\ UNCHANGED <<tid, l, ci>>

Match ==
  /\ l <= Len(Tr.events) /\ ci > Len(Ev.cmds)
  /\ Matches(Ev.post)
  /\ PrintT(<<"P", tid, l>>)
  /\ l' = l + 1 /\ ci' = 1 /\ UNCHANGED <<vars, tid>>

TraceNext == ApplyCmd \/ Silent \/ Match
====
