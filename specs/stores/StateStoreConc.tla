---------------------------- MODULE StateStoreConc ----------------------------
(* C20 -- several tasks update ONE state store concurrently.                                *)
(*                                                                                          *)
(* Lock discipline AS CODED:                                                                *)
(*   InMemoryStateStore   set, set_state, clear (= set_state), edit_state: async with _lock *)
(*                        (get / get_state do not matter here)                              *)
(*                        edit_state yields the live object: s = self._state ... self._state = s *)
(*   SqliteStateStore     edit_state: async with _lock { load row; yield; save row }        *)
(*                        set = edit_state { set_by_path }                                  *)
(*                        set_state / clear: NO lock (read row, merge, write row; no await) *)
(*                        -> deviation Dev_SqliteSetStateNoLock (TRUE = as the code is)     *)
(* asyncio.Lock (DESIGN A.4): fast path iff not locked and no waiters; otherwise FIFO       *)
(* waiters; release wakes the first waiter, which takes the lock when it is resumed.        *)
(*                                                                                          *)
(* Structure as KeyedLock.tla: environment actions are what the driver does (Go: let a task *)
(* issue its next operation; Resume: open the gate inside an edit_state block); task steps  *)
(* are the suspension-free sections of the code the event loop runs (Issue, Acquire, Finish).*)
(* State objects live in `heap` (object identity matters: the in-memory edit_state mutates  *)
(* the live object in place, the SQLite one a private copy loaded from the row).            *)
(**************************************************************************)
EXTENDS Naturals, Sequences, FiniteSets, TLC

CONSTANTS
  Procs,
  Systems,                    \* set of [be, kind, dev]: one is chosen in Init
                              \*   be    "memory" | "sqlite"
                              \*   kind  "dict" (DictState: open key set) | "typed" (CState(PState): a, b)
                              \*   dev   Dev_SqliteSetStateNoLock: TRUE = as the code is today
  ProgSpace(_)                \* kind -> set of programs: [Procs -> Seq(op)], op = [op, k, v]
                              \*   set(k, v) | setstate {k: v} (replace) | setparent a := v (typed merge)
                              \*   | clear | edit: s[k] = s.get(k, 0) + v with an await in between

VARIABLES
  sys,       \* the system under consideration (chosen in Init)
  prog,      \* the program (chosen in Init)
  pc,        \* Procs -> "idle" | "issue" | "lockwait" | "inblock" | "wake"
  ip,        \* Procs -> index of the current / next operation
  locked,    \* asyncio.Lock._locked
  waiters,   \* asyncio.Lock._waiters: Seq([p, fut]), fut in {"pending", "woken"}
  heap,      \* Seq(content): state objects; content = function from keys to integers
  cur,       \* index of the store's current state (memory: self._state; sqlite: the row)
  loc,       \* Procs -> index of the object yielded by the open edit_state block (0 = none)
  rd,        \* Procs -> value read inside the block before the await
  kf         \* history: a lock-free set_state/clear completed while an edit_state block was open

vars == <<sys, prog, pc, ip, locked, waiters, heap, cur, loc, rd, kf>>

Backend == sys.be
Kind == sys.kind
Dev_SqliteSetStateNoLock == sys.dev

Keys == {"a", "b"}
NoFun == [k \in {} |-> 0]
InitContent == IF Kind = "typed" THEN [k \in Keys |-> 0] ELSE NoFun
Put(f, k, v) == (k :> v) @@ f
Get(f, k) == IF k \in DOMAIN f THEN f[k] ELSE 0

\* what one operation does to a state when it runs alone (edit_state block = one operation)
Eff(o, c) ==
  CASE o.op = "set" -> Put(c, o.k, o.v)
    [] o.op = "setstate" -> IF Kind = "typed" THEN [k \in Keys |-> IF k = o.k THEN o.v ELSE 0]
                            ELSE (o.k :> o.v)
    [] o.op = "setparent" -> Put(c, "a", o.v)
    [] o.op = "clear" -> InitContent
    [] o.op = "edit" -> Put(c, o.k, Get(c, o.k) + o.v)

Store == heap[cur]
Op(p) == prog[p][ip[p]]
HasOp(p) == ip[p] <= Len(prog[p])
Open == {p \in Procs : pc[p] \in {"inblock", "wake"}}
NeedsLock(o) == \/ Backend = "memory"
                \/ o.op \in {"set", "edit"}
                \/ ~Dev_SqliteSetStateNoLock

WakeFirst(ws) == IF ws # <<>> /\ ws[1].fut = "pending" THEN [ws EXCEPT ![1].fut = "woken"] ELSE ws
Without(ws, p) == SelectSeq(ws, LAMBDA w : w.p # p)
Woken(p) == \E i \in 1..Len(waiters) : waiters[i].p = p /\ waiters[i].fut = "woken"

Init ==
  /\ sys \in Systems
  /\ prog \in ProgSpace(sys.kind)
  /\ pc = [p \in Procs |-> "idle"]
  /\ ip = [p \in Procs |-> 1]
  /\ locked = FALSE /\ waiters = <<>>
  /\ heap = <<InitContent>> /\ cur = 1
  /\ loc = [p \in Procs |-> 0]
  /\ rd = [p \in Procs |-> 0]
  /\ kf = FALSE

----------------------------------------------------------------------------
(* environment (driver) *)
Go(p) ==
  /\ pc[p] = "idle" /\ HasOp(p)
  /\ pc' = [pc EXCEPT ![p] = "issue"]
  /\ UNCHANGED <<sys, prog, ip, locked, waiters, heap, cur, loc, rd, kf>>

Resume(p) ==
  /\ pc[p] = "inblock"
  /\ pc' = [pc EXCEPT ![p] = "wake"]
  /\ UNCHANGED <<sys, prog, ip, locked, waiters, heap, cur, loc, rd, kf>>

(* pieces of task steps *)
\* a non-edit operation runs to completion (under the lock or without one)
Atomic(p, o) ==
  /\ IF Backend = "memory" /\ o.op = "set"
       THEN heap' = [heap EXCEPT ![cur] = Eff(o, heap[cur])] /\ cur' = cur          \* in place
       ELSE heap' = Append(heap, Eff(o, heap[cur])) /\ cur' = Len(heap) + 1         \* new object / row
  /\ ip' = [ip EXCEPT ![p] = @ + 1]
  /\ pc' = [pc EXCEPT ![p] = "idle"]
  /\ kf' = (kf \/ (Open # {} /\ ~NeedsLock(o)))
  /\ UNCHANGED <<loc, rd>>

\* entering the edit_state block: memory yields the live object, sqlite a copy loaded from the row
Enter(p, o) ==
  /\ IF Backend = "memory"
       THEN heap' = heap /\ loc' = [loc EXCEPT ![p] = cur]
       ELSE heap' = Append(heap, heap[cur]) /\ loc' = [loc EXCEPT ![p] = Len(heap) + 1]
  /\ rd' = [rd EXCEPT ![p] = Get(heap[cur], o.k)]
  /\ pc' = [pc EXCEPT ![p] = "inblock"]
  /\ UNCHANGED <<ip, cur, kf>>

(* task steps *)
Issue(p) ==
  /\ pc[p] = "issue"
  /\ LET o == Op(p) IN
     IF ~NeedsLock(o)
       THEN Atomic(p, o) /\ UNCHANGED <<locked, waiters>>
       ELSE IF ~locked /\ waiters = <<>>
         THEN IF o.op = "edit"
                THEN Enter(p, o) /\ locked' = TRUE /\ UNCHANGED waiters
                ELSE Atomic(p, o) /\ UNCHANGED <<locked, waiters>>      \* acquire ... release in one section
         ELSE /\ waiters' = Append(waiters, [p |-> p, fut |-> "pending"])
              /\ pc' = [pc EXCEPT ![p] = "lockwait"]
              /\ UNCHANGED <<ip, locked, heap, cur, loc, rd, kf>>
  /\ UNCHANGED <<sys, prog>>

Acquire(p) ==
  /\ pc[p] = "lockwait" /\ Woken(p)
  /\ LET o == Op(p) IN
     IF o.op = "edit"
       THEN Enter(p, o) /\ locked' = TRUE /\ waiters' = Without(waiters, p)
       ELSE Atomic(p, o) /\ locked' = FALSE /\ waiters' = WakeFirst(Without(waiters, p))
  /\ UNCHANGED <<sys, prog>>

\* after the await: write, leave the block (memory: self._state = s; sqlite: save the copy), release
Finish(p) ==
  /\ pc[p] = "wake"
  /\ LET o == Op(p) IN
       heap' = [heap EXCEPT ![loc[p]] = Put(@, o.k, rd[p] + o.v)]
  /\ cur' = loc[p]
  /\ loc' = [loc EXCEPT ![p] = 0]
  /\ locked' = FALSE /\ waiters' = WakeFirst(waiters)
  /\ ip' = [ip EXCEPT ![p] = @ + 1]
  /\ pc' = [pc EXCEPT ![p] = "idle"]
  /\ UNCHANGED <<sys, prog, rd, kf>>

TaskStep(p) == Issue(p) \/ Acquire(p) \/ Finish(p)
EnvStep(p) == Go(p) \/ Resume(p)
Next == \E p \in Procs : TaskStep(p) \/ EnvStep(p)
Spec == Init /\ [][Next]_vars
FairSpec == Spec /\ \A p \in Procs : WF_vars(TaskStep(p)) /\ WF_vars(EnvStep(p))

----------------------------------------------------------------------------
(* C20 *)
AllDone == \A p \in Procs : pc[p] = "idle" /\ ~HasOp(p)
AllOps == {x \in Procs \X (1..3) : x[2] <= Len(prog[x[1]])}

\* results of the serial executions: every order of the same operations, each edit_state block atomic
RECURSIVE SerialFrom(_, _)
SerialFrom(c, rest) ==
  IF rest = {} THEN {c}
  ELSE UNION {SerialFrom(Eff(prog[x[1]][x[2]], c), rest \ {x}) : x \in rest}
Serial == SerialFrom(InitContent, AllOps)

Inv_C20 == AllDone => Store \in Serial
Inv_C20_KF == AllDone => (Store \in Serial \/ kf)

\* no completed write is overwritten by an edit that started before it: when an edit_state block
\* commits, the store is what the block's update makes of the store as it was just before
Commit(p) == pc[p] = "wake" /\ pc'[p] = "idle"
Act_C20 == [][\A p \in Procs : Commit(p) => heap'[cur'] = Eff(Op(p), Store)]_vars
Act_C20_KF == [][\A p \in Procs : Commit(p) => (heap'[cur'] = Eff(Op(p), Store) \/ kf)]_vars

Inv_Lock == /\ locked <=> Open # {}
            /\ Cardinality(Open) <= 1
            /\ \A i \in 1..Len(waiters) : pc[waiters[i].p] = "lockwait"
\* no lost wake-up: a free lock with waiters has a woken (runnable) waiter
Inv_Baton == (~locked /\ waiters # <<>>) => waiters[1].fut = "woken"
Live_Done == <>AllDone

TypeOK == /\ pc \in [Procs -> {"idle", "issue", "lockwait", "inblock", "wake"}]
          /\ cur \in 1..Len(heap)
=============================================================================
