---- MODULE TraceConnMode ----
(* Trace validation: do the results recorded from the two real stores (per-call / single connection) *)
(* follow ConnMode.tla?  One event = one operation with the result string of either store.           *)
EXTENDS ConnMode, Json, IOUtils

T == JsonDeserialize(IOEnv.TRACE_FILE)
VARIABLES tid, l
tvars == <<vars, tid, l>>
Tc == T.traces[tid]
TraceDev == T.dev
TraceKeys == {T.keys[i] : i \in 1..Len(T.keys)}
TraceVals == {1, 2}

TraceInit == Init /\ tid \in 1..Len(T.traces) /\ l = 1 /\ Tc.kind = "ops" /\ Tc.altmode = "single"

Step ==
  /\ l <= Len(Tc.ref)
  /\ Do(Tc.alt[l].op)
  /\ last'.rS = Tc.alt[l].r
  /\ last'.rP = Tc.ref[l].r
  /\ PrintT(<<"P", tid, l>>)
  /\ l' = l + 1 /\ UNCHANGED tid
TraceNext == Step
====
