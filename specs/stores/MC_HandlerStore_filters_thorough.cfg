CONSTANTS
  Ids <- Ids2
  Wfs <- Wfs2
  Statuses <- St4
  Confs <- ConfsFilters
  MaxOps = 0
  DelFilters <- Menu
  AllFilters <- AllF
  UpHasRun <- BOOLEAN
  UpIdle <- TF
  UpStatuses <- UpStT
  UpIdleOps <- UpIoT
  CountOps = FALSE
  Dev_QueueCountsDeadEntries = TRUE
INIT InitAll
NEXT FillRest
INVARIANT Inv_QueryExact
INVARIANT Inv_DeleteExact
