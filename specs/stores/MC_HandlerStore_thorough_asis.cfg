CONSTANTS
  Ids <- Ids3
  Wfs <- Wfs1
  Statuses <- St4
  Confs <- ConfsThorough
  MaxOps = 6
  DelFilters <- Menu
  AllFilters <- AllF
  UpHasRun <- TrueOnly
  UpIdle <- FOnly
  UpStatuses <- UpStT
  UpIdleOps <- UpIoT
  CountOps = TRUE
  Dev_QueueCountsDeadEntries = TRUE
INIT Init
NEXT Next
INVARIANT TypeOK
INVARIANT Inv_C24_asis
INVARIANT Inv_NeverTooMany
CONSTRAINT DepthOK
