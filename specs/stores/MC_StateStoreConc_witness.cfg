CONSTANTS
  Procs = {"p1", "p2"}
  Systems <- Sys_witness
  ProgSpace <- PS_witness
SPECIFICATION FairSpec
INVARIANT TypeOK
INVARIANT Inv_Lock
INVARIANT Inv_Baton
INVARIANT Inv_C20
