\* code as it is, crashes anywhere, strict C28: expected to be refuted (witness of the known finding)
CONSTANTS
  N = 4
  Idem <- Idem4
  MaxRuns = 2
  MaxCrash = 1
  Dev_BootstrapNotAtomic = TRUE
SPECIFICATION Spec
INVARIANT Inv_C28
