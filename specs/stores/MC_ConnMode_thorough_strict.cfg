CONSTANTS
  MaxOps = 5
  MaxLog = 2
  Keys <- K2
  Vals <- V2
  Dev_StateStoreClosesShared = FALSE
INIT Init
NEXT Next
INVARIANT TypeOK
INVARIANT Inv_C21_strict
INVARIANT Inv_NoStateOpsEqual
