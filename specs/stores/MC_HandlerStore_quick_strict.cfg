CONSTANTS
  Ids <- Ids2
  Wfs <- Wfs1
  Statuses <- St2
  Confs <- ConfsThorough
  MaxOps = 4
  DelFilters <- MenuQuick
  AllFilters <- AllFQ
  UpHasRun <- BOOLEAN
  UpIdle <- FOnly
  UpStatuses <- UpStQ
  UpIdleOps <- KeepOnly
  CountOps = FALSE
  Dev_QueueCountsDeadEntries = FALSE
INIT Init
NEXT Next
INVARIANT TypeOK
INVARIANT Inv_C24_strict
CONSTRAINT DepthOK
