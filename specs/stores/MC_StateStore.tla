---- MODULE MC_StateStore ----
(* Model-checking instances of StateStore.tla: the operation alphabets of the C19 scenario   *)
(* families.  Keys: a, b plain; "0" numeric-looking (list index / dict key).                 *)
EXTENDS StateStore

Range(q) == {q[i] : i \in 1..Len(q)}

\* probe paths are explicit sequences: the driver reads them from the FAM lines
PP_ab == << <<"a">>, <<"b">>, <<"a","a">>, <<"a","b">>, <<"a","0">>,
            <<"b","a">>, <<"b","b">>, <<"b","0">> >>
PP_ab0 == PP_ab \o << <<"0">>, <<"0","a">>, <<"0","b">>, <<"0","0">> >>
PP_num == << <<"0">>, <<"a">>, <<"0","a">>, <<"0","0">>, <<"a","a">>, <<"a","0">> >>
PP_d3 == << <<"a">>, <<"b">>, <<"a","a">>, <<"a","b">>, <<"a","0">>, <<"b","0">>,
            <<"a","a","a">>, <<"a","a","0">>, <<"a","b","a">>, <<"a","0","a">>, <<"a","0","0">>,
            <<"a","b","0">>, <<"b","0","a">> >>

PP_t0 == << <<"a">>, <<"b">>, <<"0">>, <<"a","a">>, <<"a","0">>, <<"b","a">>, <<"b","0">>, <<"0","a">>, <<"0","0">> >>
SP_t0 == Range(PP_t0)
SP_red == {<<"a">>, <<"a","b">>, <<"a","0">>, <<"b">>}
SP_red3 == {<<"a">>, <<"a","b">>, <<"a","0">>}
SP_tiny == {<<"a">>, <<"a","0">>}
SP_d3 == {<<"a">>, <<"a","b">>, <<"a","0">>, <<"a","a","0">>, <<"a","0","a">>, <<"a","b","a">>, <<"b","0">>}
VK_all == {"S", "M", "L"}
VK_SL == {"S", "L"}

Fam(name, kind, sp, vk, sv, ek, mk, clr, prb, pp, mo, mh) ==
  [name |-> name, kind |-> kind, setpaths |-> sp, valkinds |-> vk, variants |-> sv, editkeys |-> ek,
   mutkeys |-> mk, clear |-> clr, probe |-> prb, ppaths |-> pp, maxops |-> mo, maxh |-> mh]

TV == {"child", "parent", "parent0"}
\*            name         kind     set paths       values  set_state  edit keys      mutate keys  clear probe paths   ops handles
F_dict_w2   == Fam("dict_w2",   "dict",  Range(PP_ab),   VK_all, {"dict"}, {"a","b"},     {"a","b"}, TRUE, TRUE, PP_ab,  2, 1)
F_dict_r3   == Fam("dict_r3",   "dict",  SP_tiny,        VK_SL,  {"dict"}, {"a"},         {"a"},     TRUE, TRUE, PP_ab,  3, 1)
F_typed_w2  == Fam("typed_w2",  "typed", SP_t0,          VK_all, TV,       {"a","b","0"}, {"a","b"}, TRUE, TRUE, PP_t0,  2, 1)
F_typed_r3  == Fam("typed_r3",  "typed", SP_tiny,        VK_SL,  TV,       {"b"},         {"a"},     FALSE, FALSE, PP_t0, 3, 1)
F_dict_num2 == Fam("dict_num2", "dict",  Range(PP_num),  VK_all, {"dict"}, {"0"},         {"0"},     TRUE, TRUE, PP_num, 2, 1)

\* thorough tier: longer sequences over reduced alphabets, wider alphabets at length 3, depth-3 paths,
\* two snapshot handles
SP_r4 == {<<"a">>, <<"a","b">>, <<"a","0">>, <<"b">>}
SP_d3s == {<<"a">>, <<"a","b">>, <<"a","0">>, <<"a","0","a">>, <<"a","b","a">>}
SP_n3 == {<<"0">>, <<"0","a">>, <<"a">>}
F_dict_r3m  == Fam("dict_r3m",  "dict",  SP_red,         VK_all, {"dict"}, {"a"},         {"a"},     TRUE, TRUE, PP_ab,  3, 1)
F_dict_r3s  == Fam("dict_r3s",  "dict",  SP_red3,        VK_SL,  {"dict"}, {"a"},         {"a"},     TRUE, TRUE, PP_ab,  3, 1)
F_typed_w2f == Fam("typed_w2f", "typed", Range(PP_ab0),  VK_all, TV,       {"a","b","0"}, {"a","b"}, TRUE, TRUE, PP_ab0, 2, 1)
F_typed_w3  == Fam("typed_w3",  "typed", SP_r4,          VK_SL,  TV,       {"a","b"},     {"a"},     TRUE, TRUE, PP_ab0, 3, 1)
F_dict_r4   == Fam("dict_r4",   "dict",  SP_tiny,        VK_SL,  {"dict"}, {"a"},         {"a"},     TRUE, FALSE, PP_ab, 4, 2)
F_typed_r4  == Fam("typed_r4",  "typed", SP_tiny,        VK_SL,  TV,       {"b"},         {"a"},     FALSE, FALSE, PP_ab0, 4, 2)
F_dict_d3   == Fam("dict_d3",   "dict",  SP_d3s, {"S","M","LM"}, {"dict"}, {"a"},         {},        FALSE, FALSE, PP_d3, 3, 0)
F_typed_d3  == Fam("typed_d3",  "typed", SP_d3s, {"S","M","LM"}, {"parent"}, {},          {},        FALSE, FALSE, PP_d3, 3, 0)
F_dict_num3 == Fam("dict_num3", "dict",  SP_n3,          VK_SL,  {"dict"}, {"0"},         {"0"},     TRUE, TRUE, PP_num, 3, 1)
\* other JSON value types (no numeric probe segments: the path functions index into strings)
PP_nonum == << <<"a">>, <<"b">>, <<"a","a">>, <<"a","b">>, <<"b","a">> >>
SP_json == {<<"a">>, <<"a","b">>, <<"b">>}
VK_json == {"S", "N", "T", "F", "X", "B", "E", "ME", "LE"}
F_dict_json  == Fam("dict_json",  "dict",  SP_json, VK_json, {"dict"}, {"a"}, {"a"}, TRUE, TRUE, PP_nonum, 2, 1)
F_typed_json == Fam("typed_json", "typed", SP_json, VK_json, TV,       {"b"}, {"a"}, TRUE, TRUE, PP_nonum, 2, 1)
F_dict_t5   == Fam("dict_t5",   "dict",  SP_tiny,        {"S"},  {"dict"}, {"a"},         {"a"},     FALSE, FALSE, PP_ab, 5, 1)
F_typed_t5  == Fam("typed_t5",  "typed", SP_tiny,        {"S"},  {"parent"}, {"b"},       {"a"},     FALSE, FALSE, PP_ab0, 5, 1)

Fams_quick == {F_dict_w2, F_dict_r3, F_typed_w2, F_typed_r3, F_dict_num2}
Fams_thorough_a == {F_dict_json, F_dict_r3m, F_dict_r3s, F_dict_r4, F_dict_d3, F_dict_num3, F_dict_t5}
Fams_thorough_b == {F_typed_json, F_typed_w2f, F_typed_w3, F_typed_r4, F_typed_d3, F_typed_t5}
Fams_ascoded == {Fam("ascoded", "dict", SP_red, VK_SL, {"dict"}, {"a"}, {"a"}, TRUE, TRUE, PP_ab, 3, 1)}

ASSUME Emit => \A f \in Families : PrintT(<<"FAM", f.name, f.kind, ToJson(f.ppaths)>>)
====
