\* the property as stated (no crashes), code as it is
CONSTANTS
  N = 4
  Idem <- Idem4
  MaxRuns = 3
  MaxCrash = 0
  Dev_BootstrapNotAtomic = TRUE
SPECIFICATION FairSpec
INVARIANT TypeOK
INVARIANT Inv_C28
INVARIANT Inv_SchemaRecorded
PROPERTY Live_RunsComplete
