CONSTANTS
  MaxOps = 1000
  MaxLog = 1000
  Keys <- TraceKeys
  Vals <- TraceVals
  Dev_StateStoreClosesShared <- TraceDev
INIT TraceInit
NEXT TraceNext
