------------------------------ MODULE ConnMode ------------------------------
(* Connection handling of SqliteWorkflowStore / SqliteStateStore in its two modes, as a product:  *)
(* the same operation is applied to a per-call-connection store (P: every operation opens, uses,  *)
(* commits and closes its own connection -- it cannot fail) and to a single_connection=True store *)
(* (S: one persistent connection `_persistent_conn`, handed to every SqliteStateStore created by  *)
(* create_state_store).  Data is abstracted to what the operations return.                        *)
(*                                                                                                *)
(* Connection uses, as the code is written:                                                       *)
(*   workflow-store ops (handlers, events, ticks): `with self._connect() as conn` -- in S mode    *)
(*     the context manager yields the persistent connection and does not close it         [W]    *)
(*   state-store ops: `conn = self._connect()` returns the shared connection in S mode, and       *)
(*     _load_state / set_state / _save_state(conn=None) / _copy_state_from_run end with           *)
(*     `finally: conn.close()`                                                            [S]    *)
(*     get / get_state = one [S] (load; creates the default row if missing)                       *)
(*     set_state / clear = one [S]                                                                *)
(*     set(path, v) = edit_state = two [S]: load, then _save_state() on a fresh _connect()        *)
(*     create_state_store(other run, serialized_state = this run's sqlite reference) followed by  *)
(*       get_state = two [S]: _copy_state_from_run (INSERT .. SELECT), then the load ("st_seed":  *)
(*       a new run continued from a previous run's state)                                         *)
(*                                                                                                *)
(* Dev_StateStoreClosesShared (TRUE = code today): an [S] use closes the shared connection, so     *)
(* every later use of it -- by any store operation -- raises ProgrammingError ("Cannot operate on  *)
(* a closed database"); `set` fails even as the very first state operation (its second use).       *)
(* FALSE = intended: the shared connection is left open (closed only by its owner).                *)
(*****************************************************************************)
EXTENDS Integers, Sequences, FiniteSets, TLC

CONSTANTS MaxOps, MaxLog, Keys, Vals, Dev_StateStoreClosesShared

VARIABLES conn,     \* S mode: "open" | "closed"
          dS, dP,   \* abstract data of the two stores
          last,     \* [op, rS, rP]: the last operation and what each store returned ("error" = exception)
          stUsed,   \* history: a state-store operation has used the shared connection
          nops

vars == <<conn, dS, dP, last, stUsed, nops>>

D0 == [h |-> "absent", ev |-> 0, tk |-> 0, row |-> FALSE, st |-> [k \in Keys |-> 0]]
Statuses == {"running", "completed"}

\* reference semantics of an operation on abstract data: [d |-> new data, r |-> result]
\* (results are strings / numbers rendered as strings so that `last` has one type)
Num(n) == IF n = 0 THEN "0" ELSE IF n = 1 THEN "1" ELSE IF n = 2 THEN "2" ELSE IF n = 3 THEN "3" ELSE "n"
StStr(s) == Num(s["a"]) \o "," \o (IF "b" \in Keys THEN Num(s["b"]) ELSE "-")     \* Keys is {"a"} or {"a","b"}
Sem(op, d) ==
  CASE op.k = "h_upsert" -> [d |-> [d EXCEPT !.h = op.a], r |-> "ok"]
    [] op.k = "h_query"  -> [d |-> d, r |-> d.h]
    [] op.k = "h_delete" -> [d |-> [d EXCEPT !.h = "absent"], r |-> IF d.h = "absent" THEN "0" ELSE "1"]
    [] op.k = "ev_append" -> [d |-> [d EXCEPT !.ev = @ + 1], r |-> "ok"]
    [] op.k = "ev_query" -> [d |-> d, r |-> Num(d.ev)]
    [] op.k = "tk_append" -> [d |-> [d EXCEPT !.tk = @ + 1], r |-> "ok"]
    [] op.k = "tk_get" -> [d |-> d, r |-> Num(d.tk)]
    [] op.k = "st_get" -> [d |-> [d EXCEPT !.row = TRUE], r |-> Num(d.st[op.a])]
    [] op.k = "st_get_state" -> [d |-> [d EXCEPT !.row = TRUE], r |-> StStr(d.st)]
    [] op.k = "st_set" -> [d |-> [d EXCEPT !.row = TRUE, !.st[op.a] = op.v], r |-> "ok"]
    [] op.k = "st_set_state" -> [d |-> [d EXCEPT !.row = TRUE, !.st = [k \in Keys |-> IF k = op.a THEN op.v ELSE 0]], r |-> "ok"]
    [] op.k = "st_clear" -> [d |-> [d EXCEPT !.row = TRUE, !.st = [k \in Keys |-> 0]], r |-> "ok"]
    [] op.k = "st_seed" -> [d |-> d, r |-> StStr(d.st)]         \* the seeded run's state = this run's state (a copy)

IsState(op) == op.k \in {"st_get", "st_get_state", "st_set", "st_set_state", "st_clear", "st_seed"}
Uses(op) == IF op.k \in {"st_set", "st_seed"} THEN 2 ELSE 1          \* number of times the connection is fetched

Ops == [k : {"h_query", "h_delete", "ev_append", "ev_query", "tk_append", "tk_get", "st_get_state", "st_clear", "st_seed"}, a : {"-"}, v : {0}]
       \cup [k : {"h_upsert"}, a : Statuses, v : {0}]
       \cup [k : {"st_get"}, a : Keys, v : {0}]
       \cup [k : {"st_set", "st_set_state"}, a : Keys, v : Vals]

\* what the S-mode store does with the operation
ShareStep(op) ==
  IF conn = "closed" THEN [d |-> dS, r |-> "error", c |-> "closed"]
  ELSE IF ~IsState(op) THEN [d |-> Sem(op, dS).d, r |-> Sem(op, dS).r, c |-> "open"]
  ELSE IF ~Dev_StateStoreClosesShared THEN [d |-> Sem(op, dS).d, r |-> Sem(op, dS).r, c |-> "open"]
  ELSE IF Uses(op) = 1 THEN [d |-> Sem(op, dS).d, r |-> Sem(op, dS).r, c |-> "closed"]
  ELSE IF op.k = "st_seed" THEN [d |-> dS, r |-> "error", c |-> "closed"]     \* the copy closed it; the load fails
  ELSE \* set: the load half ran (default row created) and closed the connection; the save half fails
       [d |-> [dS EXCEPT !.row = TRUE], r |-> "error", c |-> "closed"]

Do(op) ==
  /\ nops < MaxOps /\ nops' = nops + 1
  /\ (op.k \in {"ev_append"} => dP.ev < MaxLog) /\ (op.k \in {"tk_append"} => dP.tk < MaxLog)
  /\ LET s == ShareStep(op) p == Sem(op, dP) IN
     /\ dS' = s.d /\ conn' = s.c /\ dP' = p.d
     /\ last' = [op |-> op, rS |-> s.r, rP |-> p.r]
  /\ stUsed' = (stUsed \/ (IsState(op) /\ conn = "open"))

NoOp == [k |-> "-", a |-> "-", v |-> 0]
Init == conn = "open" /\ dS = D0 /\ dP = D0 /\ last = [op |-> NoOp, rS |-> "ok", rP |-> "ok"] /\ stUsed = FALSE /\ nops = 0
Next == \E op \in Ops : Do(op)
Spec == Init /\ [][Next]_vars

----------------------------------------------------------------------------
(* C21: same results in both modes (the per-call store never fails, so this also says: no operation fails) *)
Inv_C21_strict == last.rS = last.rP /\ dS = dP
\* as-is: the two modes differ only after / inside a state-store operation on the shared connection
Inv_C21_asis == (last.rS # last.rP \/ dS # dP) => (Dev_StateStoreClosesShared /\ (stUsed \/ IsState(last.op)))
\* and a history without state-store operations behaves identically even today
Inv_NoStateOpsEqual == ~stUsed /\ ~IsState(last.op) => (last.rS = last.rP /\ dS = dP /\ conn = "open")
TypeOK == conn \in {"open", "closed"} /\ nops \in 0..MaxOps
=============================================================================
