CONSTANTS
  Ids <- Ids3
  Wfs <- Wfs1
  Statuses <- St3
  Confs <- ConfsThorough
  MaxOps = 4
  DelFilters <- MenuQuick
  AllFilters <- AllFQ
  UpHasRun <- TrueOnly
  UpIdle <- FOnly
  UpStatuses <- UpStQ
  UpIdleOps <- KeepOnly
  CountOps = FALSE
  Dev_QueueCountsDeadEntries = TRUE
INIT Init
NEXT Next
INVARIANT TypeOK
INVARIANT Inv_C24_asis
INVARIANT Inv_NeverTooMany
CONSTRAINT DepthOK
