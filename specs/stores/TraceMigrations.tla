---- MODULE TraceMigrations ----
(* Trace validation: are the database states recorded around real run_migrations calls (and real *)
(* kills inside them) behaviours of Migrations.tla?  One event = one call ("run": it returned or  *)
(* raised) or one killed call ("crash"); the statement-level steps in between are inferred.       *)
EXTENDS Migrations, Json, IOUtils

T == JsonDeserialize(IOEnv.TRACE_FILE)
TraceN == T.n
TraceIdem == {T.idem[i] : i \in 1..Len(T.idem)}
TraceDev == T.dev

VARIABLES tid, l, phase
tvars == <<vars, tid, l, phase>>

Tr == T.traces[tid]
Ev == Tr.events[l]

Count(s, x) == Cardinality({i \in 1..Len(s) : s[i] = x})
ObsDb(p) == [schema |-> {p.feat[i] : i \in 1..Len(p.feat)}, sm |-> p.has_sm,
             rows |-> [x \in V |-> Count(p.rows, x)], uv |-> p.uv]

TraceInit ==
  /\ tid \in 1..Len(T.traces) /\ l = 1 /\ phase = "start"
  /\ disk = ObsDb(Tr.pre)
  /\ txn = NoTxn /\ pc = "idle" /\ applied = {} /\ v = 1
  /\ last = "none" /\ hist = <<>> /\ crashes = 0 /\ bootCrashed = FALSE

TBegin == /\ phase = "start" /\ l <= Len(Tr.events)
          /\ RunBegin /\ phase' = "running" /\ UNCHANGED <<tid, l>>
TStep ==  /\ phase = "running" /\ Step
          /\ phase' = (IF pc' = "idle" THEN "ended" ELSE "running")
          /\ UNCHANGED <<tid, l>>
TCrash == /\ phase = "running" /\ Ev.op = "crash"
          /\ Crash /\ phase' = "ended" /\ UNCHANGED <<tid, l>>
TMatch == /\ phase = "ended"
          /\ disk = ObsDb(Ev.post)
          /\ IF Ev.op = "crash" THEN Len(hist) = 0
             ELSE Len(hist) > 0 /\ last = (IF Ev.res = "ok" THEN "ok" ELSE "error")
          /\ PrintT(<<"P", tid, l>>)
          /\ l' = l + 1 /\ phase' = "start" /\ UNCHANGED <<vars, tid>>

TraceNext == TBegin \/ TStep \/ TCrash \/ TMatch
====
