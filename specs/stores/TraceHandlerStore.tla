---- MODULE TraceHandlerStore ----
(* Trace validation: are histories recorded from the real stores behaviours of HandlerStore.tla (as-is)? *)
(* One event = one operation with what it returned, the table contents read directly afterwards and, for *)
(* the memory store, its _terminal_queue (internal; conformance only).  When the matched step is one at   *)
(* which the model itself breaks the statement, the cause label computed by the model is printed          *)
(* (<<"KF", tid, l, cause>>) -- the check uses it as the cause feature of the finding key.               *)
EXTENDS MC_HandlerStore, IOUtils

T == JsonDeserialize(IOEnv.TRACE_FILE)
VARIABLES tid, l
tvars == <<vars, tid, l>>
Tc == T.traces[tid]
E == Tc.ev[l]

TraceIds == {T.ids[i] : i \in 1..Len(T.ids)}
TraceConfs == [b : {"memory", "sqlite"}, k : -1..3]
TraceDev == T.dev

ToSet(s) == {s[i] : i \in 1..Len(s)}
RowsAsSet(r) == {[id |-> id, wf |-> r[id].wf, st |-> r[id].st, run |-> r[id].run, idle |-> r[id].idle] : id \in {x \in Ids : Present(r, x)}}
Flt(f) == [ids |-> [given |-> f.ids.given, vals |-> ToSet(f.ids.vals)], runs |-> [given |-> f.runs.given, vals |-> ToSet(f.runs.vals)],
           wfs |-> [given |-> f.wfs.given, vals |-> ToSet(f.wfs.vals)], sts |-> [given |-> f.sts.given, vals |-> ToSet(f.sts.vals)],
           idle |-> f.idle]

TraceInit == /\ Init /\ tid \in 1..Len(T.traces) /\ l = 1
             /\ Tc.kind = "history"
             /\ conf = [b |-> Tc.backend, k |-> Tc.k]

Apply ==
  \/ E.op = "upsert" /\ Upsert(E.id, E.wf, E.st, E.hr = "T", E.idle)
  \/ E.op = "update" /\ UpdateStatus(E.id, E.st, E.io)
  \/ E.op = "delete" /\ Delete(E.k)
  \/ E.op = "query" /\ E.exc = "-" /\ ToSet(E.ret_ids) = QueryCode(rows, Flt(E.f)) /\ UNCHANGED vars

Step ==
  /\ l <= Len(Tc.ev) /\ E.exc = "-"
  /\ Apply
  /\ RowsAsSet(rows') = ToSet(E.rows)
  /\ (Backend = "memory" => tq' = E.tq)
  /\ (E.op = "delete" => E.ret_n = Cardinality(DeleteSet(rows, DelFilters[E.k])))
  /\ PrintT(<<"P", tid, l>>)
  /\ (flag' # "ok") => PrintT(<<"KF", tid, l, flag'>>)
  /\ l' = l + 1 /\ UNCHANGED tid

\* the flag is reset after every matched event so that every failing step gets its own cause label
Reset == /\ flag # "ok" /\ flag' = "ok" /\ UNCHANGED <<conf, rows, tq, comp, comp1, nops, tid, l>>

TraceNext == IF flag # "ok" THEN Reset ELSE Step
====
