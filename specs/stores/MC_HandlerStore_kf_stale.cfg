CONSTANTS
  Ids <- Ids3
  Wfs <- Wfs1
  Statuses <- St2
  Confs <- ConfsStale
  MaxOps = 4
  DelFilters <- MenuQuick
  AllFilters <- AllF
  UpHasRun <- TrueOnly
  UpIdle <- FOnly
  UpStatuses <- UpStQ
  UpIdleOps <- KeepOnly
  CountOps = FALSE
  Dev_QueueCountsDeadEntries = TRUE
INIT Init
NEXT Next
INVARIANT TypeOK
INVARIANT NoStaleFlag
CONSTRAINT DepthOK
