CONSTANTS
  Backend = "memory"
  Dev_SnapshotSharesData = TRUE
  Dev_NumericTopKey = TRUE
  Dev_FreshRowParentReplace = TRUE
  Families <- Fams_ascoded
  Emit = FALSE
INIT Init
NEXT Next
PROPERTY Act_C19_Isolation
