CONSTANTS
  N <- TraceN
  Idem <- TraceIdem
  Dev_BootstrapNotAtomic <- TraceDev
  MaxRuns = 1000
  MaxCrash = 1000
INIT TraceInit
NEXT TraceNext
