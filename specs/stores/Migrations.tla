---------------------------- MODULE Migrations ----------------------------
(* llama_agents.server._store.sqlite.migrate.run_migrations for one package ("server").   *)
(*                                                                                        *)
(* The database is what SQLite keeps durably: which migration scripts' schema objects are  *)
(* present (schema), whether the bookkeeping table schema_migrations exists (sm), how many *)
(* rows it holds per version (rows: the PRIMARY KEY (package, version) rejects a second    *)
(* row, which is modelled as the INSERT failing), and the legacy PRAGMA user_version (uv). *)
(* `disk` is the committed database, `txn` the working copy of the open transaction.       *)
(*                                                                                        *)
(* One action per statement group of the code, so that a crash (process killed, SQLite     *)
(* rolls the open transaction back on the next open) can be placed between any two:        *)
(*   BootCheck    _bootstrap_schema_migrations: SELECT sqlite_master; PRAGMA user_version; *)
(*                executescript(CREATE TABLE IF NOT EXISTS schema_migrations) -- executes   *)
(*                in autocommit mode, i.e. is durable at once                              *)
(*   Seed         INSERT OR IGNORE (server, 1..user_version) inside Python's implicit txn  *)
(*   SeedCommit   conn.commit()                                                            *)
(*   Select       SELECT version FROM schema_migrations -> applied                         *)
(*   Skip/Script  per migration file in lexicographic order: skip if recorded, else        *)
(*                executescript("BEGIN;" + sql); on error ROLLBACK and re-raise            *)
(*   Record       INSERT INTO schema_migrations (server, v)                                *)
(*   Commit       COMMIT; applied.add(v)                                                   *)
(*   Finish       the loop ends, the call returns                                          *)
(* Dev_BootstrapNotAtomic = TRUE is the code as it is (table creation durable before the   *)
(* seed rows are committed); FALSE is the intended design (table + seed rows atomically).  *)
(**************************************************************************)
EXTENDS Naturals, Sequences, FiniteSets, TLC

CONSTANTS N,                      \* migration files carry versions 1..N, applied in this order
          Idem,                   \* versions whose script can be re-applied (only IF NOT EXISTS DDL)
          MaxRuns, MaxCrash,
          Dev_BootstrapNotAtomic

V == 1..N
NoTxn == [none |-> TRUE]
ZeroRows == [x \in V |-> 0]
Upto(k) == {x \in V : x <= k}
RowsUpto(k) == [x \in V |-> IF x <= k THEN 1 ELSE 0]

Db(schema, sm, rows, uv) == [schema |-> schema, sm |-> sm, rows |-> rows, uv |-> uv]

\* start states of the property: fresh, every prefix recorded in schema_migrations, every legacy version
Fresh == Db({}, FALSE, ZeroRows, 0)
Prefix(k) == Db(Upto(k), TRUE, RowsUpto(k), 0)
Legacy(k) == Db(Upto(k), FALSE, ZeroRows, k)
StartStates == {Fresh} \cup {Prefix(k) : k \in 0..N} \cup {Legacy(k) : k \in 1..N}

VARIABLES
  disk,         \* committed database
  txn,          \* NoTxn or the working copy of the open transaction
  pc,           \* "idle" | "boot" | "seed" | "seedcommit" | "select" | "loop" | "record" | "commit"
  applied,      \* the runner's in-memory `applied` set
  v,            \* next migration file
  last,         \* result of the last completed run: "none" | "ok" | "error"
  hist,         \* committed database at the end of every run completed since the last crash
  crashes,
  bootCrashed   \* history: a crash hit the window between creating the table and committing the seed rows

vars == <<disk, txn, pc, applied, v, last, hist, crashes, bootCrashed>>

Init ==
  /\ disk \in StartStates
  /\ txn = NoTxn /\ pc = "idle" /\ applied = {} /\ v = 1
  /\ last = "none" /\ hist = <<>> /\ crashes = 0 /\ bootCrashed = FALSE

Seeded(db) == [db EXCEPT !.rows = [x \in V |-> IF x <= db.uv /\ db.rows[x] = 0 THEN 1 ELSE db.rows[x]]]

RunBegin ==
  /\ pc = "idle" /\ Len(hist) < MaxRuns
  /\ pc' = "boot"
  /\ UNCHANGED <<disk, txn, applied, v, last, hist, crashes, bootCrashed>>

BootCheck ==
  /\ pc = "boot"
  /\ IF disk.sm THEN pc' = "select" /\ UNCHANGED disk
     ELSE IF Dev_BootstrapNotAtomic
          THEN /\ disk' = [disk EXCEPT !.sm = TRUE]
               /\ pc' = IF disk.uv > 0 THEN "seed" ELSE "select"
          ELSE /\ disk' = Seeded([disk EXCEPT !.sm = TRUE])
               /\ pc' = "select"
  /\ UNCHANGED <<txn, applied, v, last, hist, crashes, bootCrashed>>

Seed ==
  /\ pc = "seed"
  /\ txn' = Seeded(disk)
  /\ pc' = "seedcommit"
  /\ UNCHANGED <<disk, applied, v, last, hist, crashes, bootCrashed>>

SeedCommit ==
  /\ pc = "seedcommit"
  /\ disk' = txn /\ txn' = NoTxn /\ pc' = "select"
  /\ UNCHANGED <<applied, v, last, hist, crashes, bootCrashed>>

Select ==
  /\ pc = "select"
  /\ applied' = {x \in V : disk.rows[x] > 0}
  /\ v' = 1 /\ pc' = "loop"
  /\ UNCHANGED <<disk, txn, last, hist, crashes, bootCrashed>>

Finish(res) ==
  /\ pc' = "idle" /\ last' = res /\ txn' = NoTxn
  /\ hist' = Append(hist, disk')

Skip ==
  /\ pc = "loop" /\ v <= N /\ v \in applied
  /\ v' = v + 1
  /\ UNCHANGED <<disk, txn, pc, applied, last, hist, crashes, bootCrashed>>

\* BEGIN; <script>.  A script that is not idempotent fails on objects that already exist
\* (ALTER TABLE ADD COLUMN: "duplicate column name"); the code rolls back and re-raises.
Script ==
  /\ pc = "loop" /\ v <= N /\ v \notin applied
  /\ IF v \in disk.schema /\ v \notin Idem
     THEN /\ UNCHANGED <<disk, applied, v>> /\ Finish("error")
     ELSE /\ txn' = [disk EXCEPT !.schema = @ \cup {v}]
          /\ pc' = "record"
          /\ UNCHANGED <<disk, applied, v, last, hist>>
  /\ UNCHANGED <<crashes, bootCrashed>>

\* INSERT INTO schema_migrations: a second row for the same version violates the primary key; the
\* IntegrityError propagates with the transaction open (rolled back when the connection goes away).
Record ==
  /\ pc = "record"
  /\ IF txn.rows[v] > 0
     THEN /\ UNCHANGED <<disk, applied, v>> /\ Finish("error")
     ELSE /\ txn' = [txn EXCEPT !.rows[v] = 1]
          /\ pc' = "commit"
          /\ UNCHANGED <<disk, applied, v, last, hist>>
  /\ UNCHANGED <<crashes, bootCrashed>>

Commit ==
  /\ pc = "commit"
  /\ disk' = txn /\ txn' = NoTxn
  /\ applied' = applied \cup {v} /\ v' = v + 1 /\ pc' = "loop"
  /\ UNCHANGED <<last, hist, crashes, bootCrashed>>

Done ==
  /\ pc = "loop" /\ v > N
  /\ UNCHANGED <<disk, applied, v>> /\ Finish("ok")
  /\ UNCHANGED <<crashes, bootCrashed>>

\* the process dies; whatever was not committed is gone; the next run starts from scratch
Crash ==
  /\ pc # "idle" /\ crashes < MaxCrash
  /\ txn' = NoTxn /\ pc' = "idle" /\ hist' = <<>> /\ last' = "none"
  /\ crashes' = crashes + 1
  /\ bootCrashed' = (bootCrashed \/ pc \in {"seed", "seedcommit"})
  /\ UNCHANGED <<disk, applied, v>>

Step == BootCheck \/ Seed \/ SeedCommit \/ Select \/ Skip \/ Script \/ Record \/ Commit \/ Done
Next == RunBegin \/ Step \/ Crash

Spec == Init /\ [][Next]_vars
FairSpec == Spec /\ WF_vars(RunBegin \/ Step)

------------------------------------------------------------------------------
TypeOK ==
  /\ disk \in [schema : SUBSET V, sm : BOOLEAN, rows : [V -> 0..2], uv : 0..N]
  /\ pc \in {"idle", "boot", "seed", "seedcommit", "select", "loop", "record", "commit"}
  /\ applied \subseteq V /\ v \in 1..(N + 1)
  /\ last \in {"none", "ok", "error"}

AtRest == pc = "idle" /\ Len(hist) >= 1

\* C28, clause by clause (strict forms)
Inv_Converge == AtRest => (last = "ok" /\ disk.schema = V)             \* same final schema for all starts
Inv_Once     == AtRest => (disk.sm /\ \A x \in V : disk.rows[x] = 1)   \* every version recorded once
Inv_Noop     == Len(hist) >= 2 => (last = "ok" /\ hist[Len(hist)] = hist[Len(hist) - 1])
Inv_C28 == Inv_Converge /\ Inv_Once /\ Inv_Noop

\* the bookkeeping never lags behind the schema (what makes re-running safe), except inside the
\* seeding window of the bootstrap -- which is exactly where a crash is harmful
Inv_SchemaRecorded == (disk.sm /\ ~bootCrashed /\ pc \notin {"seed", "seedcommit"})
                         => \A x \in disk.schema : disk.rows[x] = 1

\* Known failure shape of today's code: the bootstrap of a legacy database was interrupted after the
\* table became durable and before the seed rows were committed, so a non-re-appliable script whose
\* objects exist is not recorded.  Everything else must still satisfy C28.
KF_BootstrapInterrupted == bootCrashed /\ \E x \in disk.schema : disk.rows[x] = 0 /\ x \notin Idem
Inv_C28_Faithful == KF_BootstrapInterrupted \/ Inv_C28

\* fair runs complete: MaxRuns runs are eventually finished whatever crashes happen in between
Live_RunsComplete == <>(Len(hist) = MaxRuns)
=============================================================================
