---------------------------- MODULE HandlerStore ----------------------------
(* Handler table of the workflow stores: MemoryWorkflowStore and SqliteWorkflowStore         *)
(* (`update` = upsert by handler_id, `update_handler_status` of the abstract base class,     *)
(* `delete(query)`, `query(query)`), written the way the code is written:                    *)
(*   memory  _matches_query: one early return per given filter                               *)
(*           update: put; terminal status => _terminal_queue.append(id); evict               *)
(*           _evict_oldest_completed: while len(queue) > max_completed: pop left; skip the   *)
(*             entry if the handler is gone or no longer terminal, else drop the handler     *)
(*           delete: remove every handler matching the query (no filter => everything)       *)
(*   sqlite  _build_filters: None when a given list is empty, else one `col IN (...)` /      *)
(*             `idle_since IS [NOT] NULL` clause per given filter, joined by AND             *)
(*           query: None => []; no clause => all rows                                        *)
(*           delete: None or no clause => 0 (nothing deleted)                                *)
(*           no retention limit                                                              *)
(*                                                                                          *)
(* Dev_QueueCountsDeadEntries (TRUE = code today): `_terminal_queue` gets one entry per       *)
(* terminal *update* and entries are never removed when a handler is deleted or becomes      *)
(* non-terminal again, yet its *length* is compared with max_completed.  Duplicate or stale   *)
(* entries therefore push live completed handlers out early.  FALSE = the code since /repo   *)
(* 818fdf0: every update first removes the handler's entry (_forget_terminal), delete removes *)
(* the entries of the deleted handlers, so the queue holds exactly one entry per currently   *)
(* terminal handler, ordered by latest completion.                                           *)
(****************************************************************************)
EXTENDS Integers, Sequences, FiniteSets, TLC

CONSTANTS Ids, Wfs, Statuses, Confs,                   \* Confs: set of [b: "memory"|"sqlite", k: max_completed, -1 = None]
          MaxOps, DelFilters, AllFilters,              \* DelFilters: Seq of filters used by Delete; AllFilters: set
          UpHasRun, UpIdle,                            \* alphabet of upserts: run_id set? idle_since set?
          UpStatuses, UpIdleOps,                       \* alphabet of update_handler_status
          Dev_QueueCountsDeadEntries,
          CountOps                                     \* TRUE: bound histories by the counter nops; FALSE: by BFS level (DepthOK)

VARIABLES conf,   \* which store / which max_completed: chosen in Init, never changes
          rows,   \* Ids -> Row | NoRow
          tq,     \* memory: _terminal_queue
          comp,   \* history: distinct ids ordered by latest terminal update
          comp1,  \* history: distinct ids ordered by first terminal update of the current terminal streak
          flag,   \* "ok" | first step at which the statement was broken, with the cause (see StepFlag)
          nops

vars == <<conf, rows, tq, comp, comp1, flag, nops>>
Backend == conf.b
Limit == conf.k

Terminal == {"completed", "failed", "cancelled"}
NoRow == [wf |-> "-", st |-> "-", run |-> "-", idle |-> "-"]
RunOf(id) == "r_" \o id
Present(r, id) == r[id] # NoRow
IsTerm(r, id) == Present(r, id) /\ r[id].st \in Terminal

(* a filter: each list filter is [given, vals]; idle is "any" | "T" | "F" *)
NoList == [given |-> FALSE, vals |-> {}]
NoFilter == [ids |-> NoList, runs |-> NoList, wfs |-> NoList, sts |-> NoList, idle |-> "any"]
NumGiven(q) == Cardinality({f \in {"ids", "runs", "wfs", "sts"} : q[f].given}) + (IF q.idle = "any" THEN 0 ELSE 1)

----------------------------------------------------------------------------
(* the statement: a handler matches iff every given filter matches; an empty list matches nothing *)
MatchS(id, h, q) ==
  /\ q.ids.given => id \in q.ids.vals
  /\ q.runs.given => h.run \in q.runs.vals
  /\ q.wfs.given => h.wf \in q.wfs.vals
  /\ q.sts.given => h.st \in q.sts.vals
  /\ q.idle # "any" => h.idle = q.idle
MatchingS(r, q) == {id \in Ids : Present(r, id) /\ MatchS(id, r[id], q)}

(* memory: _matches_query *)
MatchMem(id, h, q) ==
  IF q.ids.given /\ (q.ids.vals = {} \/ id \notin q.ids.vals) THEN FALSE
  ELSE IF q.runs.given /\ (q.runs.vals = {} \/ h.run \notin q.runs.vals) THEN FALSE
  ELSE IF q.wfs.given /\ (q.wfs.vals = {} \/ h.wf \notin q.wfs.vals) THEN FALSE
  ELSE IF q.sts.given /\ (q.sts.vals = {} \/ h.st \notin q.sts.vals) THEN FALSE
  ELSE IF q.idle # "any" /\ q.idle # h.idle THEN FALSE
  ELSE TRUE

(* sqlite: _build_filters -> None | clauses *)
SqlNone(q) == \E f \in {"ids", "runs", "wfs", "sts"} : q[f].given /\ q[f].vals = {}
SqlWhere(id, h, q) ==     \* NULL run_id never satisfies IN (...)
  /\ q.wfs.given => h.wf \in q.wfs.vals
  /\ q.ids.given => id \in q.ids.vals
  /\ q.runs.given => (h.run # "none" /\ h.run \in q.runs.vals)
  /\ q.sts.given => h.st \in q.sts.vals
  /\ q.idle = "T" => h.idle = "T"
  /\ q.idle = "F" => h.idle = "F"

QueryCode(r, q) ==
  IF Backend = "memory" THEN {id \in Ids : Present(r, id) /\ MatchMem(id, r[id], q)}
  ELSE IF SqlNone(q) THEN {} ELSE {id \in Ids : Present(r, id) /\ SqlWhere(id, r[id], q)}

DeleteSet(r, q) ==
  IF Backend = "memory" THEN {id \in Ids : Present(r, id) /\ MatchMem(id, r[id], q)}
  ELSE IF SqlNone(q) \/ NumGiven(q) = 0 THEN {} ELSE {id \in Ids : Present(r, id) /\ SqlWhere(id, r[id], q)}

----------------------------------------------------------------------------
(* retention *)
Tick == IF CountOps THEN nops < MaxOps /\ nops' = nops + 1 ELSE nops' = nops
Remove(s, id) == SelectSeq(s, LAMBDA x : x # id)
HasDup(s) == \E i, j \in 1..Len(s) : i # j /\ s[i] = s[j]
HasStale(s, r) == \E i \in 1..Len(s) : ~IsTerm(r, s[i])

\* the code's loop: pop while too long; dead entries are skipped but were counted
RECURSIVE EvictCode(_, _)
EvictCode(q, r) ==
  IF Limit < 0 \/ Len(q) <= Limit THEN [tq |-> q, rows |-> r]
  ELSE LET h == Head(q) IN
       IF IsTerm(r, h) THEN EvictCode(Tail(q), [r EXCEPT ![h] = NoRow])
       ELSE EvictCode(Tail(q), r)

\* intended: the queue holds distinct live completed handlers, oldest completion first
EvictIntended(q, r, id) ==
  LET live == SelectSeq(Remove(q, id), LAMBDA x : IsTerm(r, x))
      q1 == Append(live, id)
      drop == IF Limit < 0 \/ Len(q1) <= Limit THEN 0 ELSE Len(q1) - Limit
  IN [tq |-> SubSeq(q1, drop + 1, Len(q1)),
      rows |-> [x \in Ids |-> IF \E i \in 1..drop : q1[i] = x THEN NoRow ELSE r[x]]]

\* the statement: all non-terminal handlers and the max_completed most recently completed ones
TopK(T, order) == LET s == SelectSeq(order, LAMBDA x : x \in T)
                      n == IF Limit < 0 \/ Len(s) <= Limit THEN Len(s) ELSE Limit
                  IN {s[i] : i \in (Len(s) - n + 1)..Len(s)}
Retained(exp, order) == LET T == {id \in Ids : IsTerm(exp, id)} keep == TopK(T, order)
                        IN [id \in Ids |-> IF id \in T \ keep THEN NoRow ELSE exp[id]]

\* Put = store.update(handler): shared by Upsert and UpdateStatus
Put(id, h) ==
  LET exp == [rows EXCEPT ![id] = h]
      c == IF h.st \in Terminal THEN Append(Remove(comp, id), id) ELSE comp
      c1 == IF h.st \in Terminal /\ ~IsTerm(rows, id) THEN Append(Remove(comp1, id), id) ELSE comp1
      tqa == Append(tq, id)
      res == IF Backend # "memory" THEN [tq |-> tq, rows |-> exp]
             ELSE IF Dev_QueueCountsDeadEntries
                  THEN (IF h.st \notin Terminal THEN [tq |-> tq, rows |-> exp] ELSE EvictCode(tqa, exp))
             \* _forget_terminal(id) on every update; append + evict on a terminal one
             ELSE IF h.st \notin Terminal THEN [tq |-> Remove(tq, id), rows |-> exp]
             ELSE EvictCode(Append(Remove(tq, id), id), exp)
      good == IF Backend = "memory" THEN res.rows = Retained(exp, c) \/ res.rows = Retained(exp, c1)
              ELSE res.rows = exp
      cause == IF Backend = "memory" /\ h.st \in Terminal /\ Dev_QueueCountsDeadEntries
                  /\ (HasDup(tqa) \/ HasStale(tqa, exp))
               THEN (IF HasDup(tqa) /\ HasStale(tqa, exp) THEN "retention:dup_and_stale"
                     ELSE IF HasDup(tqa) THEN "retention:dup" ELSE "retention:stale")
               ELSE "retention:unexplained"
  IN /\ rows' = res.rows /\ tq' = res.tq /\ comp' = c /\ comp1' = c1
     /\ flag' = IF flag # "ok" \/ good THEN flag ELSE cause

Upsert(id, wf, st, hasrun, idle) ==
  /\ UNCHANGED conf /\ Tick
  /\ Put(id, [wf |-> wf, st |-> st, run |-> IF hasrun THEN RunOf(id) ELSE "none", idle |-> idle])

\* update_handler_status(run_id, status=?, idle_since=?): query(run_id_in=[run]) -> found[0] -> update
UpdateStatus(id, st, idleop) ==
  /\ UNCHANGED conf /\ Tick
  /\ LET found == QueryCode(rows, [NoFilter EXCEPT !.runs = [given |-> TRUE, vals |-> {RunOf(id)}]]) IN
     IF found = {} THEN UNCHANGED <<rows, tq, comp, comp1, flag>>
     ELSE LET hid == CHOOSE x \in found : TRUE      \* run ids are unique per handler in this model
              h == rows[hid] IN
          Put(hid, [h EXCEPT !.st = IF st = "keep" THEN @ ELSE st,
                              !.idle = IF idleop = "keep" THEN @ ELSE IF idleop = "set" THEN "T" ELSE "F"])

Delete(k) ==
  /\ UNCHANGED conf /\ Tick
  /\ LET q == DelFilters[k]
         d == DeleteSet(rows, q) IN
     /\ rows' = [id \in Ids |-> IF id \in d THEN NoRow ELSE rows[id]]
     /\ flag' = IF flag # "ok" \/ NumGiven(q) = 0 \/ d = MatchingS(rows, q) THEN flag ELSE "delete"
     /\ tq' = IF Backend = "memory" /\ ~Dev_QueueCountsDeadEntries THEN SelectSeq(tq, LAMBDA x : x \notin d) ELSE tq
  /\ UNCHANGED <<comp, comp1>>

Init == /\ conf \in Confs
        /\ rows = [id \in Ids |-> NoRow] /\ tq = <<>> /\ comp = <<>> /\ comp1 = <<>> /\ flag = "ok" /\ nops = 0

Next ==
  \/ \E id \in Ids, wf \in Wfs, st \in Statuses, hr \in UpHasRun, idle \in UpIdle : Upsert(id, wf, st, hr, idle)
  \/ \E id \in Ids, st \in UpStatuses, io \in UpIdleOps : UpdateStatus(id, st, io)
  \/ \E k \in 1..Len(DelFilters) : Delete(k)

Spec == Init /\ [][Next]_vars

\* "all contents" instance for the filter semantics: every assignment of rows, no transitions
Tpl == [wf : Wfs, st : Statuses, hr : BOOLEAN, idle : {"T", "F"}]
Mk(id, t) == [wf |-> t.wf, st |-> t.st, run |-> IF t.hr THEN RunOf(id) ELSE "none", idle |-> t.idle]
First == CHOOSE x \in Ids : TRUE
\* (two levels so that TLC's workers share the invariant evaluation: Init fixes one handler, FillRest the others)
InitAll == /\ conf \in Confs /\ tq = <<>> /\ comp = <<>> /\ comp1 = <<>> /\ flag = "ok" /\ nops = 0
           /\ \E t \in Tpl \cup {NoRow} : rows = [id \in Ids |-> IF id = First /\ t # NoRow THEN Mk(id, t) ELSE NoRow]
FillRest == /\ nops = 0 /\ nops' = 1
            /\ \E f \in [Ids \ {First} -> Tpl \cup {NoRow}] :
                  rows' = [id \in Ids |-> IF id = First THEN rows[id] ELSE IF f[id] = NoRow THEN NoRow ELSE Mk(id, f[id])]
            /\ UNCHANGED <<conf, tq, comp, comp1, flag>>

----------------------------------------------------------------------------
(* C24 *)
\* query returns exactly the matching handlers, for every filter combination (a function of the contents only)
Inv_QueryExact == \A q \in AllFilters : QueryCode(rows, q) = MatchingS(rows, q)
\* a delete with at least one filter removes exactly the matching handlers
Inv_DeleteExact == \A q \in AllFilters : NumGiven(q) > 0 => DeleteSet(rows, q) = MatchingS(rows, q)

Inv_C24_strict == flag = "ok"
\* as-is: the only way the statement breaks is the known one (dead queue entries counted against the cap)
Inv_C24_asis == flag \in {"ok", "retention:dup", "retention:stale", "retention:dup_and_stale"}

\* structural facts about the code's queue (used to argue the direction of the defect: never too many kept)
Inv_NeverTooMany == (Backend = "memory" /\ Limit >= 0) => Cardinality({id \in Ids : IsTerm(rows, id)}) <= Limit

\* histories are bounded by depth (CONSTRAINT), not by a counter, so that equal store states reached by
\* histories of different length are one state of the graph
DepthOK == CountOps \/ TLCGet("level") <= MaxOps + 1
TypeOK == /\ nops \in 0..(MaxOps + 1)
          /\ \A id \in Ids : rows[id] = NoRow \/ (rows[id].wf \in Wfs /\ rows[id].st \in Statuses)
=============================================================================
