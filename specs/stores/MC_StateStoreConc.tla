---- MODULE MC_StateStoreConc ----
(* Instances of StateStoreConc.tla: program spaces (every process a short program, at least  *)
(* one edit_state block with an await).  Processes are strings so that the same values       *)
(* appear in implementation traces.                                                          *)
EXTENDS StateStoreConc, Json

S(k, v) == [op |-> "set", k |-> k, v |-> v]
R(k, v) == [op |-> "setstate", k |-> k, v |-> v]
P(v) == [op |-> "setparent", k |-> "a", v |-> v]
C0 == [op |-> "clear", k |-> "", v |-> 0]
E(k, v) == [op |-> "edit", k |-> k, v |-> v]

Progs(A, n) == UNION {[1..m -> A] : m \in 1..n}
HasEdit(q) == \E i \in 1..Len(q) : q[i].op = "edit"

A_dict == {S("a", 5), R("b", 7), C0, E("a", 1)}
A_dict_full == {S("a", 5), S("b", 6), R("b", 7), C0, E("a", 1), E("b", 10)}
A_typed == {S("a", 5), R("a", 7), P(8), C0, E("a", 1), E("b", 10)}
A_typed_q == {S("b", 5), R("a", 7), P(8), E("a", 1), E("b", 10)}      \* E("b", .): an edit of a child-only field next to a parent merge

\* two processes: one has an edit_state block, the other any program of <= 2 operations
PS2(A) == {[p1 |-> x, p2 |-> y] : x \in {q \in Progs(A, 2) : HasEdit(q)}, y \in Progs(A, 2)}
\* three processes: an editor, a second program of <= 2 operations, a third single operation
PS3(A) == {[p1 |-> x, p2 |-> y, p3 |-> z] : x \in {q \in Progs(A, 1) : HasEdit(q)} \cup {q \in Progs(A, 2) : q[1].op = "edit"},
                                            y \in Progs(A, 2), z \in Progs(A, 1)}
\* the witness of the known finding and its neighbours (state graph is dumped for the driver)
PSW == {[p1 |-> <<E("a", 1)>>, p2 |-> <<R("b", 7)>>],
        [p1 |-> <<E("a", 1)>>, p2 |-> <<C0, S("a", 5)>>],
        [p1 |-> <<E("a", 1), S("a", 5)>>, p2 |-> <<E("a", 1), R("b", 7)>>]}

Sys(be, kind, dev) == [be |-> be, kind |-> kind, dev |-> dev]
\* every back end / state model, SQLite both as designed (dev FALSE) and as coded (dev TRUE)
Sys_all == {Sys("memory", "dict", TRUE), Sys("memory", "typed", TRUE),
            Sys("sqlite", "dict", FALSE), Sys("sqlite", "typed", FALSE),
            Sys("sqlite", "dict", TRUE), Sys("sqlite", "typed", TRUE)}
Sys_design == {Sys("memory", "dict", TRUE), Sys("memory", "typed", TRUE),
               Sys("sqlite", "dict", FALSE), Sys("sqlite", "typed", FALSE)}
Sys_witness == {Sys("memory", "dict", TRUE), Sys("sqlite", "dict", TRUE)}

\* quick instance: three editor programs against every program of <= 2 operations
EdQ(kind) == IF kind = "typed"
               THEN {<<E("a", 1)>>, <<E("a", 1), S("b", 5)>>, <<P(8), E("a", 1)>>, <<E("b", 10)>>}
               ELSE {<<E("a", 1)>>, <<E("a", 1), S("a", 5)>>, <<R("b", 7), E("a", 1)>>}
PS_quick(kind) == {[p1 |-> x, p2 |-> y] : x \in EdQ(kind),
                                          y \in Progs(IF kind = "typed" THEN A_typed_q ELSE A_dict, 2)}
PS_two(kind) == IF kind = "typed" THEN PS2(A_typed_q) ELSE PS2(A_dict)
PS_full2(kind) == IF kind = "typed" THEN PS2(A_typed) ELSE PS2(A_dict_full)
PS_three(kind) == IF kind = "typed" THEN PS3(A_typed_q) ELSE PS3(A_dict)
\* three processes, quick: an open edit block, a whole-state replacement that queues behind it, and a second edit block
\* that queues behind the replacement (what the second editor works on must be what the replacement left)
PS_three_q(kind) == {[p1 |-> <<E("a", 1)>>, p2 |-> <<y>>, p3 |-> <<z>>] :
                        y \in (IF kind = "typed" THEN {R("a", 7), P(8)} ELSE {R("b", 7), C0}),
                        z \in (IF kind = "typed" THEN {E("a", 1), E("b", 10)} ELSE {E("a", 1), S("a", 5)})}
PS_witness(kind) == PSW

\* the programs of the instance, for the driver
ASSUME \A s \in Systems : \A pr \in ProgSpace(s.kind) : PrintT(<<"PROG", s.kind, ToJson(pr)>>)
====
