\* intended design (bootstrap atomic), crashes anywhere: strict C28
CONSTANTS
  N = 4
  Idem <- Idem4
  MaxRuns = 2
  MaxCrash = 2
  Dev_BootstrapNotAtomic = FALSE
SPECIFICATION FairSpec
INVARIANT TypeOK
INVARIANT Inv_C28
INVARIANT Inv_SchemaRecorded
PROPERTY Live_RunsComplete
