CONSTANTS
  MaxOps = 3
  MaxLog = 2
  Keys <- K1
  Vals <- V1
  Dev_StateStoreClosesShared = FALSE
INIT Init
NEXT Next
INVARIANT TypeOK
INVARIANT Inv_C21_strict
INVARIANT Inv_NoStateOpsEqual
