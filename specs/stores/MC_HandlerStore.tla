---- MODULE MC_HandlerStore ----
EXTENDS HandlerStore, Json
L(s) == [given |-> TRUE, vals |-> s]
Ids1 == {"h1"}
Ids2 == {"h1", "h2"}
Ids3 == {"h1", "h2", "h3"}
Wfs2 == {"wa", "wb"}
St4 == {"running", "completed", "failed", "cancelled"}
St3 == {"running", "completed", "cancelled"}
St2 == {"running", "completed"}

ConfsQuick == {[b |-> "memory", k |-> 0], [b |-> "memory", k |-> 1], [b |-> "memory", k |-> -1], [b |-> "sqlite", k |-> -1]}
ConfsThorough == ConfsQuick \cup {[b |-> "memory", k |-> 2]}
ConfsFilters == {[b |-> "memory", k |-> -1], [b |-> "sqlite", k |-> -1]}

IdLists == {NoList, L({}), L({"h1"}), L({"h2"}), L({"h1", "h2"})}
RunLists == {NoList, L({}), L({"r_h1"}), L({"r_h1", "r_h2"})}
WfLists == {NoList, L({}), L({"wa"}), L({"wa", "wb"})}
StLists == {NoList, L({}), L({"running"}), L({"completed", "failed"}), L({"running", "completed", "failed", "cancelled"})}
AllF == [ids : IdLists, runs : RunLists, wfs : WfLists, sts : StLists, idle : {"any", "T", "F"}]
\* quick tier: a sub-product (every list kind: absent / empty / one value / and for ids two values)
IdListsQ == {NoList, L({}), L({"h1"}), L({"h1", "h2"})}
RunListsQ == {NoList, L({}), L({"r_h1"})}
WfListsQ == {NoList, L({}), L({"wa"})}
StListsQ == {NoList, L({}), L({"running"}), L({"completed", "failed"})}
AllFQ == [ids : IdListsQ, runs : RunListsQ, wfs : WfListsQ, sts : StListsQ, idle : {"any", "T", "F"}]

F(ids, runs, wfs, sts, idle) == [ids |-> ids, runs |-> runs, wfs |-> wfs, sts |-> sts, idle |-> idle]
Menu == << F(L({"h1"}), NoList, NoList, NoList, "any"),
           F(L({"h1", "h2"}), NoList, NoList, NoList, "any"),
           F(NoList, NoList, NoList, L({"completed"}), "any"),
           F(NoList, NoList, NoList, L({"completed", "failed", "cancelled"}), "any"),
           F(NoList, NoList, L({"wa"}), NoList, "any"),
           F(NoList, NoList, NoList, NoList, "T"),
           F(NoList, L({"r_h1"}), NoList, NoList, "any"),
           F(L({}), NoList, NoList, NoList, "any"),
           F(L({"h1"}), NoList, NoList, L({"running"}), "any"),
           NoFilter >>
MenuQuick == <<Menu[1], Menu[3], Menu[4], Menu[5], Menu[8], Menu[10]>>

\* the harness reads the delete menu from here (single source of truth)
ASSUME PrintT(<<"MENU", ToJson(Menu)>>) /\ PrintT(<<"LISTS", ToJson([ids |-> IdLists, runs |-> RunLists, wfs |-> WfLists, sts |-> StLists])>>)

TrueOnly == {TRUE}
FOnly == {"F"}
TF == {"T", "F"}
UpStQ == {"keep", "running", "completed"}
UpStQ2 == {"keep", "completed"}
UpStT == {"keep", "running", "completed", "cancelled"}
UpIoQ == {"keep", "set"}
UpIoT == {"keep", "set", "clear"}
Wfs1 == {"wa"}
KeepOnly == {"keep"}
ConfsStale == {[b |-> "memory", k |-> 2]}
NoStaleFlag == flag # "retention:stale"
====
