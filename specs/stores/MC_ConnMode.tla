---- MODULE MC_ConnMode ----
EXTENDS ConnMode
K2 == {"a", "b"}
K1 == {"a"}
V2 == {1, 2}
V1 == {1}
====
