CONSTANTS
  Procs = {"p1", "p2"}
  Systems <- Sys_design
  ProgSpace <- PS_two
SPECIFICATION FairSpec
INVARIANT TypeOK
INVARIANT Inv_Lock
INVARIANT Inv_Baton
INVARIANT Inv_C20
PROPERTY Act_C20
PROPERTY Live_Done
