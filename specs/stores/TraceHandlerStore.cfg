CONSTANTS
  Ids <- TraceIds
  Wfs <- Wfs2
  Statuses <- St4
  Confs <- TraceConfs
  MaxOps = 1000
  DelFilters <- Menu
  AllFilters <- AllF
  UpHasRun <- BOOLEAN
  UpIdle <- TF
  UpStatuses <- UpStT
  UpIdleOps <- UpIoT
  CountOps = FALSE
  Dev_QueueCountsDeadEntries <- TraceDev
INIT TraceInit
NEXT TraceNext
