CONSTANTS
  MaxOps = 4
  MaxLog = 2
  Keys <- K1
  Vals <- V1
  Dev_StateStoreClosesShared = TRUE
INIT Init
NEXT Next
INVARIANT TypeOK
INVARIANT Inv_C21_asis
INVARIANT Inv_NoStateOpsEqual
