CONSTANTS
  Backend = "memory"
  Dev_SnapshotSharesData = FALSE
  Dev_NumericTopKey = FALSE
  Dev_FreshRowParentReplace = FALSE
  Families <- Fams_thorough_b
  Emit = TRUE
INIT Init
NEXT Next
INVARIANT Inv_Shape
INVARIANT Inv_TypedKeepsChild
PROPERTY Act_C19_Isolation
PROPERTY Act_SetGet
PROPERTY Act_Frame
PROPERTY Act_ReadsPure
