CONSTANTS
  Procs = {"p1", "p2"}
  Systems <- Sys_all
  ProgSpace <- PS_quick
SPECIFICATION Spec
INVARIANT TypeOK
INVARIANT Inv_Lock
INVARIANT Inv_Baton
INVARIANT Inv_C20_KF
PROPERTY Act_C20_KF
