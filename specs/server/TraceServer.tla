----------------------------- MODULE TraceServer -----------------------------
(* Trace validation of the in-process server stack: every execution recorded from the real          *)
(* WorkflowServer stack (ServerRuntimeDecorator -> IdleReleaseDecorator -> PersistenceDecorator ->    *)
(* BasicRuntime on a real SqliteWorkflowStore, under the virtual clock, with crashes and restarts)    *)
(* must be a behaviour of ServerStack.tla.  One recorded line = one action of ServerStack.tla with    *)
(* the logged fields bound; TickDone / PublishTerminal leave no line of their own and are taken       *)
(* silently when the next line needs them (deterministic).  The invariants of ServerStack.tla are     *)
(* evaluated by TLC in every state of every validated trace (cfg: INVARIANT ...).                     *)
(*                                                                                                   *)
(* Lines (harness/drivers/server.py hooks on the real objects; harness/checks/_server.py server_lines)*)
(*   row_write{ok}            _service.start_workflow's initial handler row (store.update)            *)
(*   loop_start{gen}          the inner runtime's run_workflow: a control loop task exists            *)
(*   tick{work,timers,cause}  adapter.on_tick: the reducer ran; engine summary after it               *)
(*   persist{n,ends}          store.append_tick returned                                              *)
(*   status_write{...}        store.update_handler_status: idle stamp / idle cleared / terminal       *)
(*   release_fire, release_done{released}   IdleReleaseDecorator._release_idle_handler                 *)
(*   send_check               the service resolved the handler (not terminal) for a send still to come  *)
(*   send_begin, ensure{active}, send_end   IdleReleaseExternalRunAdapter.send_event                   *)
(*   loop_exit{gen}           the control loop task finished                                          *)
(*   crash / restart{resumed, finalized} / launched      process stop and PersistenceDecorator start   *)
(*   advance{t}               the driver lets virtual time pass                                       *)
(* Conformance only: a mismatch is drift (a note), never a verdict on a property.                     *)
EXTENDS ServerStack, Json, IOUtils

T == JsonDeserialize(IOEnv.TRACE_FILE)
TraceIdleTimeout == T.idle_timeout_ms
TraceBackoffs == T.backoffs_ms
VARIABLES tid, l, verdict,
          relFlip,     \* the last release_fire made the run inactive (compared with the release_done line)
          advTo        \* the driver has let virtual time run up to here; the clock follows the recorded lines
tvars == <<vars, tid, l, verdict, relFlip, advTo>>
Tr == T.traces[tid]
More == l <= Len(Tr.log)
Eof == [e |-> "eof", t |-> 0, idle |-> FALSE, status |-> "", cause |-> "none"]
Ev == IF More THEN Tr.log[l] ELSE Eof

TraceInit == Init /\ tid \in 1..Len(T.traces) /\ l = 1 /\ verdict = "ok" /\ relFlip = FALSE /\ advTo = 0
Fail(c) == verdict' = c /\ UNCHANGED <<vars, tid, l, relFlip, advTo>>
Ok == verdict' = "ok" /\ l' = l + 1 /\ UNCHANGED <<tid, advTo>>
Skip == Ok /\ UNCHANGED <<vars, relFlip>>

IsTermStatus(e) == e.e = "status_write" /\ e.status \in Terminal
KindOf(st) == CASE st = "completed" -> "stop" [] st = "cancelled" -> "cancelled" [] OTHER -> "failed"
CanTick == proc = "up" /\ gen \in loops /\ active /\ ~tw.on /\ eng.ended = "none"

(* silent steps, deterministic: the terminal event reaches the server adapter / the tick's commands are done *)
NeedPublishTerminal == More /\ IsTermStatus(Ev) /\ ~tw.on /\ CanTick /\ eng.phase = "cmds"
NeedTickDone == /\ proc = "up" /\ gen \in loops /\ active /\ eng.phase = "cmds" /\ ~tw.on
                /\ (~More \/ ~(Ev.e = "status_write" /\ (Ev.idle \/ IsTermStatus(Ev))))
Silent ==
  /\ verdict = "ok" /\ (NeedPublishTerminal \/ NeedTickDone)
  /\ IF NeedPublishTerminal THEN PublishTerminal(KindOf(Ev.status))
     \* the commands of the finished tick queued the internal tick that comes next
     \* (whether they asked for an idle check is not logged: assumed whenever possible, the idle-check line decides)
     ELSE TickDone(More /\ Ev.e = "tick" /\ Ev.cause = "work" /\ ~eng.work /\ eng.cause # "idlecheck", eng.cause # "idlecheck",
                   More /\ Ev.e = "tick" /\ ~eng.timers /\ eng.cause # "idlecheck"
                        /\ (Ev.cause = "timer" \/ (Ev.cause = "idlecheck" /\ Ev.timers)))
  /\ UNCHANGED <<tid, l, verdict, relFlip, advTo>>

(* time passes (inside a driver `advance`) up to the time stamp of the next line *)
NeedClock == More /\ Ev.e # "advance" /\ Ev.t > now /\ ~(NeedPublishTerminal \/ NeedTickDone)
Clock ==
  /\ verdict = "ok" /\ NeedClock
  /\ IF Ev.t > advTo THEN Fail("clock_ahead_of_the_driver")
     ELSE IF proc = "up" /\ \E d \in timers : d < Ev.t THEN Fail("time_moves_past_a_due_release_timer")
     ELSE IF proc = "up" /\ gen \in loops /\ active /\ eng.ended = "none" /\ (inbox > 0 \/ eng.imail > 0 \/ eng.phase # "wait")
          THEN Fail("time_passes_while_the_loop_has_a_tick_to_process")
     ELSE IF tw.on /\ tw.fails = 0 THEN Fail("time_passes_inside_a_store_write")
     ELSE /\ now' = Ev.t /\ UNCHANGED <<tid, l, verdict, relFlip, advTo>>
          /\ UNCHANGED <<proc, row, nlog, logEnded, loops, gen, active, pactive, timers, eng, tw, start, sfails, faults, inbox, sendpc, relpc>>

MinDue == CHOOSE d \in timers : d <= now /\ \A x \in timers : x <= now => d <= x

Line(e) ==
  CASE e.e = "row_write" ->
         IF ~(proc = "up" /\ start \in {"none", "row"}) THEN Fail("row_write_but_no_start_in_progress")
         ELSE IF e.ok THEN StartRowOk /\ Ok /\ UNCHANGED relFlip
         ELSE IF sfails < Len(Backoffs) THEN StartRowFail /\ Ok /\ UNCHANGED relFlip ELSE Fail("more_row_write_failures_than_backoffs")
    [] e.e = "loop_start" ->
         IF e.gen # gen + 1 /\ ~(e.gen = gen /\ gen \in loops) THEN Fail("loop_generation_differs")
         ELSE IF e.gen = gen THEN Skip                                   \* started by Restart (line order: after launch_begin)
         ELSE IF gen = 0 THEN (IF proc = "up" /\ start = "done" /\ row.exists THEN StartRun /\ Ok /\ UNCHANGED relFlip
                               ELSE Fail("run_started_before_its_row_was_written"))
         ELSE IF proc = "up" /\ sendpc = "lock" /\ ~active /\ nlog > 0 THEN SendReload /\ Ok /\ UNCHANGED relFlip
         ELSE Fail("loop_started_while_run_active_or_outside_a_send")
    [] e.e = "tick" ->
         IF ~(CanTick /\ eng.phase = "wait") THEN Fail("tick_but_loop_not_waiting")
         ELSE IF e.cause = "mail" /\ inbox = 0 THEN Fail("external_tick_never_accepted")
         ELSE IF e.cause = "work" /\ ~eng.work THEN Fail("tick_without_cause")
         ELSE IF e.cause = "imail" /\ eng.imail = 0 THEN Fail("internal_mailbox_tick_never_sent")
         ELSE IF e.cause = "idlecheck" /\ ~eng.chk THEN Fail("idle_check_nobody_asked_for")
         ELSE IF e.cause = "idlecheck" /\ (e.work # eng.work \/ e.timers # eng.timers) THEN Fail("idle_check_changed_the_engine")
         ELSE IF e.cause = "timer" /\ ~eng.timers THEN Fail("timer_tick_without_scheduled_wakeup")
         ELSE Tick(e.work, e.timers, e.cause) /\ Ok /\ UNCHANGED relFlip
    [] e.e = "isend" ->
         IF ~(proc = "up" /\ gen \in loops /\ active /\ eng.ended = "none") THEN Fail("internal_send_without_live_loop")
         ELSE /\ eng' = [eng EXCEPT !.imail = @ + 1] /\ Ok /\ UNCHANGED relFlip
              /\ UNCHANGED <<now, proc, row, nlog, logEnded, loops, gen, active, pactive, timers, tw, start, sfails, faults, inbox, sendpc, relpc>>
    [] e.e = "persist" ->
         IF ~(proc = "up" /\ gen \in loops /\ active /\ eng.phase = "reduced") THEN Fail("persist_without_reduced_tick")
         ELSE Persist(e.ends) /\ verdict' = (IF nlog' # e.n THEN "log_length_differs" ELSE "ok")
              /\ l' = (IF verdict' = "ok" THEN l + 1 ELSE l) /\ UNCHANGED <<tid, relFlip, advTo>>
    [] e.e = "status_write" ->
         IF e.idle THEN (IF CanTick /\ eng.phase = "cmds" /\ eng.cause = "idlecheck" /\ row.exists /\ ~eng.work /\ (Dev_IdleIgnoresTimers \/ ~eng.timers)
                            /\ (Dev_IdleIgnoresMailbox \/ (eng.imail = 0 /\ inbox = 0))
                         THEN PublishIdle /\ Ok /\ UNCHANGED relFlip ELSE Fail("idle_stamp_not_enabled"))
         ELSE IF e.clears_idle THEN (IF proc = "up" /\ sendpc = "lock" /\ active THEN SendClear /\ Ok /\ UNCHANGED relFlip
                                     ELSE Fail("idle_cleared_outside_a_send"))
         ELSE IF e.status \in Terminal THEN
              (IF ~(proc = "up" /\ tw.on) THEN Fail("terminal_write_without_terminal_event")
               ELSE IF tw.status # e.status THEN Fail("terminal_status_differs")
               ELSE IF e.ok THEN TermWriteOk /\ Ok /\ UNCHANGED relFlip
               ELSE IF tw.fails < Len(Backoffs) THEN TermWriteFail /\ Ok /\ UNCHANGED relFlip
               ELSE Fail("more_write_failures_than_backoffs"))
         ELSE Skip
    [] e.e = "release_fire" ->
         IF ~(proc = "up" /\ LockFree /\ \E d \in timers : d <= now) THEN Fail("release_fired_without_due_timer")
         ELSE ReleaseFire(MinDue) /\ relFlip' = (active /\ ~active') /\ Ok
    [] e.e = "release_done" ->
         IF e.released # relFlip THEN Fail("release_decision_differs") ELSE Skip
    [] e.e = "loop_exit" ->
         IF ~(proc = "up" /\ e.gen \in loops /\ (e.gen = gen => (eng.ended # "none" \/ ~active))
              /\ (tw.on => (e.gen = gen /\ ~active)))
         THEN Fail("loop_exit_not_enabled") ELSE LoopExit(e.gen) /\ Ok /\ UNCHANGED relFlip
    [] e.e = "send_check" ->
         IF ~(proc = "up" /\ sendpc = "none" /\ row.exists /\ row.status = "running") THEN Fail("send_check_not_enabled")
         ELSE SendCheck /\ Ok /\ UNCHANGED relFlip
    [] e.e = "send_begin" ->
         IF proc = "up" /\ sendpc = "checked" THEN SendLock /\ Ok /\ UNCHANGED relFlip
         ELSE IF ~(proc = "up" /\ sendpc = "none" /\ row.exists /\ row.status = "running") THEN Fail("send_not_enabled")
         ELSE SendBegin /\ Ok /\ UNCHANGED relFlip
    [] e.e = "ensure" -> IF e.active # active THEN Fail("active_flag_differs") ELSE Skip
    [] e.e = "send_end" ->
         IF ~(proc = "up" /\ sendpc = "cleared") THEN Fail("send_finished_without_clearing_idle")
         ELSE SendForward /\ Ok /\ UNCHANGED relFlip
    [] e.e = "cancel" -> IF Dev_CancelBypassesLock /\ proc = "up" /\ gen \in loops /\ active /\ row.exists /\ row.status = "running"
                         THEN CancelDirect /\ Ok /\ UNCHANGED relFlip ELSE Skip      \* (a cancel is a send: its send lines follow)
    [] e.e = "crash" -> IF proc # "up" THEN Fail("crash_while_down") ELSE Crash /\ Ok /\ UNCHANGED relFlip
    [] e.e = "restart" ->
         IF proc # "down" THEN Fail("restart_while_up")
         ELSE LET shouldResume == row.exists /\ row.status = "running" /\ row.idle = 0 /\ nlog > 0 /\ ~logEnded
                  shouldFinal == row.exists /\ row.status = "running" /\ row.idle = 0 /\ (nlog = 0 \/ logEnded)
              IN IF e.resumed # shouldResume THEN Fail("resume_decision_differs")
                 ELSE IF (e.finalized # "") # shouldFinal THEN Fail("finalize_decision_differs")
                 ELSE /\ Restart /\ Ok /\ UNCHANGED relFlip
                      /\ (shouldFinal => row'.status = e.finalized)
    [] e.e = "launched" -> Skip
    [] e.e = "advance" -> /\ advTo' = (IF e.to > advTo THEN e.to ELSE advTo) /\ verdict' = "ok" /\ l' = l + 1
                          /\ UNCHANGED <<vars, tid, relFlip>>
    [] OTHER -> Fail("unknown_line")

Consume ==
  /\ verdict = "ok" /\ More /\ ~(NeedPublishTerminal \/ NeedTickDone) /\ ~NeedClock
  /\ IF Ev.t # now /\ Ev.e # "advance" THEN Fail("clock_differs") ELSE Line(Ev)

Done == /\ (verdict # "ok" \/ (~More /\ ~NeedTickDone))
        /\ PrintT(<<"VERDICT", tid, verdict, l>>)
        /\ UNCHANGED tvars
TraceNext == Silent \/ Clock \/ Consume \/ Done
=============================================================================
