---------------------------- MODULE HandlerStatus ----------------------------
(* The stored handler status of a server-run workflow:                                          *)
(*   _WorkflowService.start_workflow (row "running" before the run starts),                      *)
(*   _ServerInternalRunAdapter.write_to_event_stream (terminal event -> update_handler_status    *)
(*   through _retry_store_write: retries = len(backoff), then the exception propagates),         *)
(*   _IdleReleaseInternalRunAdapter (WorkflowIdleEvent -> status="running", idle_since=now).     *)
(* The engine is abstracted to: it may announce idle while running, and ends in one of the       *)
(* outcomes; an engine-side error (exception raised inside the reducer, e.g. by a user retry     *)
(* policy) ends the run WITHOUT a terminal event (Dev_EngineErrorHasNoTerminalEvent = TRUE is    *)
(* the code as it is).                                                                            *)
(******************************************************************************)
EXTENDS Naturals, Sequences, FiniteSets

CONSTANTS Backoffs, MaxFaults, Dev_EngineErrorHasNoTerminalEvent

VARIABLES run,        \* "running" | "publishing" | "ended"
          outcome,    \* "none" | "result" | "failed" | "cancelled" | "timedout" | "error"
          status,     \* stored status
          idle,       \* stored idle flag
          attempts,   \* store-write attempts made for the terminal status
          faults,     \* injected transient store failures so far
          history     \* successful status writes, in order

vars == <<run, outcome, status, idle, attempts, faults, history>>

Terminal == {"completed", "failed", "cancelled"}
StatusOf(o) == CASE o = "result" -> "completed" [] o = "cancelled" -> "cancelled" [] OTHER -> "failed"

Init == /\ run = "running" /\ outcome = "none" /\ status = "running" /\ idle = FALSE
        /\ attempts = 0 /\ faults = 0 /\ history = <<"running">>

AnnounceIdle == /\ run = "running" /\ ~idle
                /\ idle' = TRUE /\ status' = "running" /\ history' = Append(history, "running")
                /\ UNCHANGED <<run, outcome, attempts, faults>>

ExternalSendClearsIdle == /\ run = "running" /\ idle /\ idle' = FALSE
                          /\ UNCHANGED <<run, outcome, status, attempts, faults, history>>

End(o) ==
  /\ run = "running" /\ outcome' = o
  /\ run' = IF o = "error" /\ Dev_EngineErrorHasNoTerminalEvent THEN "ended" ELSE "publishing"
  /\ UNCHANGED <<status, idle, attempts, faults, history>>

(* one attempt of _retry_store_write *)
WriteFails == /\ run = "publishing" /\ faults < MaxFaults /\ attempts < Backoffs
              /\ faults' = faults + 1 /\ attempts' = attempts + 1
              /\ UNCHANGED <<run, outcome, status, idle, history>>
WriteOk == /\ run = "publishing"
           /\ status' = StatusOf(outcome) /\ history' = Append(history, StatusOf(outcome)) /\ run' = "ended"
           /\ UNCHANGED <<outcome, idle, attempts, faults>>

Next == AnnounceIdle \/ ExternalSendClearsIdle \/ WriteFails \/ WriteOk
        \/ (\E o \in {"result", "failed", "cancelled", "timedout", "error"} : End(o))
Spec == Init /\ [][Next]_vars

(* C15 *)
Inv_StatusMatchesOutcome == run = "ended" => status = StatusOf(outcome)
Inv_NeverRunningAfterEnd == run = "ended" => status # "running"
Bound == Len(history) <= 5
Inv_TerminalIsFinal == \A i, j \in 1..Len(history) : (i < j /\ history[i] \in Terminal) => history[j] \in Terminal
=============================================================================
