CONSTANTS
  Subs <- S2
  Writers <- W1
  MaxEvents = 4
  MaxReconnect = 1
  Styles <- MemOnly
  AtomicAppend = TRUE
  Dev_MemCursorByIndex = FALSE
SPECIFICATION FairSpec
INVARIANT TypeOK
INVARIANT Inv_C16_strict
