CONSTANTS
  Subs <- S2
  Writers <- W2
  MaxEvents = 5
  MaxReconnect = 2
  Styles <- MemOnly
  AtomicAppend = TRUE
  Dev_MemCursorByIndex = FALSE
SPECIFICATION FairSpec
INVARIANT TypeOK
INVARIANT Inv_C16_strict
PROPERTY Live_Delivered
