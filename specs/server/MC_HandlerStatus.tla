---- MODULE MC_HandlerStatus ----
EXTENDS HandlerStatus
====
