CONSTANTS
  Subs <- S2
  Writers <- W1
  MaxEvents = 3
  MaxReconnect = 1
  Styles <- AllStyles
  AtomicAppend = TRUE
  Dev_MemCursorByIndex = TRUE
SPECIFICATION FairSpec
INVARIANT TypeOK
INVARIANT Inv_C16_asis
PROPERTY Live_Delivered
