------------------------------ MODULE EventLog ------------------------------
(* Stored event log of one run: append_event / subscribe_events of                        *)
(*   MemoryWorkflowStore   (Style = "memory": list-index cursor, asyncio.Condition)        *)
(*   SqliteWorkflowStore   (Style = "sqlite": sequence cursor, Condition + poll timeout)   *)
(*   AbstractWorkflowStore (Style = "poll":   sequence cursor, sleep(poll_interval) loop)  *)
(*                                                                                        *)
(* Granularity = the suspension-free sections of the code on one asyncio loop:            *)
(*   Append    = the whole `append_event`: read the last sequence and write last+1 with no *)
(*               await in between (memory: `existing[-1].sequence + 1`; sqlite: one INSERT *)
(*               ... MAX(sequence)+1), then `async with condition: notify_all()`.          *)
(*               The condition's lock is never held across a suspension (Fetch below       *)
(*               releases it before suspending), so the `async with` never suspends and    *)
(*               the notify belongs to the same section.  notify_all only wakes the        *)
(*               futures that are in `_waiters` *now*; woken tasks go to the loop's FIFO    *)
(*               ready queue.  AtomicAppend = FALSE splits read and write (what would      *)
(*               happen if an await were introduced) -- used to show Inv_Seq can fail.     *)
(*   Pull      = the consumer calls __anext__: first call resolves the cursor and fetches;  *)
(*               later calls resume after `yield` (advance cursor, terminal => return,     *)
(*               next of batch, or fetch again).                                           *)
(*   Fetch     = `async with condition:` read everything beyond the cursor (a snapshot     *)
(*               batch); empty => `condition.wait()` (register waiter, release, suspend).  *)
(*               No await between the read and the registration => no lost wake-up.        *)
(*   Resume    = a woken subscriber task runs (head of the ready queue): fetch again.      *)
(*   Tick      = poll_interval elapses: sqlite `wait_for(condition.wait(), timeout)` times *)
(*               out, poll style's sleep ends: every blocked subscriber re-fetches          *)
(*               (a spurious wake-up).                                                      *)
(*   Reconnect = the consumer drops the stream (aclose / cancel) and subscribes again      *)
(*               with after = last sequence it saw.                                        *)
(*                                                                                        *)
(* Dev_MemCursorByIndex (TRUE = code today): the memory store turns `after_sequence` into  *)
(* a list index once, at the first __anext__, and never looks at sequence numbers again:   *)
(* with a cursor beyond the current end of the log, events appended later with             *)
(* sequence <= after are delivered.  FALSE = intended: only sequences > after.             *)
(***************************************************************************)
EXTENDS Integers, Sequences, FiniteSets, TLC

CONSTANTS Subs, Writers, MaxEvents, MaxReconnect, Styles, AtomicAppend, Dev_MemCursorByIndex

VARIABLES
  style,    \* which store's subscription code is modelled; chosen in Init, never changes
  log,      \* Seq([seq, eid, term])   eid = publication index (0-based)
  wpc,      \* Writers -> {"idle","read"}          (only "read" when ~AtomicAppend)
  wseq,     \* Writers -> Int                      sequence computed by the read half
  sub,      \* Subs -> record, see NoSub
  waiters,  \* Seq(Subs)   condition._waiters / sleepers, in arrival order
  ready,    \* Seq(Subs)   woken subscriber tasks in the loop's ready queue (FIFO)
  nrec      \* reconnects so far

vars == <<style, log, wpc, wseq, sub, waiters, ready, nrec>>
Style == style

NoEv == [seq |-> -1, eid |-> -1, term |-> FALSE]
NoSub == [pc |-> "none", after0 |-> -1, after |-> -1, cur |-> -1, held |-> NoEv, batch |-> <<>>,
          delivered |-> <<>>, beyond |-> FALSE]
\* pc: none | init (generator created, body not started) | yielded (suspended at `yield`, the
\*     consumer holds `held`) | waiting (pull outstanding, blocked) | woken (in ready) | done

Init ==
  /\ style \in Styles
  /\ log = <<>>
  /\ wpc = [w \in Writers |-> "idle"]
  /\ wseq = [w \in Writers |-> -1]
  /\ sub = [u \in Subs |-> NoSub]
  /\ waiters = <<>> /\ ready = <<>> /\ nrec = 0

LastSeq == IF log = <<>> THEN -1 ELSE
             IF Style = "memory" THEN log[Len(log)].seq
             ELSE CHOOSE m \in {log[i].seq : i \in 1..Len(log)} : \A i \in 1..Len(log) : log[i].seq <= m

RemoveFrom(q, u) == SelectSeq(q, LAMBDA x : x # u)

\* memory: cursor = index just past the last event with sequence <= after (code: loop over all events)
IdxAfter(a) == LET S == {i \in 1..Len(log) : log[i].seq <= a}
               IN IF S = {} THEN 0 ELSE CHOOSE i \in S : \A j \in S : j <= i

IndexCursor == Style = "memory" /\ Dev_MemCursorByIndex

\* events beyond cursor c (memory/as-is: list positions > c; otherwise sequence > c, in sequence order
\* -- the log is kept in sequence order whenever Inv_Seq holds, which is all this spec relies on)
Beyond(c) == IF IndexCursor THEN SubSeq(log, c + 1, Len(log))
             ELSE SelectSeq(log, LAMBDA e : e.seq > c)

Fetch(u, c, s) ==      \* s = sub[u] with bookkeeping already applied
  LET b == Beyond(c) IN
  IF b # <<>>
    THEN /\ sub' = [sub EXCEPT ![u] = [s EXCEPT !.pc = "yielded", !.cur = c, !.held = b[1], !.batch = Tail(b),
                                                !.delivered = Append(s.delivered, b[1])]]
         /\ waiters' = RemoveFrom(waiters, u)
    ELSE /\ sub' = [sub EXCEPT ![u] = [s EXCEPT !.pc = "waiting", !.cur = c, !.held = NoEv, !.batch = <<>>]]
         /\ waiters' = Append(RemoveFrom(waiters, u), u)

----------------------------------------------------------------------------
(* writers *)
NewEv(s, t) == [seq |-> s, eid |-> Len(log), term |-> t]

Publish(e) ==
  /\ log' = Append(log, e)
  /\ IF Style = "poll"                  \* the polling default has no notification at all
       THEN UNCHANGED <<ready, sub, waiters>>
       ELSE /\ ready' = ready \o waiters          \* notify_all: current waiters only, in order
            /\ sub' = [u \in Subs |-> IF sub[u].pc = "waiting" THEN [sub[u] EXCEPT !.pc = "woken"] ELSE sub[u]]
            /\ waiters' = <<>>

AppendEv(w, t) ==
  /\ AtomicAppend /\ Len(log) < MaxEvents /\ wpc[w] = "idle"
  /\ Publish(NewEv(LastSeq + 1, t))
  /\ UNCHANGED <<wpc, wseq, nrec, style>>

ReadMax(w) ==
  /\ ~AtomicAppend /\ wpc[w] = "idle"
  /\ Len(log) + Cardinality({x \in Writers : wpc[x] = "read"}) < MaxEvents
  /\ wpc' = [wpc EXCEPT ![w] = "read"] /\ wseq' = [wseq EXCEPT ![w] = LastSeq + 1]
  /\ UNCHANGED <<log, sub, waiters, ready, nrec, style>>

WriteSeq(w, t) ==
  /\ ~AtomicAppend /\ wpc[w] = "read"
  /\ Publish(NewEv(wseq[w], t))
  /\ wpc' = [wpc EXCEPT ![w] = "idle"]
  /\ UNCHANGED <<wseq, nrec, style>>

(* subscribers / consumers *)
Start(u, a) ==
  /\ sub[u].pc = "none"
  /\ sub' = [sub EXCEPT ![u] = [NoSub EXCEPT !.pc = "init", !.after0 = a, !.after = a]]
  /\ UNCHANGED <<log, wpc, wseq, waiters, ready, nrec, style>>

Pull(u) ==
  LET s == sub[u] IN
  /\ \/ /\ s.pc = "init"
        /\ LET c == IF IndexCursor THEN (IF s.after >= 0 THEN IdxAfter(s.after) ELSE 0) ELSE s.after
               s1 == [s EXCEPT !.beyond = @ \/ (s.after > LastSeq)]
           IN Fetch(u, c, s1)
     \/ /\ s.pc = "yielded"
        /\ LET c == IF IndexCursor THEN s.cur + 1 ELSE s.held.seq IN
           IF s.held.term
             THEN /\ sub' = [sub EXCEPT ![u] = [s EXCEPT !.pc = "done", !.cur = c, !.batch = <<>>]]
                  /\ waiters' = waiters
             ELSE IF s.batch # <<>>
               THEN /\ sub' = [sub EXCEPT ![u] = [s EXCEPT !.cur = c, !.held = Head(s.batch), !.batch = Tail(s.batch),
                                                            !.delivered = Append(s.delivered, Head(s.batch))]]
                    /\ waiters' = waiters
               ELSE Fetch(u, c, s)
  /\ UNCHANGED <<log, wpc, wseq, ready, nrec, style>>

Resume(u) ==
  /\ ready # <<>> /\ Head(ready) = u
  /\ ready' = Tail(ready)
  /\ IF sub[u].pc = "woken" THEN Fetch(u, sub[u].cur, sub[u])
     ELSE UNCHANGED <<sub, waiters>>                 \* stale entry (subscriber reconnected meanwhile)
  /\ UNCHANGED <<log, wpc, wseq, nrec, style>>

Tick ==
  /\ Style \in {"sqlite", "poll"} /\ waiters # <<>>
  /\ ready' = ready \o waiters
  /\ sub' = [u \in Subs |-> IF sub[u].pc = "waiting" THEN [sub[u] EXCEPT !.pc = "woken"] ELSE sub[u]]
  /\ waiters' = <<>>
  /\ UNCHANGED <<log, wpc, wseq, nrec, style>>

Reconnect(u) ==
  LET s == sub[u]
      last == IF s.delivered = <<>> THEN s.after0 ELSE s.delivered[Len(s.delivered)].seq IN
  /\ nrec < MaxReconnect
  /\ s.pc \in {"yielded", "waiting"}
  /\ ~(s.delivered # <<>> /\ s.delivered[Len(s.delivered)].term)     \* the stream is over once the terminal event was seen
  /\ nrec' = nrec + 1
  /\ sub' = [sub EXCEPT ![u] = [s EXCEPT !.pc = "init", !.after = last, !.cur = -1, !.held = NoEv, !.batch = <<>>]]
  /\ waiters' = RemoveFrom(waiters, u)
  /\ UNCHANGED <<log, wpc, wseq, ready, style>>

Next ==
  \/ \E w \in Writers, t \in BOOLEAN : AppendEv(w, t) \/ WriteSeq(w, t)
  \/ \E w \in Writers : ReadMax(w)
  \/ \E u \in Subs : (\E a \in -1..MaxEvents : Start(u, a)) \/ Pull(u) \/ Resume(u) \/ Reconnect(u)
  \/ Tick

Spec == Init /\ [][Next]_vars
\* the loop runs ready tasks; the consumer keeps pulling; blocked pollers time out
FairSpec == Spec /\ WF_vars(Tick) /\ \A u \in Subs : WF_vars(Resume(u)) /\ WF_vars(Pull(u))

----------------------------------------------------------------------------
(* C16 *)
IsPrefix(a, b) == Len(a) <= Len(b) /\ SubSeq(b, 1, Len(a)) = a

Above(k) == SelectSeq(log, LAMBDA e : e.seq > k)
UpToTerminal(s) == LET T == {i \in 1..Len(s) : s[i].term}
                   IN IF T = {} THEN s ELSE SubSeq(s, 1, CHOOSE i \in T : \A j \in T : i <= j)
Want(u) == UpToTerminal(Above(sub[u].after0))
EndsWithTerminal(s) == s # <<>> /\ s[Len(s)].term

Inv_Seq == \A i \in 1..Len(log) : log[i].seq = i - 1 /\ log[i].eid = i - 1

SubOK(u) ==
  /\ IsPrefix(sub[u].delivered, Want(u))
  /\ sub[u].pc = "done" => (sub[u].delivered = Want(u) /\ EndsWithTerminal(Want(u)))
  /\ EndsWithTerminal(sub[u].delivered) => sub[u].pc \in {"yielded", "done"}

\* no lost wake-up, as a safety property: whenever the loop is quiescent, a blocked subscriber has nothing to get
NoLostWakeup(u) == (ready = <<>> /\ sub[u].pc = "waiting" /\ Style # "poll") => sub[u].delivered = Want(u)

\* strict form (design); the as-is form exempts exactly the known failure shape
KF_BeyondEnd(u) == /\ IndexCursor /\ sub[u].beyond
                   /\ \E i \in 1..Len(sub[u].delivered) : sub[u].delivered[i].seq <= sub[u].after0
Inv_C16_strict == Inv_Seq /\ \A u \in Subs : sub[u].pc # "none" => (SubOK(u) /\ NoLostWakeup(u))
Inv_C16_asis == Inv_Seq /\ \A u \in Subs : (sub[u].pc # "none" /\ ~KF_BeyondEnd(u)) => (SubOK(u) /\ NoLostWakeup(u))

\* liveness under weak fairness: everything wanted is eventually delivered (and the stream ends)
Live_Delivered == \A u \in Subs :
   [](sub[u].pc # "none" => <>(KF_BeyondEnd(u) \/ (sub[u].delivered = Want(u)
                                  /\ (EndsWithTerminal(Want(u)) => sub[u].pc \in {"yielded", "done"}))))

TypeOK ==
  /\ \A u \in Subs : sub[u].pc \in {"none", "init", "yielded", "waiting", "woken", "done"}
  /\ \A i \in 1..Len(waiters) : sub[waiters[i]].pc = "waiting"
  /\ Len(log) <= MaxEvents
=============================================================================
