---- MODULE MC_IdleRelease ----
EXTENDS IdleRelease
====
