---- MODULE TraceEventLog ----
(* Trace validation: are executions recorded from the real stores behaviours of EventLog.tla?     *)
(* One event = one batch of driver commands issued at a quiescence point of the event loop,      *)
(* followed by the observation at the next quiescence point (log via query_events, per consumer  *)
(* what it received and whether its pull is outstanding).  Commands are environment actions;     *)
(* the Resume steps the loop ran in between are inferred by TLC.                                  *)
EXTENDS EventLog, Json, IOUtils

T == JsonDeserialize(IOEnv.TRACE_FILE)
TraceSubs == {T.subs[i] : i \in 1..Len(T.subs)}
TraceWriters == {"w1", "w2"}
TraceStyles == {"memory", "sqlite", "poll"}
TraceDev == T.dev

VARIABLES tid, l, ci
tvars == <<vars, tid, l, ci>>

Tr == T.traces[tid].ev
Ev == Tr[l]

ObsPc(pc) == IF pc = "yielded" THEN "idle" ELSE pc
Tup(e) == <<e.seq, e.eid, IF e.term THEN 1 ELSE 0>>
SameSeq(s, o) == Len(s) = Len(o) /\ \A i \in 1..Len(s) : Tup(s[i]) = o[i]

Matches(post) ==
  /\ ready = <<>>
  /\ SameSeq(log, post.log)
  /\ \A u \in Subs : /\ ObsPc(sub[u].pc) = post.subs[u].pc
                     /\ SameSeq(sub[u].delivered, post.subs[u].delivered)

TraceInit == Init /\ tid \in 1..Len(T.traces) /\ style = T.traces[tid].style /\ l = 1 /\ ci = 1

ApplyCmd ==
  /\ l <= Len(Tr) /\ ci <= Len(Ev.cmds)
  /\ LET c == Ev.cmds[ci] IN
       \/ c.op = "append" /\ AppendEv(c.u, c.n = 1)
       \/ c.op = "start" /\ Start(c.u, c.n)
       \/ c.op = "pull" /\ Pull(c.u)
       \/ c.op = "reconnect" /\ Reconnect(c.u)
       \/ c.op = "tick" /\ (IF waiters # <<>> /\ style # "memory" THEN Tick ELSE UNCHANGED vars)
  /\ ci' = ci + 1 /\ UNCHANGED <<tid, l>>

\* tick and reconnect act synchronously on the consumer side, so the driver drains the loop before them
TickNext == ci <= Len(Ev.cmds) /\ Ev.cmds[ci].op \in {"tick", "reconnect"}

Silent ==
  /\ l <= Len(Tr) /\ (ci > Len(Ev.cmds) \/ TickNext)
  /\ \E u \in Subs : Resume(u)
  /\ UNCHANGED <<tid, l, ci>>

Match ==
  /\ l <= Len(Tr) /\ ci > Len(Ev.cmds)
  /\ Matches(Ev.post)
  /\ PrintT(<<"P", tid, l>>)
  /\ l' = l + 1 /\ ci' = 1 /\ UNCHANGED <<vars, tid>>

TraceNext == (ApplyCmd /\ (TickNext => ready = <<>>)) \/ Silent \/ Match
TraceSpec == TraceInit /\ [][TraceNext]_tvars
====
