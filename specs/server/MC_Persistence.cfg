CONSTANTS
  N = 3
  MaxCrash = 2
  Dev_DiscardCommandsOnReplay = FALSE
SPECIFICATION Spec
INVARIANT Inv_NoAcceptedWorkLost
INVARIANT Inv_NoRerun
INVARIANT Inv_LogWellFormed
