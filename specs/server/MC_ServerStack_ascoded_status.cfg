CONSTANTS
  IdleTimeout = 2
  Backoffs <- MC_Backoffs
  MaxFaults = 1
  MaxT = 5
  Dev_IdleIgnoresTimers = TRUE
  Dev_InternalActivityKeepsIdleFlag = TRUE
  Dev_IdleIgnoresMailbox = TRUE
  Dev_CancelBypassesLock = FALSE
  Dev_SendSkipsLockWhenLoaded = FALSE
  WithCancel = FALSE
INIT Init
NEXT Next
CONSTRAINT Bound


INVARIANT Inv_StatusMatchesOutcome
