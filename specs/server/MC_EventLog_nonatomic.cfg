CONSTANTS
  Subs <- S1
  Writers <- W2
  MaxEvents = 3
  MaxReconnect = 0
  Styles <- SqlOnly
  AtomicAppend = FALSE
  Dev_MemCursorByIndex = TRUE
SPECIFICATION FairSpec
INVARIANT TypeOK
INVARIANT Inv_C16_strict
