CONSTANTS
  Subs <- TraceSubs
  Writers <- TraceWriters
  Styles <- TraceStyles
  Dev_MemCursorByIndex <- TraceDev
  MaxEvents = 1000
  MaxReconnect = 1000
  AtomicAppend = TRUE
INIT TraceInit
NEXT TraceNext
INVARIANT Inv_Seq
