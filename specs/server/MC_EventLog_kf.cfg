CONSTANTS
  Subs <- S1
  Writers <- W1
  MaxEvents = 3
  MaxReconnect = 1
  Styles <- MemOnly
  AtomicAppend = TRUE
  Dev_MemCursorByIndex = TRUE
SPECIFICATION FairSpec
INVARIANT TypeOK
INVARIANT Inv_C16_strict
