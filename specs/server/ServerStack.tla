----------------------------- MODULE ServerStack -----------------------------
(* The in-process server stack around ONE run of a workflow, one action per critical section of   *)
(* the code (llama_agents/server/_runtime):                                                        *)
(*   _service.start_workflow            StartRow (with _retry_store_write), StartRun               *)
(*   _PersistenceInternalRunAdapter     Tick (the reducer ran) ; Persist (on_tick -> append_tick)  *)
(*   _ServerInternalRunAdapter          PublishTerminal = status write with retry/back-off         *)
(*                                      (TermWriteOk / TermWriteFail / TermWriteGiveUp)            *)
(*   _IdleReleaseInternalRunAdapter     PublishIdle = idle_since := now ; arm a deferred release   *)
(*   IdleReleaseDecorator               ReleaseFire (timer wakes: stand down | abort the run),     *)
(*                                      _ensure_active_run_locked = Reload (rebuild from the tick  *)
(*                                      log, run again, clear idle_since)                          *)
(*   IdleReleaseExternalRunAdapter      Send = [Reload] ; clear idle_since ; forward               *)
(*   PersistenceDecorator               Restart = _on_server_start: running, not idle, not active  *)
(*                                      -> no ticks: failed | replay ended: finalize | run again   *)
(*   process                            Crash (everything in memory is gone), Advance (time)       *)
(*                                                                                                *)
(* The engine is abstract here (Engine.tla / Reducer.tla specify it, TraceEngine.tla binds it):    *)
(* what the stack needs from it is `eng`, a summary of the live control loop --                   *)
(*   work    queued or running step work, buffered ticks, undelivered mailbox ticks                *)
(*   timers  scheduled wake-ups (retry delays, waiter timeouts, workflow timeout) in the runner    *)
(*   ended   "none" | the terminal event the reducer produced                                      *)
(* which engine steps change freely (EngStep), except that a terminal event is published once and  *)
(* nothing follows it.  Trace validation (TraceServer.tla) binds `eng` to the recorded runner      *)
(* state at every tick.                                                                            *)
(*                                                                                                *)
(* Durable state: the handler row and the tick log.  Everything else dies with the process.        *)
(* Times are milliseconds.  idle = 0 means idle_since IS NULL, else idle_since + 1.                *)
(****************************************************************************)
EXTENDS Integers, Sequences, FiniteSets, TLC

CONSTANTS IdleTimeout,            \* ms
          Backoffs,               \* Seq of ms: persistence_backoff
          MaxFaults,              \* bound on injected transient store failures (model checking)
          MaxT,                   \* time horizon (model checking)
          Dev_IdleIgnoresTimers,              \* TRUE = the code: the engine announces idle although a wake-up is scheduled
          Dev_InternalActivityKeepsIdleFlag,  \* TRUE = the code: only an external send clears idle_since
          Dev_IdleIgnoresMailbox,             \* TRUE = the code: idle is announced although ticks wait in the run's mailbox
          Dev_CancelBypassesLock,             \* TRUE = the code before /repo 'fix: cancelling an idle-released run': cancel() went to
                                              \* the inner adapter (no lock, no reload, no idle clear); FALSE: a cancel is a send
          Dev_SendSkipsLockWhenLoaded,        \* FALSE = the code: every send takes the reload lock (SendFast is the deviation)
          WithCancel                          \* model checking: include such cancel requests

VARIABLES now,
          proc,       \* "up" | "down"
          row,        \* [exists, status, idle, result]                      -- durable
          nlog,       \* number of persisted ticks                            -- durable
          logEnded,   \* the persisted log already contains the tick that ends the run  -- durable (derived from the log)
          loops,      \* set of generations whose control loop task is alive
          gen,        \* generations started so far
          active,     \* run_id in IdleReleaseDecorator._active_run_ids
          pactive,    \* run_id in TickPersistenceDecorator._active_run_ids
          timers,     \* deadlines of sleeping _deferred_release tasks
          eng,        \* [work, timers, ended, phase]: the newest loop (see above)
          tw,         \* terminal status write in progress: [on, status, fails] (inside write_to_event_stream)
          start,      \* start_workflow: "none" | "row" (initial row write, maybe in back-off) | "done" | "dead" (crashed half-way)
          sfails,     \* failed attempts of the initial row write
          faults,     \* injected failures so far
          inbox,      \* ticks accepted by send_event and not yet reduced by a loop
          relpc,      \* the idle-release task inside its critical section: "none" | "okT" / "okF" (it holds the reload lock
                      \* and has READ the row: idle long enough / not) -- the store reply may take its time
          sendpc      \* a send in progress: "none" | "checked" (the service found the handler running; lock not yet
                      \* taken) | "lock" (reload lock held) | "cleared" (idle_since cleared)

vars == <<now, proc, row, nlog, logEnded, loops, gen, active, pactive, timers, eng, tw, start, sfails, faults, inbox, sendpc, relpc>>

Terminal == {"completed", "failed", "cancelled"}
StatusOf(k) == CASE k = "stop" -> "completed" [] k = "cancelled" -> "cancelled" [] OTHER -> "failed"
NoRow == [exists |-> FALSE, status |-> "", idle |-> 0, result |-> FALSE]
\* phase: "wait" (between ticks) | "reduced" (reducer ran, on_tick pending) | "cmds" (tick persisted, its commands execute)
\* imail: ticks a step put into the run's mailbox with ctx.send_event, not yet pulled
\* chk: the reducer has asked for an idle check (a TickIdleCheck waits in the runner's buffer)
Eng0 == [work |-> TRUE, timers |-> FALSE, ended |-> "none", phase |-> "wait", cause |-> "work", imail |-> 0, chk |-> FALSE]
NoTw == [on |-> FALSE, status |-> "", fails |-> 0]
Live == loops # {}
LockFree == sendpc \in {"none", "checked"} /\ relpc = "none"         \* the per-run reload lock (KeyedLock) is not held
\* (a released loop is a cancelled task: loops keeps it until LoopExit, but it never executes again -- every loop action
\*  below requires `active`; a loop that ended by itself keeps active = TRUE, as _active_run_ids does)

Init ==
  /\ now = 0 /\ proc = "up" /\ row = NoRow /\ nlog = 0 /\ logEnded = FALSE /\ loops = {} /\ gen = 0
  /\ active = FALSE /\ pactive = FALSE /\ timers = {} /\ eng = Eng0 /\ tw = NoTw
  /\ start = "none" /\ sfails = 0 /\ faults = 0 /\ inbox = 0 /\ sendpc = "none" /\ relpc = "none"

----------------------------------------------------------------------------
(* start_workflow: the row is written (retrying on transient faults) BEFORE the run is started *)
StartRowOk ==
  /\ proc = "up" /\ start \in {"none", "row"}
  /\ row' = [exists |-> TRUE, status |-> "running", idle |-> 0, result |-> FALSE]
  /\ start' = "done"
  /\ UNCHANGED <<relpc, now, proc, nlog, logEnded, loops, gen, active, pactive, timers, eng, tw, sfails, faults, inbox, sendpc>>

StartRowFail ==        \* one failed attempt; the back-off sleep is time passing with start = "row"
  /\ proc = "up" /\ start \in {"none", "row"} /\ faults < MaxFaults /\ sfails < Len(Backoffs)
  /\ start' = "row" /\ sfails' = sfails + 1 /\ faults' = faults + 1
  /\ UNCHANGED <<relpc, now, proc, row, nlog, logEnded, loops, gen, active, pactive, timers, eng, tw, inbox, sendpc>>

(* workflow.run(): a control loop task; both decorators note the run as active *)
RunLoop(fromLog) ==
  /\ loops' = loops \cup {gen + 1} /\ gen' = gen + 1
  /\ active' = TRUE /\ pactive' = TRUE
  /\ eng' = Eng0

StartRun ==
  /\ proc = "up" /\ start = "done" /\ gen = 0 /\ row.exists
  /\ RunLoop(FALSE)
  /\ UNCHANGED <<relpc, now, proc, row, nlog, logEnded, timers, tw, start, sfails, faults, inbox, sendpc>>

----------------------------------------------------------------------------
(* the control loop: reduce a tick, persist it, execute its commands (publishes) *)
Causes == {"work", "timer", "mail", "imail", "idlecheck"}
InternalSend ==               \* a running step body calls ctx.send_event: the tick goes to the run's own mailbox
  /\ proc = "up" /\ gen \in loops /\ active /\ eng.ended = "none" /\ eng.work /\ eng.imail < 3
  /\ eng' = [eng EXCEPT !.imail = @ + 1]
  /\ UNCHANGED <<relpc, now, proc, row, nlog, logEnded, loops, gen, active, pactive, timers, tw, start, sfails, faults, inbox, sendpc>>

Tick(w, t, cause) ==          \* the reducer ran; w, t: the engine summary after it; cause: where the tick came from
  /\ proc = "up" /\ gen \in loops /\ active /\ ~tw.on /\ eng.ended = "none" /\ eng.phase = "wait"
  /\ CASE cause = "work" -> eng.work                    \* a step finished / an internal send / the start event
        [] cause = "timer" -> eng.timers                \* a scheduled wake-up fell due (retry, waiter timeout, workflow timeout)
        [] cause = "mail" -> inbox > 0                  \* a tick accepted by send_event
        [] cause = "imail" -> eng.imail > 0             \* a tick a step sent to its own run
        [] cause = "idlecheck" -> eng.chk /\ w = eng.work /\ t = eng.timers    \* the idle check the reducer asked for;
                                                        \* it changes nothing and publishes WorkflowIdleEvent only if nothing is queued or running
  /\ inbox' = IF cause = "mail" THEN inbox - 1 ELSE inbox
  /\ eng' = [eng EXCEPT !.work = w, !.timers = t, !.phase = "reduced", !.cause = cause,
                         !.imail = IF cause = "imail" THEN @ - 1 ELSE @,
                         !.chk = IF cause = "idlecheck" THEN FALSE ELSE @]
  /\ row' = IF Dev_InternalActivityKeepsIdleFlag \/ cause = "idlecheck" THEN row ELSE [row EXCEPT !.idle = 0]
  /\ UNCHANGED <<relpc, now, proc, nlog, logEnded, loops, gen, active, pactive, timers, tw, start, sfails, faults, sendpc>>

Persist(ends) ==              \* on_tick -> store.append_tick; `ends`: this tick makes the reducer end the run
  /\ proc = "up" /\ gen \in loops /\ active /\ eng.phase = "reduced"
  /\ nlog' = nlog + 1 /\ logEnded' = (logEnded \/ ends)
  /\ eng' = [eng EXCEPT !.phase = "cmds"]
  /\ UNCHANGED <<relpc, now, proc, row, loops, gen, active, pactive, timers, tw, start, sfails, faults, inbox, sendpc>>

(* _IdleReleaseInternalRunAdapter.write_to_event_stream(WorkflowIdleEvent) *)
TickDone(q, c, tm) ==         \* the commands of the tick have been executed; the loop goes back to waiting
  \* q: the commands queued further internal ticks (a step's output event, a retry without delay, ...) -- never those of
  \* an idle check, which only publishes
  /\ proc = "up" /\ gen \in loops /\ active /\ eng.phase = "cmds" /\ ~tw.on
  \* c: they asked for an idle check;  tm: they scheduled a wake-up (retry delay, waiter timeout)
  /\ ((q \/ c \/ tm) => eng.cause # "idlecheck")
  /\ eng' = [eng EXCEPT !.phase = "wait", !.work = @ \/ q, !.chk = @ \/ c, !.timers = @ \/ tm]
  /\ UNCHANGED <<relpc, now, proc, row, nlog, logEnded, loops, gen, active, pactive, timers, tw, start, sfails, faults, inbox, sendpc>>

PublishIdle ==
  /\ proc = "up" /\ gen \in loops /\ active /\ ~tw.on /\ eng.ended = "none" /\ eng.phase = "cmds" /\ row.exists
  /\ eng.cause = "idlecheck"                                        \* only the idle-check tick publishes WorkflowIdleEvent
  /\ ~eng.work /\ (Dev_IdleIgnoresTimers \/ ~eng.timers)         \* _check_idle_state: nothing queued or running
  /\ (Dev_IdleIgnoresMailbox \/ (eng.imail = 0 /\ inbox = 0))
  /\ row' = [row EXCEPT !.status = "running", !.idle = now + 1]
  /\ timers' = timers \cup {now + IdleTimeout}
  /\ UNCHANGED <<relpc, now, proc, nlog, logEnded, loops, gen, active, pactive, eng, tw, start, sfails, faults, inbox, sendpc>>

(* _ServerInternalRunAdapter.write_to_event_stream(terminal event): _retry_store_write *)
PublishTerminal(k) ==
  /\ proc = "up" /\ gen \in loops /\ active /\ ~tw.on /\ eng.ended = "none" /\ eng.phase = "cmds"
  /\ eng.cause # "idlecheck"                     \* an idle check publishes nothing but WorkflowIdleEvent
  /\ eng' = [eng EXCEPT !.ended = k, !.work = FALSE]
  /\ tw' = [on |-> TRUE, status |-> StatusOf(k), fails |-> 0]
  /\ UNCHANGED <<relpc, now, proc, row, nlog, logEnded, loops, gen, active, pactive, timers, start, sfails, faults, inbox, sendpc>>

TermWriteOk ==
  /\ proc = "up" /\ tw.on
  /\ row' = IF row.exists THEN [row EXCEPT !.status = tw.status, !.result = (tw.status = "completed")] ELSE row
  /\ tw' = NoTw
  /\ UNCHANGED <<relpc, now, proc, nlog, logEnded, loops, gen, active, pactive, timers, eng, start, sfails, faults, inbox, sendpc>>

TermWriteFail ==
  /\ proc = "up" /\ tw.on /\ faults < MaxFaults /\ tw.fails < Len(Backoffs)
  /\ tw' = [tw EXCEPT !.fails = @ + 1] /\ faults' = faults + 1
  /\ UNCHANGED <<relpc, now, proc, row, nlog, logEnded, loops, gen, active, pactive, timers, eng, start, sfails, inbox, sendpc>>

(* the control loop task ends (after its terminal event, or because it was aborted) *)
LoopExit(g) ==
  /\ proc = "up" /\ g \in loops
  /\ (g = gen => (eng.ended # "none" \/ ~active))
  /\ (tw.on => (g = gen /\ ~active))         \* a loop ends inside its terminal status write only when it is aborted
  /\ loops' = loops \ {g}
  /\ tw' = IF g = gen /\ ~active THEN NoTw ELSE tw      \* ... and the write (its retry, its back-off sleep) dies with the task
  /\ UNCHANGED <<relpc, now, proc, row, nlog, logEnded, gen, active, pactive, timers, eng, start, sfails, faults, inbox, sendpc>>

----------------------------------------------------------------------------
(* IdleReleaseDecorator._release_idle_handler, when a _deferred_release task wakes *)
\* check-then-act under the reload lock: take the lock, read the row (a store with real I/O yields here) ...
ReleaseRead(d) ==
  /\ proc = "up" /\ d \in timers /\ now >= d /\ LockFree
  /\ timers' = timers \ {d}
  /\ relpc' = IF row.exists /\ row.idle # 0 /\ now - (row.idle - 1) >= IdleTimeout THEN "okT" ELSE "okF"
  /\ UNCHANGED <<now, proc, row, nlog, logEnded, loops, gen, active, pactive, eng, tw, start, sfails, faults, inbox, sendpc>>
\* ... then act on what was read and let the lock go
ReleaseAct ==
  /\ proc = "up" /\ relpc # "none"
  /\ active' = (IF relpc = "okT" /\ active THEN FALSE ELSE active)        \* _abort_inner_run (LoopExit follows)
  /\ relpc' = "none"
  /\ UNCHANGED <<now, proc, row, nlog, logEnded, loops, gen, pactive, timers, eng, tw, start, sfails, faults, inbox, sendpc>>
\* both at once (a store whose query does not yield, e.g. SQLite: what a recorded release_fire line stands for)
ReleaseFire(d) ==
  /\ proc = "up" /\ d \in timers /\ now >= d /\ LockFree
  /\ timers' = timers \ {d}
  /\ IF row.exists /\ row.idle # 0 /\ now - (row.idle - 1) >= IdleTimeout /\ active
       THEN active' = FALSE            \* _abort_inner_run: the loop task is cancelled (LoopExit follows)
       ELSE active' = active
  /\ UNCHANGED <<relpc, now, proc, row, nlog, logEnded, loops, gen, pactive, eng, tw, start, sfails, faults, inbox, sendpc>>

(* IdleReleaseExternalRunAdapter.send_event: async with reload_lock: [reload] ; idle_since := None ; forward *)
(* _service.send_event / cancel_handler: resolve_handler refuses a handler whose stored status is terminal ...          *)
SendCheck ==
  /\ proc = "up" /\ sendpc = "none" /\ row.exists /\ row.status = "running" /\ sendpc' = "checked"
  /\ UNCHANGED <<relpc, now, proc, row, nlog, logEnded, loops, gen, active, pactive, timers, eng, tw, start, sfails, faults, inbox>>
(* ... and only then, some awaits later, the adapter takes the reload lock: the run may have ended in between           *)
SendLock ==
  /\ proc = "up" /\ sendpc = "checked" /\ relpc = "none" /\ sendpc' = "lock"
  /\ UNCHANGED <<relpc, now, proc, row, nlog, logEnded, loops, gen, active, pactive, timers, eng, tw, start, sfails, faults, inbox>>
SendBegin ==         \* both at once (what a recorded send_begin line without an earlier check line stands for)
  /\ proc = "up" /\ sendpc = "none" /\ relpc = "none" /\ row.exists /\ row.status = "running" /\ sendpc' = "lock"
  /\ UNCHANGED <<relpc, now, proc, row, nlog, logEnded, loops, gen, active, pactive, timers, eng, tw, start, sfails, faults, inbox>>
(* _ensure_active_run_locked: context_from_ticks + workflow.run(ctx) *)
SendReload ==
  /\ proc = "up" /\ sendpc = "lock" /\ ~active /\ nlog > 0
  /\ RunLoop(TRUE)
  /\ UNCHANGED <<relpc, now, proc, row, nlog, logEnded, timers, tw, start, sfails, faults, inbox, sendpc>>
SendClear ==
  /\ proc = "up" /\ sendpc = "lock" /\ active
  /\ row' = [row EXCEPT !.idle = 0] /\ sendpc' = "cleared"
  /\ UNCHANGED <<relpc, now, proc, nlog, logEnded, loops, gen, active, pactive, timers, eng, tw, start, sfails, faults, inbox>>
(* deviation (not the code today): a loaded run is served WITHOUT the reload lock -- the sender clears idle_since and   *)
(* forwards while an idle release may be between its read and its abort                                              *)
SendFast ==
  /\ Dev_SendSkipsLockWhenLoaded /\ proc = "up" /\ sendpc = "checked" /\ active
  /\ row' = [row EXCEPT !.idle = 0] /\ sendpc' = "cleared"
  /\ UNCHANGED <<relpc, now, proc, nlog, logEnded, loops, gen, active, pactive, timers, eng, tw, start, sfails, faults, inbox>>
SendForward ==
  /\ proc = "up" /\ sendpc = "cleared"
  /\ inbox' = inbox + 1 /\ sendpc' = "none"
  /\ UNCHANGED <<relpc, now, proc, row, nlog, logEnded, loops, gen, active, pactive, timers, eng, tw, start, sfails, faults>>

(* cancel_handler -> WorkflowHandler.cancel_run -> adapter.cancel().  Before the fix the decorator base class handed cancel() *)
(* to the INNER adapter: the cancel tick reached the mailbox without the reload lock, without a reload and without clearing   *)
(* idle_since -- and not at all for a released run.  Since the fix a cancel is an ordinary send (SendBegin ... SendForward).  *)
CancelDirect ==
  /\ WithCancel /\ Dev_CancelBypassesLock /\ proc = "up" /\ gen \in loops /\ active /\ row.exists /\ row.status = "running"
  /\ inbox' = inbox + 1
  /\ UNCHANGED <<relpc, now, proc, row, nlog, logEnded, loops, gen, active, pactive, timers, eng, tw, start, sfails, faults, sendpc>>

----------------------------------------------------------------------------
Crash ==
  /\ proc = "up"
  /\ proc' = "down" /\ loops' = {} /\ active' = FALSE /\ pactive' = FALSE /\ timers' = {} /\ tw' = NoTw
  /\ inbox' = 0 /\ eng' = Eng0 /\ sendpc' = "none" /\ relpc' = "none"
  /\ start' = (IF gen = 0 /\ start # "none" THEN "dead" ELSE start)      \* the start_workflow call died with the process
  /\ UNCHANGED <<now, row, nlog, logEnded, gen, sfails, faults>>

(* PersistenceDecorator._on_server_start *)
Restart ==
  /\ proc = "down" /\ proc' = "up"
  /\ IF row.exists /\ row.status = "running" /\ row.idle = 0
       THEN IF nlog = 0
              THEN row' = [row EXCEPT !.status = "failed"] /\ UNCHANGED <<relpc, loops, gen, active, pactive, eng>>
            ELSE IF logEnded
              THEN \E st \in Terminal : row' = [row EXCEPT !.status = st, !.result = (st = "completed")]
                   /\ UNCHANGED <<relpc, loops, gen, active, pactive, eng>>
            ELSE RunLoop(TRUE) /\ row' = row
       ELSE UNCHANGED <<relpc, row, loops, gen, active, pactive, eng>>
  /\ UNCHANGED <<relpc, now, nlog, logEnded, timers, tw, start, sfails, faults, inbox, sendpc>>

Advance(t) ==
  /\ t > now /\ t <= MaxT /\ now' = t
  /\ ~(proc = "up" /\ \E d \in timers : d < t)          \* a due timer fires before time moves past it
  \* the event loop runs what is runnable before time moves: an accepted tick is reduced, a reduced tick is persisted,
  \* a send in progress finishes (store calls take no virtual time; back-off sleeps do)
  /\ ~(proc = "up" /\ gen \in loops /\ active /\ eng.ended = "none" /\ (inbox > 0 \/ eng.imail > 0 \/ eng.phase # "wait"))
  /\ ~(tw.on /\ tw.fails = 0)                            \* a store write takes no virtual time; a back-off sleep does
  /\ sendpc = "none"
  /\ UNCHANGED <<relpc, proc, row, nlog, logEnded, loops, gen, active, pactive, timers, eng, tw, start, sfails, faults, inbox, sendpc>>

Next ==
  \/ StartRowOk \/ StartRowFail \/ StartRun
  \/ InternalSend \/ (\E w, t \in BOOLEAN, c \in Causes : Tick(w, t, c)) \/ (\E e \in BOOLEAN : Persist(e))
  \/ (\E q, c, tm \in BOOLEAN : TickDone(q, c, tm)) \/ PublishIdle \/ (\E k \in {"stop", "failed", "cancelled", "timedout"} : PublishTerminal(k))
  \/ TermWriteOk \/ TermWriteFail \/ (\E g \in loops : LoopExit(g))
  \/ CancelDirect \/ (\E d \in timers : ReleaseRead(d)) \/ ReleaseAct \/ SendFast \/ SendCheck \/ SendLock \/ SendReload \/ SendClear \/ SendForward
  \/ Crash \/ Restart \/ (\E t \in (now + 1)..MaxT : Advance(t))
Spec == Init /\ [][Next]_vars

----------------------------------------------------------------------------
(* properties of the stack that hold whatever the engine does *)
TypeOK == /\ proc \in {"up", "down"} /\ nlog \in Nat /\ gen \in Nat /\ loops \subseteq 1..gen
          /\ row.idle >= 0 /\ inbox >= 0
(* C26: at no time are two live control loops executing the same run *)
\* (a released loop is cancelled before the next one is created; both may exist as tasks for an instant, but the old one
\*  never runs again: `loops` counts tasks, so the bound is 2 with the older one aborted)
Inv_OneActiveLoop == Cardinality(loops) <= 2 /\ (Cardinality(loops) = 2 => gen \in loops)
(* an active run that has not ended has a loop (_active_run_ids keeps the id of a run that ended by itself) *)
Inv_ActiveHasLoop == (proc = "up" /\ active /\ eng.ended = "none") => gen \in loops
(* C36: a run is released only after it was idle for idle_timeout, and a released run is marked idle *)
Act_ReleaseAfterTimeout == [][(active /\ ~active' /\ proc' = "up") => (row.idle # 0 /\ now - (row.idle - 1) >= IdleTimeout)]_vars
Inv_ReleasedIsMarkedIdle == (proc = "up" /\ gen > 0 /\ ~active /\ eng.ended = "none" /\ row.status = "running") => row.idle # 0
(* C15: once the loop has ended with a terminal event and its status write is over, the row says so *)
Inv_StatusMatchesOutcome ==
  (proc = "up" /\ eng.ended # "none" /\ ~tw.on /\ row.exists) => row.status = StatusOf(eng.ended)
(* C26: a run is released only while it has no queued, running or scheduled work *)
Act_ReleaseOnlyWhenTrulyIdle ==
  [][(active /\ ~active' /\ proc' = "up" /\ eng.ended = "none") => (~eng.work /\ ~eng.timers /\ inbox = 0 /\ eng.imail = 0)]_vars
(* a terminal row is final *)
Act_TerminalIsFinal == [][(row.status \in Terminal) => (row'.status = row.status)]_vars
(* the tick log only grows, and a tick is persisted before its commands run *)
Act_LogGrows == [][nlog' >= nlog]_vars
=============================================================================
