CONSTANTS
  Delay = 2
  IdleTimeout = 3
  MaxT = 8
  Dev_IdleIgnoresTimers = TRUE
  Dev_TimersInMemoryOnly = TRUE
  Dev_InternalActivityKeepsIdleFlag = TRUE
SPECIFICATION Spec
INVARIANT Inv_NoTimerLost
INVARIANT Inv_ActiveHasLoop
INVARIANT Inv_ReleasedIsMarkedIdle
INVARIANT Inv_NoEventLost
PROPERTY Act_ReleaseOnlyWhenTrulyIdle
PROPERTY Act_NotReleasedEarly
