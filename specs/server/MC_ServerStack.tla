---- MODULE MC_ServerStack ----
EXTENDS ServerStack
MC_Backoffs == <<500, 3000>>
\* bound the exploration: few ticks, few loops
Bound == nlog <= 3 /\ gen <= 3 /\ inbox <= 1
BoundQuick == nlog <= 2 /\ gen <= 2 /\ inbox <= 1
====
