CONSTANTS
  IdleTimeout = 2
  Backoffs <- MC_Backoffs
  MaxFaults = 1
  MaxT = 5
  Dev_IdleIgnoresTimers = FALSE
  Dev_InternalActivityKeepsIdleFlag = FALSE
  Dev_IdleIgnoresMailbox = FALSE
  Dev_CancelBypassesLock = FALSE
  Dev_SendSkipsLockWhenLoaded = FALSE
  WithCancel = FALSE
INIT Init
NEXT Next
CONSTRAINT BoundQuick
INVARIANT TypeOK

INVARIANT Inv_ActiveHasLoop
INVARIANT Inv_ReleasedIsMarkedIdle
INVARIANT Inv_StatusMatchesOutcome
PROPERTY Act_ReleaseAfterTimeout

PROPERTY Act_LogGrows
PROPERTY Act_ReleaseOnlyWhenTrulyIdle
PROPERTY Act_TerminalIsFinal
