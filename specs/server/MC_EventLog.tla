---- MODULE MC_EventLog ----
EXTENDS EventLog
\* subscribers / writers are strings so that the same values appear in implementation traces
S1 == {"s1"}
S2 == {"s1", "s2"}
W1 == {"w1"}
W2 == {"w1", "w2"}
AllStyles == {"memory", "sqlite", "poll"}
MemOnly == {"memory"}
SqlOnly == {"sqlite"}
====
