CONSTANTS
  Subs <- S1
  Writers <- W1
  MaxEvents = 3
  MaxReconnect = 1
  Styles <- MemOnly
  AtomicAppend = TRUE
  Dev_MemCursorByIndex = FALSE
SPECIFICATION FairSpec
INVARIANT TypeOK
INVARIANT Inv_C16_strict
PROPERTY Live_Delivered
