----------------------------- MODULE Persistence -----------------------------
(* Tick persistence and restart recovery of the in-process server stack:                      *)
(*   _PersistenceInternalRunAdapter.on_tick  (append_tick after the reduction, before the      *)
(*   tick's commands are executed), PersistenceDecorator._on_server_start /                    *)
(*   TickPersistenceDecorator.context_from_ticks (replay_ticks_stream: rewind, then fold the   *)
(*   reducer over the persisted ticks DISCARDING the commands), workflow.run(ctx=replayed).    *)
(* The engine is abstracted to a pipeline of N stages: the event of stage s is processed by a  *)
(* step whose result tick queues the event of stage s+1 (CommandQueueEvent -> in-memory tick   *)
(* buffer), the last stage completes the run.  What is durable is exactly the tick log; the    *)
(* tick buffer, the adapter mailbox and the timer heap live in memory.                         *)
(*                                                                                              *)
(* Dev_DiscardCommandsOnReplay = TRUE is the code as it is: events queued by the commands of   *)
(* persisted ticks that had not themselves become persisted ticks are not re-issued on replay. *)
(* FALSE is the intended design (the replay re-queues them).                                    *)
(******************************************************************************)
EXTENDS Naturals, Sequences, FiniteSets

CONSTANTS N, MaxCrash, Dev_DiscardCommandsOnReplay

VARIABLES log,       \* persisted ticks: Seq([k: "add" | "result", s: 1..N])
          buffer,    \* in-memory tick buffer
          pending,   \* commands of the tick persisted last, not yet executed ("none" or an add tick)
          workers,   \* stages whose step body is running in this process
          up, done, ncrash

vars == <<log, buffer, pending, workers, up, done, ncrash>>

NoTick == [k |-> "none", s |-> 0]
Add(s) == [k |-> "add", s |-> s]
Res(s) == [k |-> "result", s |-> s]
InLog(t) == \E i \in 1..Len(log) : log[i] = t

(* the reducer state rebuilt from the log: stages in progress *)
InProgress == {s \in 1..N : InLog(Add(s)) /\ ~InLog(Res(s))}

Init == /\ log = <<>> /\ buffer = <<Add(1)>> /\ pending = NoTick /\ workers = {}
        /\ up = TRUE /\ done = FALSE /\ ncrash = 0

(* _process_tick, first half: reduce + on_tick (append_tick) *)
Persist ==
  /\ up /\ ~done /\ pending = NoTick /\ buffer # <<>>
  /\ LET t == Head(buffer) IN
     /\ log' = Append(log, t)
     /\ buffer' = Tail(buffer)
     /\ pending' = t
  /\ UNCHANGED <<workers, up, done, ncrash>>

(* _process_tick, second half: the commands *)
Exec ==
  /\ up /\ pending # NoTick
  /\ IF pending.k = "add"
       THEN /\ workers' = workers \cup {pending.s}                \* CommandRunWorker
            /\ UNCHANGED <<buffer, done>>
       ELSE IF pending.s < N
       THEN /\ buffer' = Append(buffer, Add(pending.s + 1))       \* CommandQueueEvent -> tick buffer
            /\ UNCHANGED <<workers, done>>
       ELSE /\ done' = TRUE /\ UNCHANGED <<buffer, workers>>      \* CommandCompleteRun
  /\ pending' = NoTick
  /\ UNCHANGED <<log, up, ncrash>>

StepDone(s) ==
  /\ up /\ s \in workers
  /\ workers' = workers \ {s}
  /\ buffer' = Append(buffer, Res(s))
  /\ UNCHANGED <<log, pending, up, done, ncrash>>

Crash ==
  /\ up /\ ~done /\ ncrash < MaxCrash /\ log # <<>>      \* "the process stops after any persisted tick"
  /\ up' = FALSE /\ buffer' = <<>> /\ pending' = NoTick /\ workers' = {} /\ ncrash' = ncrash + 1
  /\ UNCHANGED <<log, done>>

(* events queued by persisted result ticks that never became persisted ticks themselves *)
Orphans == {s \in 2..N : InLog(Res(s - 1)) /\ ~InLog(Add(s))}
RECURSIVE SeqOf(_)
SeqOf(S) == IF S = {} THEN <<>> ELSE LET m == CHOOSE x \in S : \A y \in S : x <= y IN <<Add(m)>> \o SeqOf(S \ {m})

Restart ==
  /\ ~up
  /\ up' = TRUE
  /\ done' = InLog(Res(N))                                         \* exit command found: finalize, do not re-run
  /\ workers' = IF InLog(Res(N)) THEN {} ELSE InProgress           \* rewind_in_progress re-runs in-progress work
  /\ buffer' = IF Dev_DiscardCommandsOnReplay \/ InLog(Res(N)) THEN <<>> ELSE SeqOf(Orphans)
  /\ pending' = NoTick
  /\ UNCHANGED <<log, ncrash>>

Next == Persist \/ Exec \/ (\E s \in 1..N : StepDone(s)) \/ Crash \/ Restart
Spec == Init /\ [][Next]_vars

(* C13: no accepted work is lost -- a live process with nothing left to do has finished the run *)
Stuck == up /\ ~done /\ buffer = <<>> /\ pending = NoTick /\ workers = {}
Inv_NoAcceptedWorkLost == ~Stuck
(* a finished run is never re-run *)
Inv_NoRerun == done => workers = {}
(* each stage's completion is persisted at most once per ... the log never records a result without its add *)
Inv_LogWellFormed == \A s \in 1..N : InLog(Res(s)) => InLog(Add(s))
=============================================================================
