----------------------------- MODULE IdleRelease -----------------------------
(* Idle detection, release from memory and reload-on-demand of the in-process server stack:       *)
(*   _IdleReleaseInternalRunAdapter.write_to_event_stream (WorkflowIdleEvent -> idle_since := now, *)
(*   spawn _deferred_release), IdleReleaseDecorator._release_idle_handler (under the per-run       *)
(*   reload lock: idle_since set, now - idle_since >= idle_timeout, run active -> abort the inner   *)
(*   run), IdleReleaseExternalRunAdapter.send_event (under the lock: not active -> rebuild the      *)
(*   context from the persisted ticks and run it, clear idle_since; then forward the tick),         *)
(* over an abstract engine: one step invocation that fails once and is retried after Delay, then    *)
(* waits for one external event and stops.  The engine's timers live in the runner's heap.          *)
(*                                                                                                   *)
(* Deviation switches (TRUE = the code as it is):                                                    *)
(*   Dev_IdleIgnoresTimers   the reducer announces idle although a retry is waiting out its delay    *)
(*   Dev_TimersInMemoryOnly  an aborted / restarted run does not get its pending timers back         *)
(*   Dev_InternalActivityKeepsIdleFlag  only external sends clear idle_since                         *)
(******************************************************************************)
EXTENDS Naturals, Sequences, FiniteSets

CONSTANTS Delay, IdleTimeout, MaxT, Dev_IdleIgnoresTimers, Dev_TimersInMemoryOnly, Dev_InternalActivityKeepsIdleFlag

VARIABLES now,
          loop,       \* "live" | "absent"            a control loop of the run exists in this process
          phase,      \* durable progress of the run (rebuilt from the tick log): "try1" | "retrywait" | "try2" | "waiting" | "done"
          timer,      \* in-memory: deadline of the pending retry, or 0
          lostTimer,  \* a pending timer was dropped by an abort and not restored
          idleSince,  \* handler row: 0 = not idle, else announcement time + 1
          relAt,      \* set of deadlines of spawned _deferred_release tasks
          active,     \* run_id in _active_run_ids
          inbox,      \* events sent and not yet processed
          processed   \* number of external events the run consumed

vars == <<now, loop, phase, timer, lostTimer, idleSince, relAt, active, inbox, processed>>

Init == /\ now = 0 /\ loop = "live" /\ phase = "try1" /\ timer = 0 /\ lostTimer = FALSE
        /\ idleSince = 0 /\ relAt = {} /\ active = TRUE /\ inbox = 0 /\ processed = 0

EngineHasWork == phase \in {"try1", "try2"} \/ inbox > 0
TimerPending == timer # 0

(* the reducer finds no queued / running work and the idle check publishes WorkflowIdleEvent *)
AnnounceIdle ==
  /\ loop = "live" /\ phase \in {"retrywait", "waiting"} /\ inbox = 0 /\ idleSince = 0
  /\ (Dev_IdleIgnoresTimers \/ ~TimerPending)
  /\ idleSince' = now + 1 /\ relAt' = relAt \cup {now + IdleTimeout}
  /\ UNCHANGED <<now, loop, phase, timer, lostTimer, active, inbox, processed>>

FirstAttemptFails ==
  /\ loop = "live" /\ phase = "try1"
  /\ phase' = "retrywait" /\ timer' = now + Delay
  /\ UNCHANGED <<now, loop, lostTimer, idleSince, relAt, active, inbox, processed>>

RetryFires ==
  /\ loop = "live" /\ phase = "retrywait" /\ timer # 0 /\ now >= timer
  /\ phase' = "try2" /\ timer' = 0
  /\ idleSince' = IF Dev_InternalActivityKeepsIdleFlag THEN idleSince ELSE 0
  /\ UNCHANGED <<now, loop, lostTimer, relAt, active, inbox, processed>>

SecondAttemptOk ==
  /\ loop = "live" /\ phase = "try2"
  /\ phase' = "waiting"
  /\ UNCHANGED <<now, loop, timer, lostTimer, idleSince, relAt, active, inbox, processed>>

Consume ==
  /\ loop = "live" /\ phase = "waiting" /\ inbox > 0
  /\ inbox' = inbox - 1 /\ processed' = processed + 1 /\ phase' = "done"
  /\ UNCHANGED <<now, loop, timer, lostTimer, idleSince, relAt, active>>

(* _release_idle_handler when a deferred release task wakes up *)
Release(d) ==
  /\ d \in relAt /\ now >= d
  /\ relAt' = relAt \ {d}
  /\ IF idleSince # 0 /\ now - (idleSince - 1) >= IdleTimeout /\ active
       THEN /\ active' = FALSE /\ loop' = "absent"
            /\ timer' = IF Dev_TimersInMemoryOnly THEN 0 ELSE timer
            /\ lostTimer' = (lostTimer \/ (Dev_TimersInMemoryOnly /\ TimerPending))
       ELSE UNCHANGED <<active, loop, timer, lostTimer>>
  /\ UNCHANGED <<now, phase, idleSince, inbox, processed>>

(* external send: reload if released, clear the idle flag, deliver *)
Send ==
  /\ phase # "done" /\ inbox + processed < 1
  /\ IF ~active
       THEN /\ loop' = "live" /\ active' = TRUE
            /\ phase' = IF phase = "try2" THEN "try2" ELSE phase        \* in-progress work is re-run from the tick log
       ELSE UNCHANGED <<loop, active, phase>>
  /\ idleSince' = 0 /\ inbox' = inbox + 1
  /\ UNCHANGED <<now, timer, lostTimer, relAt, processed>>

(* time passes only when no timer of this process is due (timers are urgent in the event loop) *)
Tick == now < MaxT /\ now' = now + 1
        /\ ~(loop = "live" /\ timer # 0 /\ now >= timer)
        /\ ~(\E d \in relAt : now >= d)
        /\ ~(loop = "live" /\ phase \in {"try1", "try2"})        \* step bodies take no time here
        /\ UNCHANGED <<loop, phase, timer, lostTimer, idleSince, relAt, active, inbox, processed>>

Next == AnnounceIdle \/ FirstAttemptFails \/ RetryFires \/ SecondAttemptOk \/ Consume
        \/ (\E d \in relAt : Release(d)) \/ Send \/ Tick
Spec == Init /\ [][Next]_vars

(* C26: a run is released only while it has no queued, running or scheduled work *)
Act_ReleaseOnlyWhenTrulyIdle ==
  [][(loop = "live" /\ loop' = "absent") => (~EngineHasWork /\ ~TimerPending)]_vars
(* C14: a pending retry survives the release *)
Inv_NoTimerLost == ~lostTimer
(* C26/C36: at most one loop; an active run has a loop; a released run is marked idle *)
Inv_ActiveHasLoop == (active <=> loop = "live")
Inv_ReleasedIsMarkedIdle == (loop = "absent" => idleSince # 0)
(* C36: never released before the idle timeout has elapsed *)
Act_NotReleasedEarly == [][(loop = "live" /\ loop' = "absent") => (now - (idleSince - 1) >= IdleTimeout)]_vars
(* C26: no sent event is dropped *)
Inv_NoEventLost == inbox + processed <= 1
=============================================================================
