---- MODULE MC_Persistence ----
EXTENDS Persistence
====
