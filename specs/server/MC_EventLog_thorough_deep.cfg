CONSTANTS
  Subs <- S1
  Writers <- W1
  MaxEvents = 5
  MaxReconnect = 2
  Styles <- AllStyles
  AtomicAppend = TRUE
  Dev_MemCursorByIndex = TRUE
SPECIFICATION FairSpec
INVARIANT TypeOK
INVARIANT Inv_C16_asis
PROPERTY Live_Delivered
