CONSTANTS
  IdleTimeout <- TraceIdleTimeout
  Backoffs <- TraceBackoffs
  MaxFaults = 99
  MaxT = 0
  Dev_IdleIgnoresTimers = TRUE
  Dev_InternalActivityKeepsIdleFlag = TRUE
  Dev_IdleIgnoresMailbox = TRUE
  Dev_CancelBypassesLock = FALSE
  Dev_SendSkipsLockWhenLoaded = FALSE
  WithCancel = TRUE
INIT TraceInit
NEXT TraceNext
INVARIANT TypeOK
INVARIANT Inv_ActiveHasLoop
INVARIANT Inv_ReleasedIsMarkedIdle
INVARIANT Inv_StatusMatchesOutcome
