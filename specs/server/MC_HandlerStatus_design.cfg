CONSTANTS
  Backoffs = 2
  MaxFaults = 2
  Dev_EngineErrorHasNoTerminalEvent = FALSE
SPECIFICATION Spec
INVARIANT Inv_StatusMatchesOutcome
INVARIANT Inv_NeverRunningAfterEnd
INVARIANT Inv_TerminalIsFinal
CONSTRAINT Bound
