CONSTANTS
  N = 5
  HiddenSets <- Hid5
  Preloads <- Pre5
  MaxAttempts = 3
  MaxFaults = 4
  MaxArm = 4
  MaxHb = 1
  EnvWaits = FALSE
SPECIFICATION Spec
INVARIANT TypeOK
INVARIANT Inv_Prefix
INVARIANT Inv_LastSeq
INVARIANT Inv_Complete
INVARIANT Inv_FailBeyondLimit
INVARIANT Inv_Reconnect
