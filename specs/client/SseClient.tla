---------------------------- MODULE SseClient ----------------------------
(* WorkflowClient.get_workflow_events (llama_agents/client/client.py) reading the SSE stream       *)
(* produced by _WorkflowAPI._stream_events / format_stream (llama_agents/server/_api.py).           *)
(*                                                                                                  *)
(* The run's events are 1..N (N is the terminal StopEvent); `hidden` events are internal dispatch    *)
(* events that the server filters out (include_internal=false).  A connection is a byte stream of    *)
(* frames  "id: e\ndata: {..}\n\n"  (heartbeat: ": heartbeat\n\n"); `wire` holds the frames the       *)
(* server has produced and the client has not completely received, `pos` how far the head frame      *)
(* has reached the client:                                                                           *)
(*    0 before "id"   1 inside the id line   2 after the id line   3 inside the data line            *)
(*    4 after the data line   5 after the blank line (frame complete)                                *)
(* (heartbeat frames have positions 0,1,2,5).  The client only ever sees complete lines (httpx       *)
(* LineDecoder); a partial line is discarded when the connection is cut.                             *)
(*                                                                                                  *)
(* Environment actions (what the network / the server's run does):                                   *)
(*    Arm(k) Start AppendEv Heartbeat Deliver(p) Drop Close                                            *)
(* Client steps (one per suspension-free section of reader()/EventStream._iterate):                  *)
(*    Connect   - client.stream(..., after_sequence=last_sequence): ConnectError | 204 | 200         *)
(*    ReadLine  - one iteration of `async for line in response.aiter_lines()`                        *)
(*    Consume   - EventStream._iterate takes one queue item                                          *)
(* Drop and Close include the reader's reaction (except-branch / normal end), because the error      *)
(* is raised only after every chunk delivered before it has been consumed.                           *)
(**************************************************************************)
EXTENDS Naturals, Sequences, FiniteSets, TLC

CONSTANTS
  N,            \* number of events of the run; event N is terminal
  HiddenSets,   \* set of sets of hidden (internal) events to choose from
  Preloads,     \* how many events are already in the log when the client starts
  MaxAttempts,  \* max_reconnect_attempts
  MaxFaults,    \* bound on faults (connect failures + drops) per behaviour
  MaxArm,       \* longest run of consecutive connect failures the environment arms at once
  MaxHb,        \* bound on heartbeats
  EnvWaits      \* TRUE: environment acts only when the client is quiescent (the harness's granularity)

VARIABLES
  log, hidden, armed, faults, hbs,                 \* server / environment
  conn, wire, pos, eof,                            \* the open connection
  rd, lastSeq, curId, seen, attempts, queue,       \* reader task
  cons, streamLast,                                \* consumer (EventStream)
  cursor, yielded, reqs, consec, maxConsec         \* start cursor and history

vars == <<log, hidden, armed, faults, hbs, conn, wire, pos, eof, rd, lastSeq, curId, seen, attempts, queue,
          cons, streamLast, cursor, yielded, reqs, consec, maxConsec>>

Visible(e) == e \notin hidden
Max(a, b) == IF a > b THEN a ELSE b

\* frames the server streams for a subscription after cursor c, given the current log
RECURSIVE FramesFrom(_, _)
FramesFrom(lo, hi) == IF lo > hi THEN <<>>
                      ELSE (IF Visible(lo) THEN <<lo>> ELSE <<>>) \o FramesFrom(lo + 1, hi)

Positions(f) == IF f = 0 THEN {1, 2, 5} ELSE 1..5
Bounds(f) == IF f = 0 THEN {2, 5} ELSE {2, 4, 5}           \* ends of complete lines
NextBound(f, s) == CHOOSE b \in Bounds(f) : b > s /\ \A c \in Bounds(f) : c > s => b <= c

CanRead == /\ rd = "stream" /\ conn = "open" /\ wire # <<>>
           /\ seen < 5 /\ NextBound(Head(wire), seen) <= pos
ClientQuiet == /\ rd # "connect" /\ ~CanRead
               /\ ~(cons = "running" /\ queue # <<>>)
EnvOK == EnvWaits => ClientQuiet

Init ==
  /\ log \in Preloads /\ hidden \in HiddenSets /\ N \notin hidden
  /\ cursor \in 0..log
  /\ armed = 0 /\ faults = 0 /\ hbs = 0
  /\ conn = "none" /\ wire = <<>> /\ pos = 0 /\ eof = FALSE
  /\ rd = "init" /\ lastSeq = cursor /\ curId = 0 /\ seen = 0 /\ attempts = 0 /\ queue = <<>>
  /\ cons = "init" /\ streamLast = cursor
  /\ yielded = <<>> /\ reqs = <<>> /\ consec = 0 /\ maxConsec = 0

QItem(k, e, s) == [k |-> k, ev |-> e, seq |-> s]

\* the reader's `except (httpx.RequestError, ConnectionError)` branch
Fail ==
  /\ attempts' = attempts + 1
  /\ consec' = consec + 1 /\ maxConsec' = Max(maxConsec, consec + 1)
  /\ IF attempts + 1 > MaxAttempts
       THEN /\ queue' = Append(queue, QItem("err", 0, 0)) /\ rd' = "failed"
       ELSE /\ queue' = queue /\ rd' = "connect"

----------------------------------------------------------------------------
(* environment *)
Arm(k) ==
  /\ EnvOK /\ armed = 0 /\ rd \in {"init", "stream"} /\ faults + k <= MaxFaults
  /\ armed' = k /\ faults' = faults + k
  /\ UNCHANGED <<log, hidden, hbs, conn, wire, pos, eof, rd, lastSeq, curId, seen, attempts, queue, cons,
                 streamLast, cursor, yielded, reqs, consec, maxConsec>>

Start ==
  /\ EnvOK /\ rd = "init"
  /\ rd' = "connect" /\ cons' = "running"
  /\ UNCHANGED <<log, hidden, armed, faults, hbs, conn, wire, pos, eof, lastSeq, curId, seen, attempts, queue,
                 streamLast, cursor, yielded, reqs, consec, maxConsec>>

AppendEv ==
  /\ EnvOK /\ log < N
  /\ log' = log + 1
  /\ IF conn = "open" /\ ~eof
       THEN /\ wire' = IF Visible(log + 1) THEN Append(wire, log + 1) ELSE wire
            /\ eof' = (log + 1 = N)
       ELSE UNCHANGED <<wire, eof>>
  /\ UNCHANGED <<hidden, armed, faults, hbs, conn, pos, rd, lastSeq, curId, seen, attempts, queue, cons,
                 streamLast, cursor, yielded, reqs, consec, maxConsec>>

Heartbeat ==
  /\ EnvOK /\ conn = "open" /\ ~eof /\ hbs < MaxHb
  /\ hbs' = hbs + 1 /\ wire' = Append(wire, 0)
  /\ UNCHANGED <<log, hidden, armed, faults, conn, pos, eof, rd, lastSeq, curId, seen, attempts, queue, cons,
                 streamLast, cursor, yielded, reqs, consec, maxConsec>>

Deliver(p) ==
  /\ EnvOK /\ conn = "open" /\ wire # <<>>
  /\ p \in Positions(Head(wire)) /\ p > pos
  /\ pos' = p
  /\ UNCHANGED <<log, hidden, armed, faults, hbs, conn, wire, eof, rd, lastSeq, curId, seen, attempts, queue,
                 cons, streamLast, cursor, yielded, reqs, consec, maxConsec>>

\* ReadError: raised to the reader once everything delivered before it has been read
Drop ==
  /\ EnvOK /\ conn = "open" /\ rd = "stream" /\ ~CanRead /\ faults < MaxFaults
  /\ faults' = faults + 1
  /\ conn' = "none" /\ wire' = <<>> /\ pos' = 0 /\ seen' = 0 /\ eof' = FALSE
  /\ Fail
  /\ UNCHANGED <<log, hidden, armed, hbs, lastSeq, curId, cons, streamLast, cursor, yielded, reqs>>

\* the server ended the body after the terminal event; the reader leaves the loop normally
Close ==
  /\ EnvOK /\ conn = "open" /\ rd = "stream" /\ eof /\ wire = <<>>
  /\ conn' = "none" /\ eof' = FALSE
  /\ queue' = Append(queue, QItem("done", 0, 0)) /\ rd' = "done"
  /\ UNCHANGED <<log, hidden, armed, faults, hbs, wire, pos, lastSeq, curId, seen, attempts, cons, streamLast,
                 cursor, yielded, reqs, consec, maxConsec>>

(* client: reader *)
Connect ==
  /\ rd = "connect"
  /\ IF armed > 0 THEN
        /\ armed' = armed - 1
        /\ reqs' = Append(reqs, [after |-> lastSeq, status |-> "fail"])
        /\ Fail
        /\ UNCHANGED <<conn, wire, pos, eof, curId, seen>>
     ELSE IF lastSeq >= log /\ log = N THEN               \* nothing remains and the run is complete: 204
        /\ reqs' = Append(reqs, [after |-> lastSeq, status |-> "204"])
        /\ queue' = Append(queue, QItem("done", 0, 0)) /\ rd' = "done"
        /\ consec' = 0
        /\ UNCHANGED <<armed, conn, wire, pos, eof, curId, seen, attempts, maxConsec>>
     ELSE                                                  \* 200: attempts reset, fresh parser state
        /\ reqs' = Append(reqs, [after |-> lastSeq, status |-> "200"])
        /\ attempts' = 0 /\ curId' = 0 /\ consec' = 0
        /\ conn' = "open" /\ wire' = FramesFrom(lastSeq + 1, log) /\ pos' = 0 /\ seen' = 0
        /\ eof' = (log = N)
        /\ rd' = "stream"
        /\ UNCHANGED <<armed, queue, maxConsec>>
  /\ UNCHANGED <<log, hidden, faults, hbs, lastSeq, cons, streamLast, cursor, yielded>>

ReadLine ==
  /\ CanRead
  /\ LET f == Head(wire) b == NextBound(f, seen) IN
       /\ IF b = 2 /\ f # 0 THEN curId' = f                       \* "id:" line
          ELSE IF b = 4 THEN curId' = 0                           \* "data:" line
          ELSE curId' = curId                                     \* comment or blank line
       /\ IF b = 4
            THEN LET s == IF curId # 0 THEN curId ELSE lastSeq IN
                 /\ lastSeq' = s
                 /\ queue' = Append(queue, QItem("ev", f, s))
            ELSE UNCHANGED <<lastSeq, queue>>
       /\ IF b = 5 THEN wire' = Tail(wire) /\ pos' = 0 /\ seen' = 0
                   ELSE seen' = b /\ UNCHANGED <<wire, pos>>
  /\ UNCHANGED <<log, hidden, armed, faults, hbs, conn, eof, rd, attempts, cons, streamLast, cursor, yielded,
                 reqs, consec, maxConsec>>

(* client: consumer *)
Consume ==
  /\ cons = "running" /\ queue # <<>>
  /\ LET it == Head(queue) IN
       /\ queue' = Tail(queue)
       /\ IF it.k = "ev"
            THEN /\ streamLast' = it.seq
                 /\ yielded' = Append(yielded, [ev |-> it.ev, seq |-> it.seq])
                 /\ cons' = cons
            ELSE /\ cons' = IF it.k = "done" THEN "done" ELSE "failed"
                 /\ UNCHANGED <<streamLast, yielded>>
  /\ UNCHANGED <<log, hidden, armed, faults, hbs, conn, wire, pos, eof, rd, lastSeq, curId, seen, attempts,
                 cursor, reqs, consec, maxConsec>>

ClientStep == Connect \/ ReadLine \/ Consume
EnvStep == (\E k \in 1..MaxArm : Arm(k)) \/ Start \/ AppendEv \/ Heartbeat \/ (\E p \in 1..5 : Deliver(p))
           \/ Drop \/ Close
Next == ClientStep \/ EnvStep

Spec == Init /\ [][Next]_vars
FairSpec == Spec /\ WF_vars(ClientStep) /\ WF_vars(Start) /\ WF_vars(AppendEv) /\ WF_vars(Close)
                 /\ WF_vars(\E p \in 1..5 : Deliver(p))

----------------------------------------------------------------------------
(* C17 *)
FramesFromAll == FramesFrom(1, N)
Wanted == SelectSeq(FramesFromAll, LAMBDA e : e > cursor)

\* every later event exactly once and in sequence order: what was yielded is a prefix of the wanted list
Inv_Prefix == /\ Len(yielded) <= Len(Wanted)
              /\ \A i \in 1..Len(yielded) : yielded[i].ev = Wanted[i]
\* last_sequence equals the sequence of the last event yielded (the initial cursor before any)
Inv_LastSeq == /\ \A i \in 1..Len(yielded) : yielded[i].seq = yielded[i].ev
               /\ streamLast = IF yielded = <<>> THEN cursor ELSE yielded[Len(yielded)].ev
\* a stream that ends normally has delivered every later event
Inv_Complete == cons = "done" => Len(yielded) = Len(Wanted)
\* the stream fails only when more than max_reconnect_attempts consecutive attempts failed
Inv_FailBeyondLimit == cons = "failed" => maxConsec > MaxAttempts
\* implementation facts
Inv_Reconnect == /\ reqs # <<>> => reqs[1].after = cursor
                 /\ \A i \in 1..Len(reqs) : reqs[i].after = cursor \/ Visible(reqs[i].after)
Live_Ends == <>(cons \in {"done", "failed"})

TypeOK ==
  /\ log \in 0..N /\ pos \in 0..5 /\ seen \in 0..5 /\ seen <= pos
  /\ conn \in {"none", "open"} /\ rd \in {"init", "connect", "stream", "done", "failed"}
  /\ cons \in {"init", "running", "done", "failed"}
  /\ (conn = "open") <=> (rd = "stream")
=============================================================================
