---- MODULE TraceSseClient ----
(* Trace validation: are executions recorded from the real WorkflowClient (driven through the gated      *)
(* transport of harness/drivers/sse_client.py) behaviours of SseClient.tla?  One event = one environment  *)
(* action issued at a quiescence point of the event loop, followed by the projected observable state at   *)
(* the next quiescence point; the client steps the loop ran in between are inferred by TLC.               *)
EXTENDS SseClient, Json, IOUtils

T == JsonDeserialize(IOEnv.TRACE_FILE)

TraceN == T.n
TraceHiddenSets == SUBSET (1..T.n)
TracePreloads == 0..T.n
TraceMaxAttempts == T.max_attempts

VARIABLES tid, l, applied, ny, nr
tvars == <<vars, tid, l, applied, ny, nr>>

Tr == T.traces[tid]
Ev == Tr.steps[l]
HiddenOf(t) == {t.hidden[i] : i \in 1..Len(t.hidden)}

TraceInit ==
  /\ tid \in 1..Len(T.traces)
  /\ Init
  /\ log = Tr.preload /\ hidden = HiddenOf(Tr) /\ cursor = Tr.cursor
  /\ l = 1 /\ applied = FALSE /\ ny = 0 /\ nr = 0

ApplyCmd ==
  /\ l <= Len(Tr.steps) /\ ~applied
  /\ LET c == Ev.cmd IN
       \/ c[1] = "arm" /\ Arm(c[2])
       \/ c[1] = "start" /\ Start
       \/ c[1] = "append" /\ AppendEv
       \/ c[1] = "hb" /\ Heartbeat
       \/ c[1] = "deliver" /\ Deliver(c[2])
       \/ c[1] = "drop" /\ Drop
       \/ c[1] = "close" /\ Close
  /\ applied' = TRUE /\ UNCHANGED <<tid, l, ny, nr>>

Silent ==
  /\ l <= Len(Tr.steps) /\ applied
  /\ ClientStep
  /\ UNCHANGED <<tid, l, applied, ny, nr>>

Matches(post) ==
  /\ ClientQuiet
  /\ log = post.log
  /\ (conn = "open") = post.open
  /\ wire = post.wire /\ pos = post.pos /\ eof = post.eof
  /\ cons = post.cons /\ streamLast = post.last
  /\ Len(yielded) = ny + Len(post.yields)
  /\ \A i \in 1..Len(post.yields) : yielded[ny + i] = post.yields[i]
  /\ Len(reqs) = nr + Len(post.reqs)
  /\ \A i \in 1..Len(post.reqs) : reqs[nr + i] = post.reqs[i]

Match ==
  /\ l <= Len(Tr.steps) /\ applied
  /\ Matches(Ev.post)
  /\ PrintT(<<"P", tid, l>>)
  /\ l' = l + 1 /\ applied' = FALSE /\ ny' = Len(yielded) /\ nr' = Len(reqs)
  /\ UNCHANGED <<vars, tid>>

TraceNext == ApplyCmd \/ Silent \/ Match
====
