CONSTANTS
  N = 4
  HiddenSets <- Hid4
  Preloads <- Pre4
  MaxAttempts = 2
  MaxFaults = 3
  MaxArm = 3
  MaxHb = 1
  EnvWaits = FALSE
SPECIFICATION FairSpec
INVARIANT TypeOK
INVARIANT Inv_Prefix
INVARIANT Inv_LastSeq
INVARIANT Inv_Complete
INVARIANT Inv_FailBeyondLimit
INVARIANT Inv_Reconnect
PROPERTY Live_Ends
