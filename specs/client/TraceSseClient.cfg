CONSTANTS
  N <- TraceN
  HiddenSets <- TraceHiddenSets
  Preloads <- TracePreloads
  MaxAttempts <- TraceMaxAttempts
  MaxFaults = 1000
  MaxArm = 1000
  MaxHb = 1000
  EnvWaits = TRUE
INIT TraceInit
NEXT TraceNext
INVARIANT Inv_Prefix
INVARIANT Inv_LastSeq
INVARIANT Inv_Complete
INVARIANT Inv_FailBeyondLimit
