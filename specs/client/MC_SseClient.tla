---- MODULE MC_SseClient ----
EXTENDS SseClient
Hid3 == {{}, {2}}
Hid4 == {{}, {2}, {1, 3}}
Hid5 == {{}, {2, 3}, {1, 4}}
Pre3 == {0, 1, 3}
Pre4 == {0, 2, 4}
Pre5 == {1, 5}
====
