CONSTANTS
  N = 3
  HiddenSets <- Hid3
  Preloads <- Pre3
  MaxAttempts = 1
  MaxFaults = 2
  MaxArm = 2
  MaxHb = 1
  EnvWaits = TRUE
SPECIFICATION Spec
INVARIANT TypeOK
INVARIANT Inv_Prefix
INVARIANT Inv_LastSeq
INVARIANT Inv_Complete
INVARIANT Inv_FailBeyondLimit
INVARIANT Inv_Reconnect
