---- MODULE MC_DurableReplay ----
EXTENDS DurableReplay
K3 == {"a", "b", "p"}
\* journals of up to 4 completions
Plans3 == { <<{"a", "b", "p"}>>,
            <<{"a", "b"}, {"p"}>>,
            <<{"a", "b"}, {"same"}, {"same"}>>,
            <<{"a"}, {"b", "same"}, {}, {"same"}>> }
K4 == {"a", "b", "c", "p"}
\* journals of up to 6 completions
Plans4 == Plans3 \cup
          { <<{"a", "b", "c", "p"}, {"same"}, {"same"}>>,
            <<{"a", "b"}, {"c", "same"}, {"p"}, {"same"}, {}, {"same"}>>,
            <<{"a", "b", "c"}, {}, {"same", "p"}, {"same"}>> }
\* the instance whose state graph is projected onto schedules in the thorough tier
Plans4g == { <<{"a", "b"}, {"c", "same"}, {"p"}, {"same"}, {}, {"same"}>> }
====
