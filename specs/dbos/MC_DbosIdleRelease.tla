---- MODULE MC_DbosIdleRelease ----
EXTENDS DbosIdleRelease
S2 == {"s1", "s2"}
S3 == {"s1", "s2", "s3"}
====
