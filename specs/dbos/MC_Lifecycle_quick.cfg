CONSTANTS
  Releasers <- R2
  Senders <- S2
  T = 2
  HasTimeout = TRUE
  MaxCrash = 1
  Dev_NoCreate = FALSE
  Dev_CompleteUnconditional = FALSE
SPECIFICATION FairSpec
INVARIANT TypeOK
INVARIANT Inv_OneOwnerPerRelease
INVARIANT Inv_SingleOwner
PROPERTY Act_CompleteFromReleasing
PROPERTY Act_NoClaimWhileActive
PROPERTY Live_NotStuck
