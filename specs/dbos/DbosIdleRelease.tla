--------------------------- MODULE DbosIdleRelease ---------------------------
(* DBOSIdleReleaseDecorator (llama_agents/dbos/idle_release.py) over the run lifecycle lock (Lifecycle.tla; the     *)
(* same atomic operations, without the crash-timeout clock which Lifecycle.tla covers) and the reducer's handling   *)
(* of TickIdleRelease (workflows/runtime/control_loop.py: `return init, [CommandCompleteRun(IdleReleasedEvent())]`). *)
(*                                                                                                                  *)
(*   Announce     WorkflowIdleEvent written -> _schedule_deferred_release (idle timer armed)                         *)
(*   TimerBegin   the timer fires after idle_timeout: lifecycle.begin_release (CAS active -> releasing)             *)
(*   RelSend      _release_idle_handler: TickIdleRelease is put into the run's mailbox                              *)
(*   Recv         the control loop's wait_receive returns the next tick of the mailbox (cancels an armed timer):    *)
(*                an event is handed to its step; TickIdleRelease completes the run                                 *)
(*   StepDone     a step body finishes (the run stops after NEv answers)                                            *)
(*   RelComplete  _await_and_mark_released: the old run has finished -> lifecycle.complete_release                  *)
(*   Mark         ... -> handler.idle_since := now                                                                  *)
(*   Check(s)     sender: lifecycle.try_begin_resume -> None / released (owner) / releasing (sleep, retry)          *)
(*   SendEv(s)    sender after None: inner send_event (the check-then-send window lies between Check and SendEv)    *)
(*   Resume(s)    owner: _do_resume waits for the old run, rebuilds the state from the persisted ticks plus the     *)
(*                pending tick, starts a new run under the same run_id, clears idle_since                           *)
(*                                                                                                                  *)
(* Deviation switches (TRUE = the code as it is):                                                                   *)
(*   Dev_NoCreate        nobody calls RunLifecycleLock.create: there is no row, begin_release never succeeds        *)
(*   Dev_CheckThenSend   the sender's check and its send are two steps                                              *)
(*   Dev_RelUnconditional TickIdleRelease completes the run whatever the run is doing                               *)
(*   Dev_PendingTickNotLogged  _do_resume folds the sender's tick into the rebuilt state without writing it to the  *)
(*                        tick log; the log then holds a step result without its event and cannot be replayed again  *)
(******************************************************************************)
EXTENDS Naturals, Sequences, FiniteSets, TLC

CONSTANTS Senders, NEv, Dev_NoCreate, Dev_CheckThenSend, Dev_RelUnconditional, Dev_PendingTickNotLogged

VARIABLES row,        \* "none" | "active" | "releasing" | "released"
          loops,      \* live control loops of the run
          mailbox,    \* ticks sent to the live run and not yet received: sender ids (events) and "rel"
          work,       \* events received and not yet answered (queued or running in a step)
          carry,      \* received-but-unanswered events of a released run (they are in the persisted ticks)
          announced, timer, rel, idleMark, spc,
          answered, stranded, releasedBusy, finished,
          logOK,      \* the persisted tick log can be replayed
          resumeFailed
vars == <<row, loops, mailbox, work, carry, announced, timer, rel, idleMark, spc, answered, stranded, releasedBusy,
          finished, logOK, resumeFailed>>

InitWith(r) ==
        /\ row = r
        /\ loops = 1 /\ mailbox = <<>> /\ work = {} /\ carry = {}
        /\ announced = FALSE /\ timer = "off" /\ rel = "none" /\ idleMark = FALSE
        /\ spc = [s \in Senders |-> "new"]
        /\ answered = {} /\ stranded = {} /\ releasedBusy = FALSE /\ finished = FALSE
        /\ logOK = TRUE /\ resumeFailed = FALSE
Init == InitWith(IF Dev_NoCreate THEN "none" ELSE "active")

EventsIn(q) == {q[i] : i \in 1..Len(q)} \ {"rel"}

Announce ==
  /\ loops = 1 /\ work = {} /\ ~announced /\ ~finished
  /\ announced' = TRUE /\ timer' = "armed"
  /\ UNCHANGED <<row, loops, mailbox, work, carry, rel, idleMark, spc, answered, stranded, releasedBusy, finished, logOK, resumeFailed>>

TimerBegin ==
  /\ timer = "armed" /\ timer' = "off"
  /\ IF row = "active" THEN row' = "releasing" /\ rel' = "begun" ELSE UNCHANGED <<row, rel>>
  /\ UNCHANGED <<loops, mailbox, work, carry, announced, idleMark, spc, answered, stranded, releasedBusy, finished, logOK, resumeFailed>>

RelSend ==
  /\ rel = "begun" /\ rel' = "sent" /\ mailbox' = Append(mailbox, "rel")
  /\ UNCHANGED <<row, loops, work, carry, announced, timer, idleMark, spc, answered, stranded, releasedBusy, finished, logOK, resumeFailed>>

Recv ==
  /\ loops = 1 /\ mailbox # <<>>
  /\ timer' = "off"
  /\ LET h == Head(mailbox) IN
       IF h # "rel" THEN
          /\ work' = work \cup {h} /\ mailbox' = Tail(mailbox) /\ announced' = FALSE
          /\ UNCHANGED <<row, loops, carry, rel, stranded, releasedBusy>>
       ELSE IF Dev_RelUnconditional \/ (work = {} /\ EventsIn(Tail(mailbox)) = {}) THEN
          /\ loops' = 0 /\ carry' = work /\ work' = {} /\ mailbox' = <<>>
          /\ stranded' = stranded \cup EventsIn(Tail(mailbox))
          /\ releasedBusy' = (releasedBusy \/ work # {})
          /\ UNCHANGED <<row, rel, announced>>
       ELSE                                              \* intended design: a busy run declines the release
          /\ mailbox' = Tail(mailbox) /\ row' = "active" /\ rel' = "none"
          /\ UNCHANGED <<loops, work, carry, stranded, releasedBusy, announced>>
  /\ UNCHANGED <<idleMark, spc, answered, finished, logOK, resumeFailed>>

StepDone(e) ==
  /\ loops = 1 /\ e \in work
  /\ work' = work \ {e} /\ answered' = answered \cup {e}
  /\ IF Cardinality(answered \cup {e}) >= NEv
       THEN finished' = TRUE /\ loops' = 0 /\ stranded' = stranded \cup EventsIn(mailbox) /\ mailbox' = <<>>
       ELSE UNCHANGED <<finished, loops, stranded, mailbox>>
  /\ UNCHANGED <<row, carry, announced, timer, rel, idleMark, spc, releasedBusy, logOK, resumeFailed>>

RelComplete ==
  /\ rel = "sent" /\ loops = 0
  /\ rel' = "marking" /\ row' = (IF row = "releasing" THEN "released" ELSE row)
  /\ UNCHANGED <<loops, mailbox, work, carry, announced, timer, idleMark, spc, answered, stranded, releasedBusy, finished, logOK, resumeFailed>>

Mark ==
  /\ rel = "marking" /\ rel' = "none" /\ idleMark' = TRUE
  /\ UNCHANGED <<row, loops, mailbox, work, carry, announced, timer, spc, answered, stranded, releasedBusy, finished, logOK, resumeFailed>>

\* inner send_event of a sender that was told "send normally"
Deliver(s) ==
  IF loops = 1 THEN mailbox' = Append(mailbox, s) /\ spc' = [spc EXCEPT ![s] = "done"]
  ELSE mailbox' = mailbox /\ spc' = [spc EXCEPT ![s] = "failed"]        \* no live run: the failure is reported

Check(s) ==
  /\ spc[s] \in {"new", "wait"} /\ ~finished
  /\ IF row \in {"none", "active"} THEN
        /\ IF Dev_CheckThenSend THEN spc' = [spc EXCEPT ![s] = "window"] /\ mailbox' = mailbox ELSE Deliver(s)
        /\ UNCHANGED row
     ELSE IF row = "released" THEN
        /\ row' = "active" /\ spc' = [spc EXCEPT ![s] = "resuming"] /\ mailbox' = mailbox
     ELSE
        /\ spc' = [spc EXCEPT ![s] = "wait"] /\ UNCHANGED <<row, mailbox>>
  /\ UNCHANGED <<loops, work, carry, announced, timer, rel, idleMark, answered, stranded, releasedBusy, finished, logOK, resumeFailed>>

SendEv(s) ==
  /\ spc[s] = "window" /\ Deliver(s)
  /\ UNCHANGED <<row, loops, work, carry, announced, timer, rel, idleMark, answered, stranded, releasedBusy, finished, logOK, resumeFailed>>

Resume(s) ==
  /\ spc[s] = "resuming" /\ loops = 0 /\ logOK
  /\ logOK' = ~Dev_PendingTickNotLogged /\ UNCHANGED resumeFailed
  /\ loops' = loops + 1 /\ work' = carry \cup {s} /\ carry' = {} /\ mailbox' = <<>>
  /\ idleMark' = FALSE /\ announced' = FALSE /\ timer' = "off"
  /\ spc' = [spc EXCEPT ![s] = "done"]
  /\ UNCHANGED <<row, rel, answered, stranded, releasedBusy, finished>>

\* rebuild_state_from_ticks raises: the owner's send_event fails, the run stays unloaded (row already 'active')
ResumeFail(s) ==
  /\ spc[s] = "resuming" /\ loops = 0 /\ ~logOK
  /\ spc' = [spc EXCEPT ![s] = "failed"] /\ resumeFailed' = TRUE
  /\ UNCHANGED <<row, loops, mailbox, work, carry, announced, timer, rel, idleMark, answered, stranded, releasedBusy,
                 finished, logOK>>

Next == Announce \/ TimerBegin \/ RelSend \/ Recv \/ RelComplete \/ Mark
        \/ (\E s \in Senders : Check(s) \/ SendEv(s) \/ Resume(s) \/ ResumeFail(s) \/ StepDone(s))
Spec == Init /\ [][Next]_vars
Internal == Announce \/ TimerBegin \/ RelSend \/ Recv \/ RelComplete \/ Mark
            \/ (\E s \in Senders : SendEv(s) \/ Resume(s) \/ ResumeFail(s) \/ StepDone(s))
FairSpec == Spec /\ WF_vars(Internal) /\ \A s \in Senders : WF_vars(spc[s] = "wait" /\ Check(s))

----------------------------------------------------------------------------
(* C26 *)
Inv_NoEventLost == stranded = {}                       \* every sent event is processed (or its sender was told it failed)
Inv_ReleasedOnlyIdle == ~releasedBusy                  \* released only with no queued / running work
Inv_OneLoop == loops <= 1
Inv_OneResumer == Cardinality({s \in Senders : spc[s] = "resuming"}) <= 1
Inv_ReleasedHasNoLoop == row = "released" => loops = 0
Live_Delivered == \A s \in Senders : (spc[s] = "done") ~> (s \in answered \/ finished)
(* C36 *)
SendersQuiet == \A s \in Senders : spc[s] \in {"new", "done", "failed"}
\* a run left idle (nobody sends) is eventually released and its handler marked idle
Live_Released == (SendersQuiet /\ ~finished /\ work = {} /\ loops = 1)
                   ~> ((row = "released" /\ idleMark /\ loops = 0) \/ ~SendersQuiet \/ finished)
\* the next send reloads the run and it continues: a sender never hangs
Live_SenderEnds == \A s \in Senders : (spc[s] \in {"window", "resuming", "wait"}) ~> (spc[s] \in {"done", "failed"})
\* the next send reloads the run (the reload itself never fails)
Inv_ResumeSucceeds == ~resumeFailed
Inv_MarkedOnlyReleased == (idleMark /\ rel = "none") => (row \in {"released"} \/ loops = 0 \/ \E s \in Senders : spc[s] = "resuming")
TypeOK == loops \in 0..2 /\ row \in {"none", "active", "releasing", "released"}
=============================================================================
