CONSTANTS
  Keys <- K3
  Plans <- Plans3
  MaxCrash = 2
  MaxTimeouts = 1
  EnvWaits = FALSE
SPECIFICATION FairSpec
INVARIANT TypeOK
INVARIANT Inv_ReplayOrder
INVARIANT Inv_Journal
INVARIANT Inv_NoFallback
INVARIANT Inv_Entries
PROPERTY Live_Ends
