------------------------------ MODULE Lifecycle ------------------------------
(* RunLifecycleLock (llama_agents/dbos/journal/lifecycle.py, SqliteRunLifecycleLock / PostgresRunLifecycleLock): *)
(* one row per run, state active -> releasing -> released -> active, every operation one atomic critical section *)
(* (process-local KeyedLock + one SQL statement / one transaction):                                               *)
(*   create            INSERT OR REPLACE state='active'                                                           *)
(*   begin_release     UPDATE .. SET 'releasing' WHERE state='active'          -> rowcount > 0                     *)
(*   complete_release  UPDATE .. SET 'released'  WHERE state='releasing'                                          *)
(*   try_begin_resume  no row / active -> None; released -> 'active', returns released (caller owns the resume);  *)
(*                     releasing older than crash_timeout -> 'active', returns released (takeover);               *)
(*                     releasing -> returns releasing (caller sleeps and retries)                                 *)
(* Processes: releasers (one firing of the idle timer each; may stall or crash between begin and complete),       *)
(* senders/resumers, and the clock (`age` = time since the row was last written, saturating at T+1).              *)
(*                                                                                                                *)
(* Deviation switches:                                                                                            *)
(*   Dev_NoCreate               TRUE = nobody ever calls create (the code today: no call site exists)             *)
(*   Dev_CompleteUnconditional  TRUE = complete_release without `AND state='releasing'` (a seeded defect shape;   *)
(*                              FALSE = the code today)                                                           *)
(******************************************************************************)
EXTENDS Naturals, FiniteSets, TLC

CONSTANTS Releasers, Senders, T, HasTimeout, MaxCrash, Dev_NoCreate, Dev_CompleteUnconditional

VARIABLES row,      \* "none" | "active" | "releasing" | "released"
          age,      \* 0..T+1: clock ticks since updated_at
          rpc,      \* releaser -> "idle" | "working" | "done" | "crashed"
          spc,      \* sender -> "idle" | "waiting" | "owner" | "sent"
          created, crashes,
          epoch,    \* number of successful begin_release so far
          holder,   \* the releaser whose begin_release opened the current epoch
          owners,   \* epoch -> how many try_begin_resume calls returned 'released' in it
          lastOp    \* [op, who, res] of the last lock operation (what a caller observes)
vars == <<row, age, rpc, spc, created, crashes, epoch, holder, owners, lastOp>>

Op(o, w, r) == [op |-> o, who |-> w, res |-> r]
MaxEpoch == Cardinality(Releasers)

Init == /\ row = "none" /\ age = 0 /\ created = FALSE /\ crashes = 0
        /\ rpc = [r \in Releasers |-> "idle"] /\ spc = [s \in Senders |-> "idle"]
        /\ epoch = 0 /\ holder = "-" /\ owners = [e \in 0..MaxEpoch |-> 0]
        /\ lastOp = Op("init", "-", "-")

Create ==
  /\ ~Dev_NoCreate /\ ~created
  /\ created' = TRUE /\ row' = "active" /\ age' = 0 /\ lastOp' = Op("create", "-", "ok")
  /\ UNCHANGED <<rpc, spc, crashes, epoch, holder, owners>>

\* a releaser exists only for a live run: not while a resumer still owns the (not yet restarted) run
BeginRelease(r) ==
  /\ rpc[r] = "idle" /\ ~(\E s \in Senders : spc[s] = "owner")
  /\ IF row = "active"
       THEN /\ row' = "releasing" /\ age' = 0 /\ rpc' = [rpc EXCEPT ![r] = "working"]
            /\ epoch' = epoch + 1 /\ holder' = r /\ lastOp' = Op("begin_release", r, "true")
       ELSE /\ rpc' = [rpc EXCEPT ![r] = "done"] /\ lastOp' = Op("begin_release", r, "false")
            /\ UNCHANGED <<row, age, epoch, holder>>
  /\ UNCHANGED <<spc, created, crashes, owners>>

CompleteRelease(r) ==
  /\ rpc[r] = "working"
  /\ rpc' = [rpc EXCEPT ![r] = "done"] /\ lastOp' = Op("complete_release", r, "ok")
  /\ IF row = "releasing" \/ (Dev_CompleteUnconditional /\ row # "none")
       THEN row' = "released" /\ age' = 0
       ELSE UNCHANGED <<row, age>>
  /\ UNCHANGED <<spc, created, crashes, epoch, holder, owners>>

CrashReleaser(r) ==
  /\ rpc[r] = "working" /\ crashes < MaxCrash
  /\ rpc' = [rpc EXCEPT ![r] = "crashed"] /\ crashes' = crashes + 1
  /\ UNCHANGED <<row, age, spc, created, epoch, holder, owners, lastOp>>

Expired == HasTimeout /\ age > T
TryResume(s) ==
  /\ spc[s] \in {"idle", "waiting"}
  /\ IF row \in {"none", "active"} THEN
        /\ spc' = [spc EXCEPT ![s] = "sent"] /\ lastOp' = Op("try_begin_resume", s, "none")
        /\ UNCHANGED <<row, age, owners>>
     ELSE IF row = "released" \/ (row = "releasing" /\ Expired) THEN
        /\ row' = "active" /\ age' = 0
        /\ spc' = [spc EXCEPT ![s] = "owner"] /\ owners' = [owners EXCEPT ![epoch] = @ + 1]
        /\ lastOp' = Op("try_begin_resume", s, "released")
     ELSE
        /\ spc' = [spc EXCEPT ![s] = "waiting"] /\ lastOp' = Op("try_begin_resume", s, "releasing")
        /\ UNCHANGED <<row, age, owners>>
  /\ UNCHANGED <<rpc, created, crashes, epoch, holder>>

\* the owner has restarted the run (_do_resume finished)
OwnerDone(s) ==
  /\ spc[s] = "owner" /\ spc' = [spc EXCEPT ![s] = "sent"]
  /\ UNCHANGED <<row, age, rpc, created, crashes, epoch, holder, owners, lastOp>>

\* time passes in every state of the row: a run that has been active (or released) for longer than the crash timeout is the
\* normal case, and begin_release / try_begin_resume stamp updated_at anew (age' = 0 in their actions)
Tick == /\ row \in {"active", "releasing", "released"} /\ age <= T /\ age' = age + 1
        /\ UNCHANGED <<row, rpc, spc, created, crashes, epoch, holder, owners, lastOp>>

Next == Create \/ Tick
        \/ (\E r \in Releasers : BeginRelease(r) \/ CompleteRelease(r) \/ CrashReleaser(r))
        \/ (\E s \in Senders : TryResume(s) \/ OwnerDone(s))
Spec == Init /\ [][Next]_vars
\* senders keep polling, the clock runs; releasers may stall for ever (no fairness on CompleteRelease)
FairSpec == Spec /\ WF_vars(Tick) /\ \A s \in Senders : WF_vars(TryResume(s)) /\ WF_vars(OwnerDone(s))

----------------------------------------------------------------------------
\* at most one resumer takes ownership of each released run
Inv_OneOwnerPerRelease == \A e \in 0..MaxEpoch : owners[e] <= 1
Inv_SingleOwner == Cardinality({s \in Senders : spc[s] = "owner"}) <= 1
\* a release completes only from 'releasing'
Act_CompleteFromReleasing == [][(row' = "released" /\ row # "released") => row = "releasing"]_vars
\* ownership is never handed out for a row that is 'active' (nor absent)
Act_NoClaimWhileActive == [][(\E s \in Senders : spc[s] # "owner" /\ spc'[s] = "owner")
                               => (row = "released" \/ (row = "releasing" /\ Expired))]_vars
\* a sender is never stuck for ever on 'releasing' when a crash timeout is set
Live_NotStuck == \A s \in Senders : (spc[s] = "waiting") ~> (spc[s] # "waiting")
\* (observation, not part of the statement) a stale releaser never completes somebody else's release
Act_OwnCompletion == [][\A r \in Releasers : (rpc[r] = "working" /\ rpc'[r] = "done" /\ row' = "released" /\ row # "released")
                          => holder = r]_vars
TypeOK == row \in {"none", "active", "releasing", "released"} /\ age \in 0..(T + 1)
=============================================================================
