CONSTANTS
  Senders <- TraceSenders
  NEv <- TraceNEv
  Dev_NoCreate = FALSE
  Dev_CheckThenSend = TRUE
  Dev_RelUnconditional = TRUE
  Dev_PendingTickNotLogged = TRUE
INIT TraceInit
NEXT TraceNext
