CONSTANTS
  Releasers <- TraceReleasers
  Senders <- TraceSenders
  T <- TraceT
  HasTimeout = TRUE
  MaxCrash = 1000
  Dev_NoCreate = FALSE
  Dev_CompleteUnconditional = FALSE
INIT TraceInit
NEXT TraceNext
INVARIANT Inv_OneOwnerPerRelease
