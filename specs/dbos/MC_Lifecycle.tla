---- MODULE MC_Lifecycle ----
EXTENDS Lifecycle
R1 == {"r1"}
R2 == {"r1", "r2"}
S1 == {"s1"}
S2 == {"s1", "s2"}
====
