CONSTANTS
  Keys <- TraceKeys
  Plans <- TracePlans
  MaxCrash = 1000
  MaxTimeouts = 1000
  EnvWaits = TRUE
INIT TraceInit
NEXT TraceNext
INVARIANT Inv_ReplayOrder
INVARIANT Inv_Journal
INVARIANT Inv_NoFallback
