---- MODULE TraceLifecycle ----
(* Trace validation: operation histories executed on the real SqliteRunLifecycleLock are behaviours of Lifecycle.tla *)
(* (one recorded step = one action; the returned value and the row read back from SQLite must agree).                *)
EXTENDS Lifecycle, Sequences, Json, IOUtils

T_ == JsonDeserialize(IOEnv.TRACE_FILE)
ToSet(s) == {s[i] : i \in 1..Len(s)}
TraceReleasers == ToSet(T_.releasers)
TraceSenders == ToSet(T_.senders)
TraceT == T_.T

VARIABLES tid, l
Tr == T_.traces[tid]
Ev == Tr[l]

TraceInit == tid \in 1..Len(T_.traces) /\ l = 1 /\ Init

Apply(c) ==
  \/ c[1] = "create" /\ Create
  \/ c[1] = "begin_release" /\ BeginRelease(c[2])
  \/ c[1] = "complete_release" /\ CompleteRelease(c[2])
  \/ c[1] = "crash" /\ CrashReleaser(c[2])
  \/ c[1] = "try_begin_resume" /\ TryResume(c[2])
  \/ c[1] = "owner_done" /\ OwnerDone(c[2])
  \/ c[1] = "tick" /\ Tick

IsLockOp(c) == c[1] \in {"create", "begin_release", "complete_release", "try_begin_resume"}

TraceNext ==
  /\ l <= Len(Tr)
  /\ Apply(Ev.cmd)
  /\ row' = Ev.row
  /\ IsLockOp(Ev.cmd) => lastOp'.res = Ev.res
  /\ PrintT(<<"P", tid, l>>)
  /\ l' = l + 1 /\ UNCHANGED tid
====
