CONSTANTS
  Keys <- K4
  Plans <- Plans4g
  MaxCrash = 2
  MaxTimeouts = 0
  EnvWaits = TRUE
SPECIFICATION Spec
INVARIANT TypeOK
INVARIANT Inv_ReplayOrder
INVARIANT Inv_Journal
INVARIANT Inv_NoFallback
INVARIANT Inv_Entries
