---- MODULE TraceDurableReplay ----
(* Trace validation: are executions recorded from the real InternalDBOSAdapter / TaskJournal /           *)
(* SqliteJournalCrud (driven by harness/drivers/durable_replay.py) behaviours of DurableReplay.tla?      *)
(* One event = one environment action at a quiescence point + the projected state at the next one;      *)
(* the adapter/control-loop steps in between are inferred by TLC.                                        *)
EXTENDS DurableReplay, Json, IOUtils

T == JsonDeserialize(IOEnv.TRACE_FILE)
ToSet(s) == {s[i] : i \in 1..Len(s)}
PlanOf(t) == [i \in 1..Len(t.plan) |-> ToSet(t.plan[i])]
TraceKeys == ToSet(T.keys)
TracePlans == {}          \* unused: the plan of each trace is fixed in TraceInit

VARIABLES tid, l, applied
tvars == <<vars, tid, l, applied>>
Tr == T.traces[tid]
Ev == Tr.steps[l]

TraceInit == /\ tid \in 1..Len(T.traces) /\ plan = PlanOf(Tr) /\ InitRest
             /\ l = 0 /\ applied = TRUE                 \* l = 0: the boot of the first incarnation (no command)

ApplyCmd ==
  /\ l >= 1 /\ l <= Len(Tr.steps) /\ ~applied
  /\ LET c == Ev.cmd IN
       \/ c[1] = "complete" /\ Complete(c[2])
       \/ c[1] = "tick" /\ Tick
       \/ c[1] = "crash" /\ Crash
       \/ c[1] = "restart" /\ Restart
  /\ applied' = TRUE /\ UNCHANGED <<tid, l>>

Silent == /\ l <= Len(Tr.steps) /\ applied /\ LoopStep /\ UNCHANGED <<tid, l, applied>>

Matches(post) ==
  /\ LoopQuiet
  /\ up = post.up /\ phase = post.phase
  /\ live = ToSet(post.live) /\ doneT = ToSet(post.done)
  /\ journal = post.journal /\ returned = post.returned /\ start = post.start
  /\ orphan = post.orphan

Match ==
  /\ l <= Len(Tr.steps) /\ applied
  /\ Matches(IF l = 0 THEN Tr.init ELSE Ev.post)
  /\ PrintT(<<"P", tid, l>>)
  /\ l' = l + 1 /\ applied' = FALSE
  /\ UNCHANGED <<vars, tid>>

TraceNext == ApplyCmd \/ Silent \/ Match
====
