CONSTANTS
  Keys <- K4
  Plans <- Plans4
  MaxCrash = 3
  MaxTimeouts = 1
  EnvWaits = FALSE
SPECIFICATION Spec
INVARIANT TypeOK
INVARIANT Inv_ReplayOrder
INVARIANT Inv_Journal
INVARIANT Inv_NoFallback
INVARIANT Inv_Entries
