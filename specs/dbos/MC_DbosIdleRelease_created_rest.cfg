CONSTANTS
  Senders <- S2
  NEv = 2
  Dev_NoCreate = FALSE
  Dev_CheckThenSend = TRUE
  Dev_RelUnconditional = TRUE
  Dev_PendingTickNotLogged = TRUE
SPECIFICATION FairSpec
INVARIANT TypeOK
INVARIANT Inv_OneLoop
INVARIANT Inv_OneResumer
INVARIANT Inv_ReleasedHasNoLoop
PROPERTY Live_Released
PROPERTY Live_SenderEnds
