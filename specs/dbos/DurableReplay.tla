---------------------------- MODULE DurableReplay ----------------------------
(* The repository's own mechanism for deterministic replay of task completion order under DBOS:        *)
(* InternalDBOSAdapter.wait_for_next_task + TaskJournal + SqliteJournalCrud                              *)
(* (llama_agents/dbos/runtime.py, journal/task_journal.py, journal/crud.py).                             *)
(*                                                                                                      *)
(* A run is played by a control loop that calls wait_for_next_task(running, pending) once per           *)
(* iteration.  `plan` says which task keys become pending at iteration k (k = completions consumed so   *)
(* far); "same" re-uses the key that has just completed (worker ids are re-used by the engine).          *)
(* The journal is durable (SQLite); everything else dies with the process.  After a crash DBOS re-runs   *)
(* the workflow function from the start (axiom): the control loop starts again from iteration 0 with a  *)
(* fresh adapter on the same journal, and the tasks may now complete in any order.                       *)
(*                                                                                                      *)
(* Adapter steps (one per suspension-free section):                                                      *)
(*   Call    journal.load() (first call only), orphan purge at the replay->fresh transition, start the   *)
(*           pending coroutines                                                                          *)
(*   Return  replay mode: the task named by the next journal entry, once it is done (journal.advance);   *)
(*           fresh mode: any done task (set.pop), journal.record = in-memory append + INSERT             *)
(*   TimeOut the wait timed out: None is returned, nothing changes                                       *)
(* Environment: Complete(k), Crash, Restart, Tick (the loop's timeout elapses).                           *)
(**************************************************************************)
EXTENDS Naturals, Sequences, FiniteSets, TLC

CONSTANTS Keys, Plans, MaxCrash, MaxTimeouts, EnvWaits

VARIABLES
  plan,                                   \* the run's program (chosen once)
  journal, orphan,                        \* durable: workflow_journal rows; stale operation_outputs rows present
  up, phase, it, sp, live, doneT, last,   \* process: control loop + asyncio tasks
  loaded, entries, ridx, purged,          \* process: TaskJournal / adapter fields
  start, returned, crashes, timeouts      \* history
vars == <<plan, journal, orphan, up, phase, it, sp, live, doneT, last, loaded, entries, ridx, purged,
          start, returned, crashes, timeouts>>

NoKey == "-"
Resolve(S, lk) == {IF x = "same" THEN lk ELSE x : x \in S}

InitRest ==
  /\ journal = <<>> /\ orphan = FALSE
  /\ up = TRUE /\ phase = "call" /\ it = 0 /\ sp = 0 /\ live = {} /\ doneT = {} /\ last = NoKey
  /\ loaded = FALSE /\ entries = <<>> /\ ridx = 0 /\ purged = FALSE
  /\ start = <<>> /\ returned = <<>> /\ crashes = 0 /\ timeouts = 0
Init == plan \in Plans /\ InitRest

Replaying == ridx < Len(entries)
Expected == entries[ridx + 1]
CanReturn == /\ up /\ phase = "wait"
             /\ IF Replaying /\ Expected \in live THEN Expected \in doneT ELSE doneT # {}
LoopQuiet == ~(up /\ phase = "call") /\ ~CanReturn
EnvOK == EnvWaits => LoopQuiet

----------------------------------------------------------------------------
(* adapter / control loop *)
Call ==
  /\ up /\ phase = "call"
  /\ LET ent == IF loaded THEN entries ELSE journal
         spawn == IF sp = it /\ it < Len(plan) THEN Resolve(plan[it + 1], last) ELSE {}
     IN /\ loaded' = TRUE /\ entries' = ent
        /\ IF ridx >= Len(ent) /\ ~purged
             THEN purged' = TRUE /\ orphan' = (IF ent # <<>> THEN FALSE ELSE orphan)
             ELSE UNCHANGED <<purged, orphan>>
        /\ live' = live \cup spawn
        /\ sp' = IF sp = it /\ it < Len(plan) THEN it + 1 ELSE sp
        /\ phase' = IF live \cup spawn = {} THEN "end" ELSE "wait"
  /\ UNCHANGED <<plan, journal, up, it, doneT, last, ridx, start, returned, crashes, timeouts>>

Return(k) ==
  /\ CanReturn /\ k \in doneT
  /\ IF Replaying /\ Expected \in live
       THEN /\ k = Expected                             \* replay: exactly the recorded task
            /\ UNCHANGED <<journal, entries>>
       ELSE /\ journal' = Append(journal, k)            \* fresh (or fallback): record what completed
            /\ entries' = Append(entries, k)
  /\ ridx' = ridx + 1
  /\ live' = live \ {k} /\ doneT' = doneT \ {k}
  /\ returned' = Append(returned, k) /\ it' = it + 1 /\ last' = k
  /\ phase' = "call"
  /\ UNCHANGED <<plan, orphan, up, sp, loaded, purged, start, crashes, timeouts>>

(* environment *)
Complete(k) ==
  /\ EnvOK /\ up /\ k \in live \ doneT
  /\ doneT' = doneT \cup {k}
  /\ UNCHANGED <<plan, journal, orphan, up, phase, it, sp, live, last, loaded, entries, ridx, purged, start,
                 returned, crashes, timeouts>>

\* the wait's timeout elapses while nothing it waits for is done: the adapter returns None, the loop calls again
Tick ==
  /\ EnvOK /\ up /\ phase = "wait" /\ ~CanReturn /\ timeouts < MaxTimeouts
  /\ timeouts' = timeouts + 1 /\ phase' = "call"
  /\ UNCHANGED <<plan, journal, orphan, up, it, sp, live, doneT, last, loaded, entries, ridx, purged, start,
                 returned, crashes>>

Crash ==
  /\ EnvOK /\ up /\ phase # "end" /\ crashes < MaxCrash
  /\ up' = FALSE /\ crashes' = crashes + 1
  /\ orphan' = TRUE                                   \* a dead incarnation may leave operation_outputs rows behind
  /\ phase' = "call" /\ it' = 0 /\ sp' = 0 /\ live' = {} /\ doneT' = {} /\ last' = NoKey
  /\ loaded' = FALSE /\ entries' = <<>> /\ ridx' = 0 /\ purged' = FALSE
  /\ UNCHANGED <<plan, journal, start, returned, timeouts>>

Restart ==
  /\ ~up
  /\ up' = TRUE /\ start' = journal /\ returned' = <<>>
  /\ UNCHANGED <<plan, journal, orphan, phase, it, sp, live, doneT, last, loaded, entries, ridx, purged, crashes,
                 timeouts>>

LoopStep == Call \/ \E k \in Keys : Return(k)
EnvStep == (\E k \in Keys : Complete(k)) \/ Tick \/ Crash \/ Restart
Next == LoopStep \/ EnvStep
Spec == Init /\ [][Next]_vars
FairSpec == Spec /\ WF_vars(LoopStep) /\ WF_vars(Restart) /\ WF_vars(\E k \in Keys : Complete(k))

----------------------------------------------------------------------------
(* C27 (reduced claim) *)
Min(a, b) == IF a < b THEN a ELSE b
IsPrefix(s, t) == Len(s) <= Len(t) /\ \A i \in 1..Len(s) : s[i] = t[i]

\* the recovered control loop observes the recorded completion order
Inv_ReplayOrder == \A i \in 1..Min(Len(returned), Len(start)) : returned[i] = start[i]
\* the recorded order is never rewritten, and the journal is exactly what the loop has observed
Inv_Journal == /\ IsPrefix(start, journal)
               /\ IF Len(returned) >= Len(start) THEN journal = returned ELSE journal = start
\* implementation facts: replay never has to fall back; the in-memory copy mirrors the table
Inv_NoFallback == (up /\ phase = "wait" /\ Replaying) => Expected \in live
Inv_Entries == (up /\ loaded) => entries = journal
Live_Ends == <>[](phase = "end" /\ up)

TypeOK == /\ doneT \subseteq live /\ live \subseteq Keys
          /\ phase \in {"call", "wait", "end"} /\ ridx <= Len(entries) + 0
=============================================================================
