CONSTANTS
  Senders <- S2
  NEv = 2
  Dev_NoCreate = FALSE
  Dev_CheckThenSend = TRUE
  Dev_RelUnconditional = TRUE
  Dev_PendingTickNotLogged = TRUE
SPECIFICATION FairSpec
INVARIANT TypeOK
INVARIANT Inv_OneLoop
INVARIANT Inv_OneResumer
INVARIANT Inv_ReleasedHasNoLoop
INVARIANT Inv_NoEventLost
