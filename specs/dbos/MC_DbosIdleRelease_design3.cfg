CONSTANTS
  Senders <- S3
  NEv = 3
  Dev_NoCreate = FALSE
  Dev_CheckThenSend = FALSE
  Dev_RelUnconditional = FALSE
  Dev_PendingTickNotLogged = FALSE
SPECIFICATION FairSpec
INVARIANT TypeOK
INVARIANT Inv_OneLoop
INVARIANT Inv_OneResumer
INVARIANT Inv_ReleasedHasNoLoop
INVARIANT Inv_ResumeSucceeds
INVARIANT Inv_NoEventLost
INVARIANT Inv_ReleasedOnlyIdle
PROPERTY Live_Delivered
PROPERTY Live_Released
PROPERTY Live_SenderEnds
