---- MODULE TraceDbosIdleRelease ----
(* Trace validation: event logs recorded from the real DBOSIdleReleaseDecorator stack (harness/drivers/             *)
(* dbos_lifecycle.py, after the run's boot) are behaviours of DbosIdleRelease.tla with the switches of the code as   *)
(* it is (the lifecycle row exists iff the harness created it).  One recorded event = one action; only RelSend       *)
(* (putting TickIdleRelease into the mailbox) is not recorded and is inferred.                                       *)
EXTENDS DbosIdleRelease, Json, IOUtils

T_ == JsonDeserialize(IOEnv.TRACE_FILE)
ToSet(s) == {s[i] : i \in 1..Len(s)}
TraceSenders == ToSet(T_.senders)
TraceNEv == T_.n_events

VARIABLES tid, l
Tr == T_.traces[tid]
Ev == Tr.events[l]

TraceInit == /\ tid \in 1..Len(T_.traces) /\ l = 1
             /\ InitWith(IF Tr.create_row THEN "active" ELSE "none")

Same == UNCHANGED vars

Step(e) ==
  \/ e.a = "idle_announced" /\ Announce
  \/ e.a = "check" /\ Check(e.who)
       /\ spc'[e.who] = (CASE e.res = "none" -> "window" [] e.res = "released" -> "resuming" [] e.res = "releasing" -> "wait")
  \/ e.a = "begin" /\ TimerBegin /\ ((e.res = "true") <=> (row = "active"))
  \/ e.a = "recv" /\ Recv /\ e.tick \in {"rel", "ev"} /\ ((e.tick = "rel") <=> (Head(mailbox) = "rel"))
  \/ e.a = "loop_exit" /\ loops = 0 /\ Same
  \/ e.a = "complete" /\ RelComplete
  \/ e.a = "mark" /\ Mark
  \/ e.a = "loop_start" /\ (\E s \in Senders : Resume(s))
  \/ e.a = "send_done" /\ (IF spc[e.who] = "window" THEN SendEv(e.who) /\ (e.ok <=> spc'[e.who] = "done")
                           ELSE IF spc[e.who] = "resuming" THEN ~e.ok /\ ResumeFail(e.who)
                           ELSE spc[e.who] = "done" /\ e.ok /\ Same)
  \/ e.a = "step" /\ StepDone(e.uid)
  \/ e.a = "probe" /\ Same

TraceNext ==
  \/ /\ l <= Len(Tr.events) /\ Step(Ev) /\ PrintT(<<"P", tid, l>>) /\ l' = l + 1 /\ UNCHANGED tid
  \/ /\ l <= Len(Tr.events) /\ RelSend /\ UNCHANGED <<tid, l>>
====
