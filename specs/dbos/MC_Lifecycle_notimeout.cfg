CONSTANTS
  Releasers <- R1
  Senders <- S1
  T = 2
  HasTimeout = FALSE
  MaxCrash = 1
  Dev_NoCreate = FALSE
  Dev_CompleteUnconditional = FALSE
SPECIFICATION FairSpec
INVARIANT TypeOK
INVARIANT Inv_OneOwnerPerRelease
INVARIANT Inv_SingleOwner
PROPERTY Act_CompleteFromReleasing
PROPERTY Act_NoClaimWhileActive
PROPERTY Live_NotStuck
