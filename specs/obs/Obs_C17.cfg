INIT Init
NEXT Next
