INIT Init
NEXT Next
