INIT Init
NEXT Next
