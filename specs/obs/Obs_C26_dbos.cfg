INIT Init
NEXT Next
