------------------------------ MODULE Obs_C35 ------------------------------
(* C35: step lifecycle telemetry on the stream is balanced and ordered.                        *)
(*  - per (step, worker) RUNNING and NOT_RUNNING alternate, RUNNING first                       *)
(*  - PREPARING is only shown for an event that had to wait for capacity (all the step's        *)
(*    worker slots show RUNNING at that moment)                                                 *)
(*  - every RUNNING is matched by exactly one NOT_RUNNING unless the run ends first: once the   *)
(*    driver has let every body finish (record "drained", run still live) no slot shows RUNNING *)
(*    and, for steps that do not use collect_events re-runs, #RUNNING = #body starts            *)
(*  - an InputRequiredEvent returned by a step is published exactly once                        *)
EXTENDS Integers, Sequences, FiniteSets, TLC, Json, IOUtils

T == JsonDeserialize(IOEnv.TRACE_FILE)
VARIABLES tid, l, st, verdict
\* clauses switched off for this pass (known findings: lets the remaining clauses be judged on the same trace)
Tol == IF "tolerate" \in DOMAIN T THEN {T.tolerate[i] : i \in 1..Len(T.tolerate)} ELSE {}
Tr == T.traces[tid]
Steps == {Tr.cfg.order[i] : i \in 1..Len(Tr.cfg.order)}
Nw(s) == Tr.cfg.steps[s].nw

St0 == [run |-> 0, slots |-> {}, nrun |-> [s \in Steps |-> 0], nstart |-> [s \in Steps |-> 0],
        asks |-> {}, askret |-> {}, bad |-> "ok"]

Apply(s, r) ==
  LET s0 == IF r.run # s.run THEN [St0 EXCEPT !.run = r.run] ELSE s IN
  CASE r.e = "pub" /\ r.p.k = "state" ->
         LET slot == <<r.p.step, r.p.wid>> IN
         IF r.p.state = "RUNNING"
         THEN [s0 EXCEPT !.slots = @ \cup {slot}, !.nrun[r.p.step] = @ + 1,
                         !.bad = IF slot \in s0.slots THEN "running_twice" ELSE @]
         ELSE IF r.p.state = "NOT_RUNNING"
         THEN [s0 EXCEPT !.slots = @ \ {slot}, !.bad = IF slot \notin s0.slots THEN "not_running_without_running" ELSE @]
         ELSE [s0 EXCEPT !.bad = IF Cardinality({x \in s0.slots : x[1] = r.p.step}) < Nw(r.p.step)
                                 THEN "preparing_with_free_capacity" ELSE @]
    [] r.e = "pub" /\ r.p.k = "ev" /\ r.p.ty = "Ask" ->
         [s0 EXCEPT !.asks = @ \cup {r.p.uid},
                    \* only events *returned by a step* are C35's subject (waiter events belong to C10)
                    !.bad = IF r.p.uid \in s0.asks /\ r.p.uid \in s0.askret THEN "input_required_published_twice" ELSE @]
    [] r.e = "step_start" -> [s0 EXCEPT !.nstart[r.step] = @ + 1]
    [] r.e = "step_end" /\ r.how = "ret:Ask" -> [s0 EXCEPT !.askret = @ \cup {r.uid \o ">" \o r.step}]
    [] r.e = "drained" /\ r.live_run /\ r.open = 0 ->
         [s0 EXCEPT !.bad = IF s0.slots # {} THEN "running_never_closed"
                            ELSE IF \E x \in Steps : ~Tr.uses_collect[x] /\ s0.nrun[x] # s0.nstart[x] THEN "running_count_differs_from_invocations"
                            ELSE IF ~(s0.askret \subseteq s0.asks) THEN "input_required_not_published"
                            ELSE @]
    [] OTHER -> s0

Init == tid \in 1..Len(T.traces) /\ l = 1 /\ st = St0 /\ verdict = "ok"
Step == /\ verdict = "ok" /\ l <= Len(Tr.log)
        /\ st' = LET a == Apply(st, Tr.log[l]) IN [a EXCEPT !.bad = IF @ \in Tol THEN "ok" ELSE @]
        /\ verdict' = st'.bad
        /\ l' = l + 1 /\ UNCHANGED tid
Done == /\ (verdict # "ok" \/ l > Len(Tr.log))
        /\ PrintT(<<"VERDICT", tid, verdict, l - 1>>)
        /\ UNCHANGED <<tid, l, st, verdict>>
Next == Step \/ Done
=============================================================================
