---- MODULE Obs_C23 ----
(* Property observer for C23.  Input: what the real Workflow class did on each generated graph    *)
(* (constructor + validate(): accepted / raised, returned flag).  Oracle: the declarative          *)
(* WellFormed / Hitl of Validate.tla -- the statement, nothing stronger.                           *)
(*   accepted  <=> WellFormed(g)          clauses accepted_illformed / rejected_wellformed         *)
(*   accepted  =>  flag = Hitl(g)         clause  hitl_flag                                        *)
(* Conformance (not a verdict): the error family raised = CodeOutcome(g), direct call agrees.      *)
EXTENDS Validate, Json, IOUtils

T == JsonDeserialize(IOEnv.TRACE_FILE)

VARIABLES tid, done
Tr == T.traces[tid]
I == T.inst[Tr.inst]

ToSet(q) == {q[i] : i \in 1..Len(q)}
RegNames == <<"s1", "s2", "s3">>
HNames == <<"h1", "h2">>

StepRec(sh) == [acc |-> ToSet(sh.acc), ret |-> ToSet(sh.ret), role |-> "step", wild |-> FALSE,
                for |-> {}, sskip |-> ToSet(sh.sskip)]
HRec(h) == [acc |-> {"Failed"}, ret |-> ToSet(h.ret), role |-> "catch_error",
            wild |-> (ToSet(h.for) = {"*"}), for |-> (IF ToSet(h.for) = {"*"} THEN {} ELSE ToSet(h.for)),
            sskip |-> {}]

G == LET r == Tr.reg  h == Tr.hs IN
  [ steps |-> TLCEval([nm \in {RegNames[i] : i \in 1..Len(r)} \cup {HNames[i] : i \in 1..Len(h)} |->
                 IF \E i \in 1..Len(r) : RegNames[i] = nm
                 THEN StepRec(I.shapes[r[CHOOSE i \in 1..Len(r) : RegNames[i] = nm]])
                 ELSE HRec(I.hshapes[h[CHOOSE i \in 1..Len(h) : HNames[i] = nm]])]),
    wskip |-> ToSet(I.wskips[Tr.ws]) ]

Accepted == Tr.accepted = 1
Flag == Tr.flag = 1

\* one evaluation of the oracle per trace (LET values are computed once)
Verdict ==
  LET g == G
      wf == WellFormed(g)
      why == WhyNot(g)
      hitl == Hitl(g)
      code == CodeOutcome(g)
      clause == IF Accepted /\ ~wf THEN "accepted_illformed"
                ELSE IF ~Accepted /\ wf THEN "rejected_wellformed"
                ELSE IF Accepted /\ Flag # hitl THEN "hitl_flag"
                ELSE "ok"
      feature == IF Accepted /\ ~wf THEN why
                 ELSE IF ~Accepted /\ wf THEN Tr.family
                 ELSE IF Accepted /\ Flag # hitl
                      THEN (IF Flag THEN "true_without_hitl"
                            ELSE IF KF_HitlSubclassOnly(g) THEN "false_with_subclass_only"
                            ELSE "false_with_exact_class")
                 ELSE "-"
      conf == IF Tr.family # code THEN "family"
              ELSE IF Tr.direct # (IF Names(g) = {} THEN "no_steps" ELSE code) THEN "direct"
              ELSE IF Accepted /\ Flag # CodeHitl(g) THEN "flag"
              ELSE "ok"
      \* conformance of the drawn representation (build.py) with ReprNodeIds / ReprEdgeSet -- graphs with at most one stop class
      rp == Tr.repr
      rnodes == {rp.nodes[i][1] : i \in 1..Len(rp.nodes)}
      redges == {<<rp.edges[i][1], rp.edges[i][2], rp.edges[i][3]>> : i \in 1..Len(rp.edges)}
      kinds == \A i \in 1..Len(rp.nodes) :
                 rp.nodes[i][2] = (IF rp.nodes[i][1] \in Names(g) THEN "step"
                                   ELSE IF rp.nodes[i][1] = "external_step" THEN "external" ELSE "event")
      rconf == IF Cardinality(StopTypes(g)) > 1 THEN "skipped"
               ELSE IF rp.ok # 1 THEN "repr_raised"
               ELSE IF rp.dup_ids # 0 THEN "repr_duplicate_node_ids"
               ELSE IF rnodes # ReprNodeIds(g) THEN "repr_nodes"
               ELSE IF ~kinds THEN "repr_node_kinds"
               ELSE IF redges # ReprEdgeSet(g) THEN "repr_edges"
               ELSE "ok"
  IN <<"VERDICT", tid, clause, 1, feature, conf, why, hitl, rconf>>

Init == tid \in 1..Len(T.traces) /\ done = FALSE
Next == /\ ~done
        /\ PrintT(Verdict)
        /\ done' = TRUE /\ UNCHANGED tid
====
