INIT Init
NEXT Next
