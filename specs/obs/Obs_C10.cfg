INIT Init
NEXT Next
