INIT Init
NEXT Next
