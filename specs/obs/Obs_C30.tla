---- MODULE Obs_C30 ----
(* Property observer for C30 over what a user can see: which harness-owned step bodies are inside  *)
(* (per workflow instance, with the high-water mark the bodies recorded themselves), and which     *)
(* started runs have not begun to execute.  Literal transcription of the statement:                *)
(*   limit         at most N runs of one instance execute steps at any time                        *)
(*   progress      every started run eventually executes: at a quiescence point a started run      *)
(*                 that is not executing (and was not aborted) means its instance is at its limit; *)
(*                 when the schedule has nothing left to do, nobody is still waiting               *)
(*   independence  separate instances have independent limits: a run started while its own         *)
(*                 instance has a free slot executes by the next quiescence point, whatever the    *)
(*                 other instance is doing                                                         *)
EXTENDS Naturals, Sequences, FiniteSets, TLC, Json, IOUtils

T == JsonDeserialize(IOEnv.TRACE_FILE)
Runs == LET TT == T IN {TT.runs[k] : k \in 1..Len(TT.runs)}
Insts == LET TT == T IN {TT.insts[k] : k \in 1..Len(TT.insts)}
InstOf == T.instof
Limit == T.limit

VARIABLES tid, l, verdict
Tr == T.traces[tid]
PrevPc(i) == IF i = 1 THEN [r \in Runs |-> "idle"] ELSE Tr[i-1].post.pc

LimitOK(e) == \A i \in Insts : e.post.max_inside[i] <= Limit[i] /\ Len(e.post.inside[i]) <= Limit[i]

Progress(e) == \A i \in Insts :
   (\E r \in Runs : InstOf[r] = i /\ e.post.pc[r] \in {"started", "waiting"})
      => Len(e.post.inside[i]) >= Limit[i]

Independence(i) ==
  LET e == Tr[i] pre == PrevPc(i) IN
  \A j \in 1..Len(e.cmds) :
     LET c == e.cmds[j]
         busy == Cardinality({q \in Runs : InstOf[q] = InstOf[c[2]] /\ pre[q] \in {"started", "waiting", "exec", "exiting"}})
         mates == Cardinality({j2 \in 1..Len(e.cmds) : j2 # j /\ e.cmds[j2][1] = "start"
                                                      /\ InstOf[e.cmds[j2][2]] = InstOf[c[2]]})
     IN (c[1] = "start" /\ busy + mates < Limit[InstOf[c[2]]]) => e.post.pc[c[2]] \in {"exec", "done"}

\* runs the schedule made fail on purpose (a step raised) end with an error; nobody else does
MadeFail(i) == UNION {{Tr[j].cmds[k][2] : k \in {k \in 1..Len(Tr[j].cmds) : Tr[j].cmds[k][1] = "fail"}} : j \in 1..i}
NoError(i) == \A r \in Runs : Tr[i].post.pc[r] = "error" => r \in MadeFail(i)

Clause(i) == LET e == Tr[i] IN
   IF ~LimitOK(e) THEN "limit"
   ELSE IF ~NoError(i) THEN "run_failed"
   ELSE IF ~Progress(e) THEN "progress"
   ELSE IF ~Independence(i) THEN "independence"
   ELSE "ok"

Init == tid \in 1..Len(T.traces) /\ l = 1 /\ verdict = "ok"
Step == /\ verdict = "ok" /\ l <= Len(Tr)
        /\ verdict' = Clause(l)
        /\ l' = l + 1 /\ UNCHANGED tid
Done == /\ (verdict # "ok" \/ l > Len(Tr))
        /\ PrintT(<<"VERDICT", tid, verdict, l - 1>>)
        /\ UNCHANGED <<tid, l, verdict>>
Next == Step \/ Done
====
