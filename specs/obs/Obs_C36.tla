------------------------------ MODULE Obs_C36 ------------------------------
(* C36 (in-process server): a run that has been idle for longer than idle_timeout is released from   *)
(* memory, its handler is marked idle, and the next event sent to it transparently reloads the run,  *)
(* which then continues from where it stopped.                                                        *)
(* Observed per history: how long the run was left idle, whether it was released (no live control     *)
(* loop) and when, the handler row's idle flag before the next event, and whether the run completed   *)
(* with the result of the uninterrupted workflow after the event was sent.                            *)
EXTENDS Integers, Sequences, FiniteSets, TLC, Json, IOUtils
T == JsonDeserialize(IOEnv.TRACE_FILE)
VARIABLES tid, l, verdict
Tol == IF "tolerate" \in DOMAIN T THEN {T.tolerate[i] : i \in 1..Len(T.tolerate)} ELSE {}
Tr == T.traces[tid]
Pick(cands) ==
  LET idx == {i \in 1..Len(cands) : cands[i][2] /\ cands[i][1] \notin Tol}
  IN IF idx = {} THEN "ok" ELSE cands[CHOOSE i \in idx : \A j \in idx : i <= j][1]
IdleGap(r) == r.label \in {"wait_gap", "two_cycles", "two_senders"}
Clause(r) == Pick(<<
  <<"not_released_after_idle_timeout", IdleGap(r) /\ r.gap_ms > r.idle_timeout_ms /\ ~r.released>>,
  <<"released_before_idle_timeout", IdleGap(r) /\ r.released /\ r.released_at - r.idle_at_ms < r.idle_timeout_ms>>,
  <<"released_handler_not_marked_idle", IdleGap(r) /\ r.released /\ ~r.idle_row_before_send>>,
  <<"reloaded_run_did_not_continue", IdleGap(r) /\ (r.status # "completed" \/ r.result # r.expect_result)>>,
  <<"still_marked_idle_after_completion_of_reload", IdleGap(r) /\ r.status = "running" /\ r.idle_row /\ r.live_loops > 0>> >>)
Init == tid \in 1..Len(T.traces) /\ l = 1 /\ verdict = "ok"
Step == /\ verdict = "ok" /\ l <= Len(Tr.log) /\ verdict' = Clause(Tr.log[l]) /\ l' = l + 1 /\ UNCHANGED tid
Done == /\ (verdict # "ok" \/ l > Len(Tr.log)) /\ PrintT(<<"VERDICT", tid, verdict, l - 1>>) /\ UNCHANGED <<tid, l, verdict>>
Next == Step \/ Done
=============================================================================
