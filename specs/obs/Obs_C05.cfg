INIT Init
NEXT Next
