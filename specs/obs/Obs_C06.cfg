INIT Init
NEXT Next
