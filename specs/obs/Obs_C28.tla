---- MODULE Obs_C28 ----
(* Property observer for C28 over what an operator can see of a database file: the normalised  *)
(* schema objects in sqlite_master, the rows of schema_migrations for package "server", PRAGMA  *)
(* user_version, and whether a call of run_migrations returned or raised.                       *)
(* Literal transcription of the statement:                                                     *)
(*   converge       running the migrations on a database at any earlier schema version yields   *)
(*                  the same final schema (the one a fresh database gets: trace 1 by convention)*)
(*   recorded_once  ... records every version once                                              *)
(*   noop           ... and running them again changes nothing                                  *)
(* Start states built from the tree's migration files have origin "tree"; those built from the   *)
(* migration texts as released (what databases in the field contain) have origin                 *)
(* "released_prefix" / "released_legacy" -- the clauses are the same, the origin only names the  *)
(* cause in the finding key.                                                                      *)
(* A trace is: the projected start state `pre`, then events {op: "run" | "crash", res, changes, *)
(* post}.  A "crash" event (the process was killed inside run_migrations) carries no obligation *)
(* by itself; the runs after it do.                                                             *)
EXTENDS Naturals, Sequences, FiniteSets, TLC, Json, IOUtils

T == JsonDeserialize(IOEnv.TRACE_FILE)

VARIABLES tid, l, verdict, cause
Tr == T.traces[tid]
Ev(i) == Tr.events[i]
Pre(i) == IF i = 1 THEN Tr.pre ELSE Ev(i - 1).post

\* the final schema of the fresh database (first run of trace 1, which starts from an empty file)
Ref == T.traces[1].events[1].post.schema

Range(s) == {s[i] : i \in 1..Len(s)}
Migrated(p) == p.schema = Ref /\ p.rows = T.versions
Same(a, b) == /\ a.schema = b.schema /\ a.rows = b.rows /\ a.rowmeta = b.rowmeta
              /\ a.uv = b.uv /\ a.cookie = b.cookie

\* "running them again": the previous event was a completed run, or the database already was migrated
Again(i) == (i > 1 /\ Ev(i - 1).op = "run") \/ Migrated(Pre(i))

Clause(i) == LET e == Ev(i) IN
   IF e.op # "run" THEN "ok"
   ELSE IF e.res # "ok" \/ e.post.schema # Ref THEN "converge"
   ELSE IF e.post.rows # T.versions THEN "recorded_once"
   ELSE IF Again(i) /\ (~Same(Pre(i), e.post) \/ e.changes # 0) THEN "noop"
   ELSE "ok"

\* cause feature for the finding key, read from the state the failing run started from
Cause(i) == LET p == Pre(i) IN
   IF p.has_sm /\ p.uv > 0 /\ \E x \in 1..p.uv : x \notin Range(p.rows)
   THEN "unseeded_legacy_bootstrap"       \* schema_migrations exists but was never seeded from user_version
   ELSE IF Tr.origin # "tree" THEN Tr.origin   \* the database was left behind by the RELEASED migration texts
   ELSE "other"

Init == tid \in 1..Len(T.traces) /\ l = 1 /\ verdict = "ok" /\ cause = "-"
Step == /\ verdict = "ok" /\ l <= Len(Tr.events)
        /\ verdict' = Clause(l)
        /\ cause' = IF Clause(l) = "ok" THEN "-" ELSE Cause(l)
        /\ l' = l + 1 /\ UNCHANGED tid
Done == /\ (verdict # "ok" \/ l > Len(Tr.events))
        /\ PrintT(<<"VERDICT", tid, verdict, l - 1, cause>>)
        /\ UNCHANGED <<tid, l, verdict, cause>>
Next == Step \/ Done
====
