---- MODULE Obs_C21 ----
(* Property observer for C21 over what a user of the store sees: the results / exceptions of the     *)
(* same history of operations on a per-call-connection store (ref) and on a single_connection=True   *)
(* store (alt).  Literal transcription: "serves any sequence of handler, event, tick and state-store  *)
(* operations with the same results as a store opened with per-call connections".                    *)
(*   kind "ops":  per operation: same result string, same detail, no exception on either side         *)
(*   kind "pair": two recordings of a C16 schedule / C24 history (records compared for equality)      *)
(* Cause feature of a failure: the single-connection side raised "closed database" and a state-store   *)
(* operation was issued at or before that point (the shape of the known finding), else "unexplained". *)
EXTENDS Integers, Sequences, FiniteSets, TLC, Json, IOUtils

T == JsonDeserialize(IOEnv.TRACE_FILE)
VARIABLES tid, l, verdict, feat
Tc == T.traces[tid]
Kind == Tc.kind

IsState(op) == op.k \in {"st_get", "st_get_state", "st_set", "st_set_state", "st_clear", "st_seed"}

SameOp(i) == LET x == Tc.ref[i] y == Tc.alt[i] IN
   /\ x.exc = "-" /\ y.exc = "-" /\ x.r = y.r /\ x.detail = y.detail
Feature(i) == LET y == Tc.alt[i] IN
   IF Tc.ref[i].exc # "-" THEN "percall_store_failed"
   ELSE IF y.exc = "ProgrammingError:closed_db" /\ (\E j \in 1..i : IsState(Tc.alt[j].op))
        THEN "closed_db_after_state_store_op"
   ELSE "unexplained"

N == IF Kind = "ops" THEN Len(Tc.ref) ELSE IF Len(Tc.a) < Len(Tc.b) THEN Len(Tc.a) ELSE Len(Tc.b)
Clause(i) == IF Kind = "ops" THEN (IF SameOp(i) THEN "ok" ELSE "same_results")
             ELSE (IF Tc.a[i] = Tc.b[i] THEN "ok" ELSE "same_results")

Init == tid \in 1..Len(T.traces) /\ l = 1 /\ verdict = "ok" /\ feat = "-"
Step == /\ verdict = "ok" /\ l <= N
        /\ verdict' = Clause(l)
        /\ feat' = IF Clause(l) = "ok" THEN "-" ELSE IF Kind = "ops" THEN Feature(l) ELSE "unexplained"
        /\ l' = l + 1 /\ UNCHANGED tid
LenDiff == /\ Kind = "pair" /\ verdict = "ok" /\ l = N + 1 /\ Len(Tc.a) # Len(Tc.b)
           /\ verdict' = "same_results" /\ feat' = "unexplained" /\ l' = l + 1 /\ UNCHANGED tid
Finished == IF verdict # "ok" THEN TRUE
            ELSE IF l <= N THEN FALSE
            ELSE IF Kind = "ops" THEN TRUE ELSE Len(Tc.a) = Len(Tc.b)
Done == /\ Finished
        /\ PrintT(<<"VERDICT", tid, verdict, l - 1, feat>>)
        /\ UNCHANGED <<tid, l, verdict, feat>>
Next == Step \/ LenDiff \/ Done
====
