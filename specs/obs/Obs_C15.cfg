INIT Init
NEXT Next
