------------------------------ MODULE Obs_C13 ------------------------------
(* C13: with tick persistence (WorkflowServer on a persistent store), if the process stops after    *)
(* any persisted tick, resuming the run from the store completes a deterministic workflow with the  *)
(* same result as an uninterrupted run; no event accepted by the run (including outputs of steps    *)
(* whose completion was persisted) is lost; a run whose persisted ticks already end it is finalized *)
(* with the matching status instead of re-run.                                                      *)
(* Observed per crash point k (process stopped right after the k-th append_tick, new server object  *)
(* on the same SQLite file, resumed, driven to the end): handler status/result and state-store      *)
(* keys of the resumed run against the uninterrupted reference, whether any step body ran after the *)
(* restart, and whether the persisted prefix already contained the run's terminal tick.             *)
EXTENDS Integers, Sequences, FiniteSets, TLC, Json, IOUtils

T == JsonDeserialize(IOEnv.TRACE_FILE)
VARIABLES tid, l, verdict
Tol == IF "tolerate" \in DOMAIN T THEN {T.tolerate[i] : i \in 1..Len(T.tolerate)} ELSE {}
Tr == T.traces[tid]

Pick(cands) ==
  LET idx == {i \in 1..Len(cands) : cands[i][2] /\ cands[i][1] \notin Tol}
  IN IF idx = {} THEN "ok" ELSE cands[CHOOSE i \in idx : \A j \in idx : i <= j][1]

Clause(r) == Pick(<<
  \* what was persisted for THIS run is a history the reducer cannot replay at all (context_from_ticks raised): every
  \* persisted point is one the server must be able to come back from
  <<"persisted_history_not_replayable", r.res.rebuild_error>>,
  <<"finished_run_was_rerun", r.prefix_ends_run /\ r.reran>>,
  <<"finished_run_not_finalized", r.prefix_ends_run /\ (r.res.status # r.ref.status \/ r.res.result # r.ref.result)>>,
  \* the restarted server could not rebuild the run (or the rebuilt run breaks) and marks it failed although the
  \* uninterrupted run does not fail -- a different way of not finishing with the same result than losing work
  <<"resumed_run_fails", ~r.prefix_ends_run /\ r.res.status = "failed" /\ r.ref.status # "failed">>,
  <<"resumed_run_never_finishes", ~r.prefix_ends_run /\ r.ref.status # "running" /\ r.res.status = "running">>,
  <<"resumed_result_differs", ~r.prefix_ends_run /\ r.res.status # "running"
                               /\ (r.res.status # r.ref.status \/ r.res.result # r.ref.result)>>,
  <<"resumed_state_store_differs", ~r.prefix_ends_run /\ r.res.status # "running" /\ r.res.store # r.ref.store>> >>)

Init == tid \in 1..Len(T.traces) /\ l = 1 /\ verdict = "ok"
Step == /\ verdict = "ok" /\ l <= Len(Tr.log)
        /\ verdict' = Clause(Tr.log[l])
        /\ l' = l + 1 /\ UNCHANGED tid
Done == /\ (verdict # "ok" \/ l > Len(Tr.log))
        /\ PrintT(<<"VERDICT", tid, verdict, l - 1>>)
        /\ UNCHANGED <<tid, l, verdict>>
Next == Step \/ Done
=============================================================================
