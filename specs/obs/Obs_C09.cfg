INIT Init
NEXT Next
