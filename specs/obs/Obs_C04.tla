------------------------------ MODULE Obs_C04 ------------------------------
(* C04: every run that finishes has exactly one outcome; its published stream then ends with  *)
(* exactly one terminal event of the matching kind, nothing published after it, and a consumer *)
(* of stream_events() terminates when the run does.                                            *)
(* Observed: events handed to the publish queue (pub), events a stream_events() consumer got   *)
(* (stream / stream_end), the awaited outcome, and the driver's quiescence marks.              *)
EXTENDS Integers, Sequences, FiniteSets, TLC, Json, IOUtils

T == JsonDeserialize(IOEnv.TRACE_FILE)
VARIABLES tid, l, st, verdict
\* clauses switched off for this pass (known findings: lets the remaining clauses be judged on the same trace)
Tol == IF "tolerate" \in DOMAIN T THEN {T.tolerate[i] : i \in 1..Len(T.tolerate)} ELSE {}
Tr == T.traces[tid]

Terminal(p) == p.k \in {"stop", "failed", "cancelled", "timedout"}
Matches(o, k) == \/ (o = "result" /\ k = "stop") \/ (o = "failed" /\ k = "failed")
                 \/ (o = "cancelled" /\ k = "cancelled") \/ (o = "timedout" /\ k = "timedout")

St0 == [run |-> 0, nterm |-> 0, last |-> "none", pubs |-> <<>>, seen |-> <<>>, out |-> "none", ended |-> FALSE, bad |-> "ok"]

Apply(s, r) ==
  LET s0 == IF r.run # s.run THEN [St0 EXCEPT !.run = r.run] ELSE s IN
  CASE r.e = "pub" ->
         [s0 EXCEPT !.nterm = IF Terminal(r.p) THEN @ + 1 ELSE @,
                    !.last = r.p.k, !.pubs = Append(@, r.p),
                    !.bad = IF s0.nterm >= 1 THEN (IF Terminal(r.p) THEN "two_terminals" ELSE "pub_after_terminal") ELSE @]
    [] r.e = "stream" -> [s0 EXCEPT !.seen = Append(@, r.p)]
    [] r.e = "stream_end" ->
         [s0 EXCEPT !.ended = TRUE,
                    !.bad = IF s0.seen # s0.pubs THEN "consumer_saw_other_stream"
                            ELSE IF s0.seen = <<>> \/ ~Terminal(s0.seen[Len(s0.seen)]) THEN "consumer_ended_without_terminal"
                            ELSE @]
    [] r.e = "outcome" ->
         [s0 EXCEPT !.out = r.kind,
                    !.bad = IF r.kind \notin {"result", "failed", "cancelled", "timedout"} THEN "unknown_outcome"
                            ELSE IF s0.nterm = 0 THEN "no_terminal_event"
                            ELSE IF ~Matches(r.kind, s0.last) THEN "outcome_mismatch"
                            ELSE @]
    [] r.e = "quiet" ->
         [s0 EXCEPT !.bad = IF s0.out # "none" /\ ~s0.ended THEN "consumer_not_terminated"
                            \* a consumer that started reading while the run was live has terminated too (with the end of the
                            \* stream or with the "already consumed" error) once the run has ended
                            ELSE IF s0.out # "none" /\ r.consumers2_done < r.consumers2 THEN "second_consumer_not_terminated"
                            ELSE IF s0.nterm >= 1 /\ s0.out = "none" /\ r.done = FALSE THEN "terminal_but_run_not_ended"
                            ELSE @]
    [] OTHER -> s0

Init == tid \in 1..Len(T.traces) /\ l = 1 /\ st = St0 /\ verdict = "ok"
Step == /\ verdict = "ok" /\ l <= Len(Tr.log)
        /\ st' = LET a == Apply(st, Tr.log[l]) IN [a EXCEPT !.bad = IF @ \in Tol THEN "ok" ELSE @]
        /\ verdict' = st'.bad
        /\ l' = l + 1 /\ UNCHANGED tid
Done == /\ (verdict # "ok" \/ l > Len(Tr.log))
        /\ PrintT(<<"VERDICT", tid, verdict, l - 1>>)
        /\ UNCHANGED <<tid, l, st, verdict>>
Next == Step \/ Done
=============================================================================
