------------------------------ MODULE Obs_C05 ------------------------------
(* C05: a failing step with stop_after_attempt(n) is executed exactly max(n,1) times, a           *)
(* non-retryable error once, and stop_after_delay(d) keeps retrying while less than d seconds      *)
(* have really elapsed since the first attempt.  retry_info() reports retry numbers 0,1,2,...      *)
(* with the previous attempt's exception, and the attempts / elapsed_seconds reported in           *)
(* StepFailedEvent and WorkflowFailedEvent equal the real attempt count and elapsed time.          *)
(* Observed: executions of the harness-owned body of the failing step (virtual time stamps,        *)
(* retry_info() values read inside the body), the failure events' fields, the outcome.             *)
(* Tr.pol == [step, n (-1 = none), d_ms (-1 = none), retryable, always]                           *)
EXTENDS Integers, Sequences, FiniteSets, TLC, Json, IOUtils

T == JsonDeserialize(IOEnv.TRACE_FILE)
VARIABLES tid, l, st, verdict
\* clauses switched off for this pass (known findings: lets the remaining clauses be judged on the same trace)
Tol == IF "tolerate" \in DOMAIN T THEN {T.tolerate[i] : i \in 1..Len(T.tolerate)} ELSE {}
Tr == T.traces[tid]
P == Tr.pol
Max(a, b) == IF a > b THEN a ELSE b

(* per input event of the failing step: executions so far, first start, last failure time, last exception *)
St0 == [n |-> <<>>, t0 |-> <<>>, tfail |-> <<>>, lastexc |-> <<>>, bad |-> "ok"]
Get(f, k, d) == IF k \in DOMAIN f THEN f[k] ELSE d
Put(f, k, v) == [x \in (DOMAIN f) \cup {k} |-> IF x = k THEN v ELSE f[x]]

(* first candidate <<name, violated?>> that is violated and not switched off *)
Pick(cands, dflt) ==
  LET idx == {i \in 1..Len(cands) : cands[i][2] /\ cands[i][1] \notin Tol}
  IN IF idx = {} THEN dflt ELSE cands[CHOOSE i \in idx : \A j \in idx : i <= j][1]

Apply(s, r) ==
  CASE r.e = "step_start" /\ r.step = P.step ->
         LET u == r.uid
             n == Get(s.n, u, 0)
             first == n = 0
             t0 == IF first THEN r.t ELSE s.t0[u]
             tf == Get(s.tfail, u, -1)
         IN [s EXCEPT !.n = Put(@, u, n + 1), !.t0 = Put(@, u, t0),
                      !.bad = Pick(<< <<"retry_numbers_not_consecutive", r.retry # n>>,
                                      <<"retry_info_last_exception_wrong", (~first /\ r.ri_last_exc # Get(s.lastexc, u, "none")) \/ (first /\ r.ri_last_exc # "none")>>,
                                      <<"retry_info_elapsed_wrong", r.ri_elapsed_ms # r.t - t0>>,
                                      <<"non_retryable_error_retried", ~first /\ ~P.retryable>>,
                                      <<"more_attempts_than_budget", ~first /\ P.n # -1 /\ n >= Max(P.n, 1)>>,
                                      <<"retried_after_delay_elapsed", ~first /\ P.d_ms # -1 /\ tf - t0 >= P.d_ms>> >>, @)]
    [] r.e = "step_end" /\ r.step = P.step /\ r.failed ->
         [s EXCEPT !.tfail = Put(@, r.uid, r.t), !.lastexc = Put(@, r.uid, r.exc)]
    [] r.e = "pub" /\ r.p.k = "failed" /\ r.p.step = P.step ->
         (* the failing input is the one whose failure is the most recent *)
         LET cand == {u \in DOMAIN s.tfail : \A v \in DOMAIN s.tfail : s.tfail[v] <= s.tfail[u]}
             u == CHOOSE x \in cand : TRUE
         IN IF cand = {} THEN s ELSE
            [s EXCEPT !.bad = Pick(<< <<"reported_attempts_wrong", Cardinality(cand) = 1 /\ r.p.attempts # s.n[u]>>,
                                      <<"reported_elapsed_wrong", Cardinality(cand) = 1 /\ r.p.elapsed_ms # s.tfail[u] - s.t0[u]>>,
                                      <<"fewer_attempts_than_budget", Cardinality(cand) = 1 /\ P.always /\ P.retryable /\ P.n # -1 /\ P.d_ms = -1 /\ s.n[u] # Max(P.n, 1)>>,
                                      <<"stopped_before_delay_elapsed", Cardinality(cand) = 1 /\ P.always /\ P.retryable /\ P.n = -1 /\ P.d_ms # -1 /\ s.tfail[u] - s.t0[u] < P.d_ms>> >>, @)]
    [] r.e = "step_start" /\ r.ty = "Failed" /\ r.sf.step = P.step ->       \* the handler received the StepFailedEvent
         LET u == r.sf_input IN
         IF u \notin DOMAIN s.n THEN s ELSE
         [s EXCEPT !.bad = Pick(<< <<"reported_attempts_wrong", r.sf.attempts # s.n[u]>>,
                                   <<"reported_elapsed_wrong", r.sf.elapsed_ms # s.tfail[u] - s.t0[u]>>,
                                   <<"fewer_attempts_than_budget", P.always /\ P.retryable /\ P.n # -1 /\ P.d_ms = -1 /\ s.n[u] # Max(P.n, 1)>> >>, @)]
    [] OTHER -> s

Init == tid \in 1..Len(T.traces) /\ l = 1 /\ st = St0 /\ verdict = "ok"
Step == /\ verdict = "ok" /\ l <= Len(Tr.log)
        /\ st' = LET a == Apply(st, Tr.log[l]) IN [a EXCEPT !.bad = IF @ \in Tol THEN "ok" ELSE @]
        /\ verdict' = st'.bad
        /\ l' = l + 1 /\ UNCHANGED tid
Done == /\ (verdict # "ok" \/ l > Len(Tr.log))
        /\ PrintT(<<"VERDICT", tid, verdict, l - 1>>)
        /\ UNCHANGED <<tid, l, st, verdict>>
Next == Step \/ Done
=============================================================================
