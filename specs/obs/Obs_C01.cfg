INIT Init
NEXT Next
