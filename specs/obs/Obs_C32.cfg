CONSTANTS
  MaxLen = 0
  ModeLen = 0
  Families = {}
  Dev_SuffixOnSanitizedLength = FALSE
INIT ObsInit
NEXT ObsNext
