CONSTANTS
  MaxLen = 0
  ModeLen = 0
  Families = {}
  Dev_SuffixOnSanitizedLength = TRUE
INIT ObsInit
NEXT ObsNext
