------------------------------ MODULE Obs_C09 ------------------------------
(* C09: ctx.collect_events returns a list only when one event of every expected type (with       *)
(* multiplicity) has been received into the buffer, ordered as the expected list, and each        *)
(* received event appears in at most one returned list; events arriving while other invocations   *)
(* of the collecting step run are neither lost nor counted twice.                                 *)
(* Observed: the values collect_events returned inside the harness-owned step bodies, the body    *)
(* starts (which event was handed to the collecting step), and the driver's "drained" mark.       *)
(* A list returned again by a *retry of the same invocation* (same input event) is the same list. *)
EXTENDS Integers, Sequences, FiniteSets, TLC, Json, IOUtils

T == JsonDeserialize(IOEnv.TRACE_FILE)
VARIABLES tid, l, st, verdict
\* clauses switched off for this pass (known findings: lets the remaining clauses be judged on the same trace)
Tol == IF "tolerate" \in DOMAIN T THEN {T.tolerate[i] : i \in 1..Len(T.tolerate)} ELSE {}
Tr == T.traces[tid]
Steps == {Tr.cfg.order[i] : i \in 1..Len(Tr.cfg.order)}
Set(sq) == {sq[i] : i \in 1..Len(sq)}
CountT(t, tys) == Cardinality({i \in 1..Len(tys) : tys[i] = t})

St0 == [run |-> 0, recv |-> [s \in Steps |-> {}],     \* events handed to s: <<uid, ty>>
        used |-> {},                                  \* <<step, buf, uid, owner>>
        lists |-> {},                                 \* <<step, buf, owner>>
        failed |-> {},                                \* <<step, owner>>: the invocation failed after it got its set (a retry
                                                      \* competes for the buffer again; only a suspended invocation must see it again)
        nstart |-> 0, nlist |-> 0, ncall |-> 0,                    \* (Tr.equal) executions of the collecting step / lists handed out
        bad |-> "ok"]
\* Tr.equal: the scenario fills a repeated-type expected list with EQUAL-VALUED events (one uid): events cannot be told apart
\* by identity, so the clauses count -- every list is as expected, and n arrivals at a one-worker step yield n \div k lists
Equal == "equal" \in DOMAIN Tr /\ Tr.equal

Floor(a, b) == a \div b
Expectable(s0, s) ==      \* how many full sets the events handed to s allow
  LET exp == Tr.collect[s]
      tys == Set(exp)
      have(t) == Cardinality({x \in s0.recv[s] : x[2] = t})
      per(t) == Floor(have(t), CountT(t, exp))
  IN CHOOSE m \in {per(t) : t \in tys} : \A t \in tys : m <= per(t)

Apply(s, r) ==
  LET s0 == IF r.run # s.run THEN [St0 EXCEPT !.run = r.run] ELSE s IN
  CASE r.e = "step_start" -> [s0 EXCEPT !.recv[r.step] = @ \cup {<<r.uid, r.ty>>},
                                         !.nstart = IF r.step \in DOMAIN Tr.collect THEN @ + 1 ELSE @]
    [] Equal /\ r.e = "collect_ret" /\ r.got = "list" ->
         [s0 EXCEPT !.nlist = @ + 1, !.ncall = @ + 1, !.bad = IF r.tys # r.expected THEN "list_not_as_expected" ELSE @]
    [] Equal /\ r.e = "drained" /\ r.live_run /\ r.open = 0 ->
         \* (ncall: calls of collect_events = events handed to it; an invocation that failed before the call and was retried
         \*  hands its event over once)
         [s0 EXCEPT !.bad = IF \E x \in DOMAIN Tr.collect : s0.nlist < Floor(s0.ncall, Len(Tr.collect[x]))
                            THEN "full_set_never_returned" ELSE @]
    [] Equal /\ r.e = "collect_ret" -> [s0 EXCEPT !.ncall = @ + 1]
    [] r.e = "collect_ret" /\ r.got = "list" ->
         LET us == Set(r.uids)
             clash == \E x \in s0.used : x[1] = r.step /\ x[2] = r.buf /\ x[3] \in us /\ x[4] # r.uid
         IN [s0 EXCEPT !.used = @ \cup {<<r.step, r.buf, u, r.uid>> : u \in us},
                       !.lists = @ \cup {<<r.step, r.buf, r.uid>>},
                       !.bad = IF r.tys # r.expected THEN "list_not_as_expected"
                               ELSE IF Len(r.uids) # Cardinality(us) THEN "event_twice_in_one_list"
                               ELSE IF ~(us \subseteq {x[1] : x \in s0.recv[r.step]}) THEN "event_never_received"
                               ELSE IF clash THEN "event_in_two_lists"
                               ELSE @]
    [] r.e = "collect_ret" /\ r.got = "none" ->
         \* the same invocation (same input event) already got its full set: a re-execution must get it again
         [s0 EXCEPT !.bad = IF <<r.step, r.buf, r.uid>> \in s0.lists /\ <<r.step, r.uid>> \notin s0.failed
                            THEN "full_set_lost_on_reexecution" ELSE @]
    [] r.e = "step_end" /\ r.failed -> [s0 EXCEPT !.failed = @ \cup {<<r.step, r.uid>>}]
    [] r.e = "drained" /\ r.live_run /\ r.open = 0 ->
         \* (a) a complete set sits in the buffer and nobody was given it;
         \* (b) when every expected type arrived exactly as often as ONE set needs it, nothing can be surplus (an event whose
         \*     type's slots are already filled is ignored by collect_events -- that is its sequential meaning, with one
         \*     worker too), so that one set must have been returned
         [s0 EXCEPT !.bad = IF \E i \in 1..Len(r.left) : r.left[i][1] \in DOMAIN Tr.collect /\
                                  \A t \in Set(Tr.collect[r.left[i][1]]) : CountT(t, r.left[i][3]) >= CountT(t, Tr.collect[r.left[i][1]])
                            THEN "full_set_left_in_buffer"
                            ELSE IF \E x \in DOMAIN Tr.collect :
                                  /\ \A t \in Set(Tr.collect[x]) : Cardinality({y \in s0.recv[x] : y[2] = t}) = CountT(t, Tr.collect[x])
                                  /\ Cardinality({y \in s0.lists : y[1] = x}) < 1
                            THEN "full_set_never_returned" ELSE @]
    [] OTHER -> s0

Init == tid \in 1..Len(T.traces) /\ l = 1 /\ st = St0 /\ verdict = "ok"
Step == /\ verdict = "ok" /\ l <= Len(Tr.log)
        /\ st' = LET a == Apply(st, Tr.log[l]) IN [a EXCEPT !.bad = IF @ \in Tol THEN "ok" ELSE @]
        /\ verdict' = st'.bad
        /\ l' = l + 1 /\ UNCHANGED tid
Done == /\ (verdict # "ok" \/ l > Len(Tr.log))
        /\ PrintT(<<"VERDICT", tid, verdict, l - 1>>)
        /\ UNCHANGED <<tid, l, st, verdict>>
Next == Step \/ Done
=============================================================================
