INIT Init
NEXT Next
