INIT Init
NEXT Next
