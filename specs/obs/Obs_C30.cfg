INIT Init
NEXT Next
