INIT Init
NEXT Next
