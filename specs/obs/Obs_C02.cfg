INIT Init
NEXT Next
