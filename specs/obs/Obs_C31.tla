------------------------------ MODULE Obs_C31 ------------------------------
(* C31: a run still unfinished when its timeout elapses fails with WorkflowTimeoutError after       *)
(* publishing WorkflowTimedOutEvent naming the steps that were active; a run that finishes first    *)
(* is never timed out.  cancel_run ends a live run with WorkflowCancelledByUser after               *)
(* WorkflowCancelledEvent, runs no further steps, and leaves a context that can be serialized and   *)
(* resumed.                                                                                          *)
(* Observed: published events (with the number of running harness-owned bodies per step at that     *)
(* instant and the telemetry slots), body starts, outcomes, the driver's virtual clock, and for     *)
(* cancelled runs the outcome of ctx.to_dict -> JSON -> Context.from_dict -> run.                   *)
EXTENDS Integers, Sequences, FiniteSets, TLC, Json, IOUtils

T == JsonDeserialize(IOEnv.TRACE_FILE)
VARIABLES tid, l, st, verdict
\* clauses switched off for this pass (known findings: lets the remaining clauses be judged on the same trace)
Tol == IF "tolerate" \in DOMAIN T THEN {T.tolerate[i] : i \in 1..Len(T.tolerate)} ELSE {}
Tr == T.traces[tid]
C == Tr.cfg
Steps == {C.order[i] : i \in 1..Len(C.order)}
Set(sq) == {sq[i] : i \in 1..Len(sq)}

St0 == [run |-> 0, slots |-> {}, ended |-> "none", cancelled |-> FALSE, timedout |-> FALSE, stopped_at |-> -1, bad |-> "ok"]

Apply(s, r) ==
  LET s0 == IF r.run # s.run THEN [St0 EXCEPT !.run = r.run] ELSE s IN
  CASE r.e = "pub" /\ r.p.k = "state" /\ r.p.state = "RUNNING" -> [s0 EXCEPT !.slots = @ \cup {<<r.p.step, r.p.wid>>}]
    [] r.e = "pub" /\ r.p.k = "state" /\ r.p.state = "NOT_RUNNING" -> [s0 EXCEPT !.slots = @ \ {<<r.p.step, r.p.wid>>}]
    [] r.e = "pub" /\ r.p.k = "timedout" ->
         LET named == Set(r.p.active)
             live == {x \in Steps : r.live[x] > 0}
             slotted == {x[1] : x \in s0.slots}
         IN [s0 EXCEPT !.timedout = TRUE,
                       !.bad = IF C.timeout_ms = -1 THEN "timed_out_without_timeout"
                               ELSE IF r.t < C.timeout_ms THEN "timed_out_early"
                               \* the step producing the run's StopEvent had returned before the deadline
                               ELSE IF s0.run = 1 /\ s0.stopped_at # -1 /\ s0.stopped_at < C.timeout_ms THEN "finished_run_timed_out"
                               ELSE IF ~(live \subseteq named) THEN "active_step_not_named"
                               ELSE IF ~(named \subseteq (live \cup slotted)) THEN "inactive_step_named"
                               ELSE @]
    [] r.e = "pub" /\ r.p.k = "cancelled" -> [s0 EXCEPT !.cancelled = TRUE]
    [] r.e = "step_end" /\ r.how = "stop" /\ s0.stopped_at = -1 -> [s0 EXCEPT !.stopped_at = r.t]
    [] r.e = "step_start" ->
         [s0 EXCEPT !.bad = IF s0.cancelled THEN "step_started_after_cancellation"
                            ELSE IF s0.timedout THEN "step_started_after_timeout"
                            \* the run resumed from a cancelled context goes on where it stopped: it is not given a new
                            \* start event (the harness starts every first run with the start event "s0")
                            ELSE IF s0.run >= 2 /\ r.ty = "Start" /\ r.uid # "s0" THEN "resumed_run_started_over"
                            ELSE @]
    [] r.e = "outcome" ->
         [s0 EXCEPT !.ended = r.kind,
                    !.bad = IF r.kind = "timedout" /\ ~s0.timedout THEN "timeout_error_without_event"
                            ELSE IF r.kind = "cancelled" /\ ~s0.cancelled THEN "cancelled_without_event"
                            ELSE IF r.kind = "result" /\ (s0.timedout \/ s0.cancelled) THEN "finished_run_timed_out_or_cancelled"
                            ELSE IF s0.timedout /\ r.kind # "timedout" THEN "timed_out_event_but_other_outcome"
                            ELSE IF s0.cancelled /\ r.kind # "cancelled" THEN "cancelled_event_but_other_outcome"
                            ELSE @]
    [] r.e = "quiet" /\ C.timeout_ms # -1 /\ r.t > C.timeout_ms /\ ~r.done /\ s0.run = 1 ->
         [s0 EXCEPT !.bad = "unfinished_run_not_timed_out"]
    [] r.e = "snapshot" -> [s0 EXCEPT !.bad = IF ~r.ok THEN "cancelled_context_not_serializable"
                                               \* what run(ctx=...) looks at to decide between going on and starting afresh
                                               ELSE IF s0.cancelled /\ ~r.is_running THEN "cancelled_context_not_marked_running"
                                               ELSE @]
    [] r.e = "resumed" -> [s0 EXCEPT !.bad = IF ~r.ok THEN "cancelled_context_not_resumable" ELSE @]
    [] r.e = "resume_timeout_probe" ->
         [s0 EXCEPT !.bad = IF ~r.timed_out THEN "resumed_unfinished_run_not_timed_out" ELSE @]
    [] r.e = "resume_end" ->
         [s0 EXCEPT !.bad = IF Tr.expect_result /\ r.outcome # "result" THEN "resumed_run_did_not_finish" ELSE @]
    [] OTHER -> s0

Init == tid \in 1..Len(T.traces) /\ l = 1 /\ st = St0 /\ verdict = "ok"
Step == /\ verdict = "ok" /\ l <= Len(Tr.log)
        /\ st' = LET a == Apply(st, Tr.log[l]) IN [a EXCEPT !.bad = IF @ \in Tol THEN "ok" ELSE @]
        /\ verdict' = st'.bad
        /\ l' = l + 1 /\ UNCHANGED tid
Done == /\ (verdict # "ok" \/ l > Len(Tr.log))
        /\ PrintT(<<"VERDICT", tid, verdict, l - 1>>)
        /\ UNCHANGED <<tid, l, st, verdict>>
Next == Step \/ Done
=============================================================================
