---- MODULE Obs_C34 ----
(* Property observer for C34 over the values returned by the real release-tooling functions for one input  *)
(* vector <<old, new>> (concrete numbers chosen by the harness for the abstract grid point):                *)
(*   pep_in   the PEP 440 spelling of `new` that was passed in (any PEP 440-equivalent spelling)            *)
(*   sem_out  = pep440_to_semver(pep_in)      pep_back = semver_to_pep440(sem_out)                          *)
(*   sem_in   the semver spelling of `new`    pep_out = semver_to_pep440(sem_in)                            *)
(*   sem_back = pep440_to_semver(pep_out)                                                                   *)
(*   cls      = detect_change_type(new, old) for each pair of spellings tried                               *)
(* Clauses transcribe the statement: both round trips give the normalized original; the classification is   *)
(* 'none' exactly when new is not greater; otherwise, when some release component grew, it names the most   *)
(* significant one.  When new is greater only in its pre-release part the statement names no component,     *)
(* so nothing beyond "not 'none'" is demanded there.                                                        *)
(* The 5th verdict field reports conformance to the implementation-shaped definitions (evidence only).      *)
EXTENDS Versions, Json, IOUtils

T == JsonDeserialize(IOEnv.TRACE_FILE)
VARIABLES tid, fin
Tr == T.traces[tid]

RoundTripPep == Tr.pep_back = Normalize(new)
RoundTripSem == Tr.sem_back = Semver(new)
NoneIff == \A i \in 1..Len(Tr.cls) : (Tr.cls[i] = "none") <=> ~Greater(new, old)
MostSig == Classify(new, old) \in {"major", "minor", "patch"}
             => \A i \in 1..Len(Tr.cls) : Tr.cls[i] = Classify(new, old)

\* the same version spelled with four release components, and with its trailing zero components dropped
RoundTripOtherLengths == \A i \in 1..Len(Tr.rt_other) : Tr.rt_other[i] = 1
Clause == IF ~RoundTripPep THEN "pep440_roundtrip"
          ELSE IF ~RoundTripOtherLengths THEN "pep440_roundtrip_other_release_length"
          ELSE IF ~RoundTripSem THEN "semver_roundtrip"
          ELSE IF ~NoneIff THEN "none_iff_not_greater"
          ELSE IF ~MostSig THEN "most_significant_component"
          ELSE "ok"

Conf == IF Tr.sem_in # Semver(new) \/ Tr.pep_norm # Pep440(new) THEN "harness:rendering"
        ELSE IF Tr.sem_out # Semver(new) \/ Tr.pep_out # Pep440(new) THEN "drift:conversion"
        ELSE IF \E i \in 1..Len(Tr.cls) : Tr.cls[i] # ImplClassify(new, old) THEN "drift:classify"
        ELSE "conf"

ObsInit == tid \in 1..Len(T.traces) /\ fin = FALSE /\ old = Tr.old /\ new = Tr.new /\ stage = 1
ObsNext == /\ ~fin /\ fin' = TRUE /\ UNCHANGED <<tid, old, new, stage>>
           /\ PrintT(<<"VERDICT", tid, Clause, 0, Conf>>)
====
