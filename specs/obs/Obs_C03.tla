------------------------------ MODULE Obs_C03 ------------------------------
(* C03: (a) while a run is live, whenever a step has waiting events it is running at its full     *)
(* worker limit; (b) a run announces itself idle (WorkflowIdleEvent, or UnhandledEvent idle=true)  *)
(* only when nothing can happen without new external input: no step work queued, running, or       *)
(* waiting for a scheduled retry, and no event already delivered still waiting to be processed.    *)
(* Observed: (a) at every quiescence point of the event loop, the number of running harness-owned  *)
(* bodies per step against num_workers, for steps that have queued events; (b) operationally:      *)
(* after an idle announcement and with no external input since, no step body may start because of  *)
(* a retry that was waiting out its delay or an event that had already been delivered.  (A body    *)
(* started by a wait_for_event timeout is not counted: an idle human-in-the-loop wait is the       *)
(* intended idle state and the statement names retries.)                                           *)
EXTENDS Integers, Sequences, FiniteSets, TLC, Json, IOUtils

T == JsonDeserialize(IOEnv.TRACE_FILE)
VARIABLES tid, l, st, verdict
\* clauses switched off for this pass (known findings: lets the remaining clauses be judged on the same trace)
Tol == IF "tolerate" \in DOMAIN T THEN {T.tolerate[i] : i \in 1..Len(T.tolerate)} ELSE {}
Tr == T.traces[tid]
Steps == {Tr.cfg.order[i] : i \in 1..Len(Tr.cfg.order)}
Nw(s) == Tr.cfg.steps[s].nw

St0 == [run |-> 0, idle |-> FALSE, last |-> "none", lastatt |-> -1, bad |-> "ok"]
IsIdlePub(p) == p.k = "idle" \/ (p.k = "unhandled" /\ p.idle)

Apply(s, r) ==
  LET s0 == IF r.run # s.run THEN [St0 EXCEPT !.run = r.run] ELSE s IN
  CASE r.e = "pub" /\ IsIdlePub(r.p) ->
         [s0 EXCEPT !.idle = TRUE,
                    !.bad = IF \E x \in Steps : r.live[x] > 0 THEN "idle_while_step_running" ELSE @]
    [] r.e = "cmd" /\ r.cmd[1] \in {"send", "cancel", "start"} -> [s0 EXCEPT !.idle = FALSE]
    [] r.e = "tick" -> [s0 EXCEPT !.last = r.tick.k, !.lastatt = IF r.tick.k = "add" THEN r.tick.att ELSE -1]
    [] r.e = "step_start" ->
         [s0 EXCEPT !.idle = FALSE,       \* work resumed: only a new announcement makes the run "idle" again
                    !.bad = IF s0.idle /\ s0.last = "add" /\ s0.lastatt >= 1 THEN "idle_announced_before_scheduled_retry"
                            ELSE IF s0.idle /\ s0.last = "add" THEN "idle_announced_before_delivered_event"
                            ELSE IF s0.idle /\ s0.last = "result" THEN "idle_announced_while_work_running"
                            ELSE @]
    [] r.e = "quiet" /\ ~r.done ->
         [s0 EXCEPT !.bad = IF \E x \in Steps : r.queued[x] > 0 /\ r.live[x] < Nw(x) THEN "queued_work_with_free_capacity" ELSE @]
    [] OTHER -> s0

Init == tid \in 1..Len(T.traces) /\ l = 1 /\ st = St0 /\ verdict = "ok"
Step == /\ verdict = "ok" /\ l <= Len(Tr.log)
        /\ st' = LET a == Apply(st, Tr.log[l]) IN [a EXCEPT !.bad = IF @ \in Tol THEN "ok" ELSE @]
        /\ verdict' = st'.bad
        /\ l' = l + 1 /\ UNCHANGED tid
Done == /\ (verdict # "ok" \/ l > Len(Tr.log))
        /\ PrintT(<<"VERDICT", tid, verdict, l - 1>>)
        /\ UNCHANGED <<tid, l, st, verdict>>
Next == Step \/ Done
=============================================================================
