------------------------------ MODULE Obs_C02 ------------------------------
(* C02: each event a step returns, a step sends, or a caller sends is handed exactly once to       *)
(* every step whose accepted type is exactly the event's type (or only to the addressed step when  *)
(* a target is given), unless the run ends first; a step waiting for that event receives it as its *)
(* wait result instead of as a new input.  An event that no step or waiter accepts is reported     *)
(* once as an UnhandledEvent (except InputRequiredEvent); no event is delivered to a step that     *)
(* does not accept it.                                                                              *)
(* Observed: emissions (step returns, ctx.send_event, external sends), first executions of the     *)
(* harness-owned bodies per (step, event), wait results, UnhandledEvent on the stream, and the     *)
(* driver's "drained" mark (every body finished, run still live).  "Exactly once" is judged on     *)
(* steps whose body uses neither collect_events nor wait_for_event (Tr.plain): only there is a     *)
(* second first-attempt execution of the same event a second delivery rather than a re-run.        *)
EXTENDS Integers, Sequences, FiniteSets, TLC, Json, IOUtils

T == JsonDeserialize(IOEnv.TRACE_FILE)
VARIABLES tid, l, st, verdict
\* clauses switched off for this pass (known findings: lets the remaining clauses be judged on the same trace)
Tol == IF "tolerate" \in DOMAIN T THEN {T.tolerate[i] : i \in 1..Len(T.tolerate)} ELSE {}
Tr == T.traces[tid]
C == Tr.cfg
Steps == {C.order[i] : i \in 1..Len(C.order)}
Set(sq) == {sq[i] : i \in 1..Len(sq)}
Accepts(s) == Set(C.steps[s].accepts)
Acceptors(e) == {s \in Steps : e.ty \in Accepts(s) /\ (e.target = "*" \/ e.target = s)}

\* done: <<step, uid>> whose body finished without failing in this run;  carry: the same from the runs before a
\* serialise/resume (a resumed run re-executes what was in flight, never what had already completed)
\* ecount: uid -> number of emissions (distinct events may be EQUAL-VALUED: same type, same payload -- they are told apart
\* by counting);  scount: <<step, uid>> -> number of deliveries (first-attempt executions);  retry: <<step, uid>> -> failed
\* executions whose retry has not started yet
St0 == [run |-> 0, emitted |-> {}, started |-> {}, mayretry |-> {}, waitgot |-> {}, unh |-> <<>>, bad |-> "ok",
        done |-> {}, carry |-> {}, resumed |-> FALSE, ecount |-> <<>>, scount |-> <<>>, retry |-> <<>>, wtook |-> {}]
UnhGet(u, k) == IF k \in DOMAIN u THEN u[k] ELSE 0
UnhInc(u, k) == [x \in (DOMAIN u) \cup {k} |-> IF x = k THEN UnhGet(u, k) + 1 ELSE u[x]]
UnhDec(u, k) == [x \in DOMAIN u |-> IF x = k THEN u[x] - 1 ELSE u[x]]

(* emitted events nobody takes: no accepting step and not consumed as a wait result *)
\* (wtook: uids that resolved a waiter according to the reducer state -- taken even if the run ends before the step returns)
Orphans(s0, ty, target) == {e \in s0.emitted : e.ty = ty /\ e.target = target /\ Acceptors(e) = {}
                                               /\ ~(\E x \in s0.waitgot : x[2] = e.uid) /\ e.uid \notin s0.wtook /\ e.ty # "Ask"}

Apply(s, r) ==
  LET s0 == IF r.run # s.run THEN [St0 EXCEPT !.run = r.run, !.carry = s.carry \cup s.done, !.resumed = s.run # 0] ELSE s IN
  CASE r.e = "emit" -> [s0 EXCEPT !.emitted = @ \cup {[uid |-> r.uid, ty |-> r.ty, target |-> r.target, ext |-> r.ext]},
                                   !.ecount = UnhInc(@, r.uid)]
    [] r.e = "step_start" ->
         LET es == {e \in s0.emitted : e.uid = r.uid}
             key == <<r.step, r.uid>>
             isRetry == UnhGet(s0.retry, key) > 0
             sc == IF isRetry THEN s0.scount ELSE UnhInc(s0.scount, key) IN
         [s0 EXCEPT !.started = @ \cup {<<r.step, r.uid>>}, !.mayretry = @ \ {<<r.step, r.uid>>},
                    !.scount = sc, !.retry = IF isRetry THEN UnhDec(@, key) ELSE @,
                    !.bad = IF r.ty \notin Accepts(r.step) THEN "delivered_to_non_accepting_step"
                            ELSE IF \E e \in es : e.target # "*" /\ e.target # r.step THEN "delivered_to_other_than_addressed_step"
                            \* a plain step (no collect/wait re-runs) sees an event again only as the retry of its own failure
                            \* (in a resumed run an in-flight producer is re-executed and emits again what an in-flight consumer
                            \*  was also given back: judged only through the carry clause below)
                            ELSE IF ~s0.resumed /\ Tr.plain[r.step] /\ ~isRetry /\ es # {} /\ UnhGet(sc, key) > UnhGet(s0.ecount, r.uid)
                              THEN "delivered_twice"
                            \* ... unless its producer was itself in flight at the snapshot and emitted it again in this run
                            ELSE IF Tr.plain[r.step] /\ <<r.step, r.uid>> \in s0.carry /\ es = {} THEN "delivered_again_after_resume"
                            ELSE @]
    [] r.e = "step_end" /\ r.failed -> [s0 EXCEPT !.mayretry = @ \cup {<<r.step, r.uid>>}, !.retry = UnhInc(@, <<r.step, r.uid>>)]
    [] r.e = "step_end" /\ ~r.failed /\ ~r.cancelled -> [s0 EXCEPT !.done = @ \cup {<<r.step, r.uid>>}]
    [] r.e = "wait_took" -> [s0 EXCEPT !.wtook = @ \cup {r.uid}]
    [] r.e = "wait_ret" -> [s0 EXCEPT !.waitgot = @ \cup {<<r.step, r.got_uid>>},
                                      !.bad = IF <<r.step, r.got_uid>> \in s0.started THEN "wait_result_also_delivered_as_input" ELSE @]
    [] r.e = "pub" /\ r.p.k = "unhandled" ->
         LET key == <<r.p.ty, r.p.target>>
             u1 == UnhInc(s0.unh, key)
         IN [s0 EXCEPT !.unh = u1,
                       !.bad = IF u1[key] > Cardinality(Orphans(s0, r.p.ty, r.p.target)) THEN "unhandled_reported_for_accepted_event_or_twice" ELSE @]
    [] r.e = "drained" /\ r.live_run /\ r.open = 0 ->
         [s0 EXCEPT !.bad =
            IF \E e \in s0.emitted : \E x \in Acceptors(e) :
                    UnhGet(s0.scount, <<x, e.uid>>) + (IF <<x, e.uid>> \in s0.waitgot THEN 1 ELSE 0) < UnhGet(s0.ecount, e.uid)
                    /\ ~(s0.resumed /\ <<x, e.uid>> \in s0.started)
              THEN "event_never_delivered_to_accepting_step"
            ELSE IF \E e \in s0.emitted : Acceptors(e) = {} /\ e.ty # "Ask" /\ ~(\E x \in s0.waitgot : x[2] = e.uid) /\ e.uid \notin s0.wtook
                                          /\ UnhGet(s0.unh, <<e.ty, e.target>>) < Cardinality(Orphans(s0, e.ty, e.target))
              THEN "unhandled_event_not_reported"
            ELSE @]
    \* the run has ended: what a caller sent while it was live was processed at once (the driver sends at quiescence
    \* points), so an orphan among those must have been reported by now
    [] r.e = "drained" /\ ~r.live_run ->
         [s0 EXCEPT !.bad =
            IF \E e \in s0.emitted : e.ext /\ Acceptors(e) = {} /\ e.ty # "Ask" /\ ~(\E x \in s0.waitgot : x[2] = e.uid) /\ e.uid \notin s0.wtook
                                      /\ UnhGet(s0.unh, <<e.ty, e.target>>) < Cardinality({o \in Orphans(s0, e.ty, e.target) : o.ext})
              THEN "unhandled_event_not_reported"
            ELSE @]
    [] OTHER -> s0

Init == tid \in 1..Len(T.traces) /\ l = 1 /\ st = St0 /\ verdict = "ok"
Step == /\ verdict = "ok" /\ l <= Len(Tr.log)
        /\ st' = LET a == Apply(st, Tr.log[l]) IN [a EXCEPT !.bad = IF @ \in Tol THEN "ok" ELSE @]
        /\ verdict' = st'.bad
        /\ l' = l + 1 /\ UNCHANGED tid
Done == /\ (verdict # "ok" \/ l > Len(Tr.log))
        /\ PrintT(<<"VERDICT", tid, verdict, l - 1>>)
        /\ UNCHANGED <<tid, l, st, verdict>>
Next == Step \/ Done
=============================================================================
