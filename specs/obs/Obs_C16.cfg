INIT Init
NEXT Next
