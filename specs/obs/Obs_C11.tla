------------------------------ MODULE Obs_C11 ------------------------------
(* C11: at every point of a run, rebuilding the run state from its initial state and the ticks  *)
(* recorded so far yields the same queues, running work, collected events, waiters and running  *)
(* flag as the live engine holds (timestamps aside).                                            *)
(* Observed at every on_tick: the projection of the live runner state and the projection of     *)
(* the real rebuild_state_from_ticks(init_state, ticks so far).                                 *)
EXTENDS Integers, Sequences, FiniteSets, TLC, Json, IOUtils

T == JsonDeserialize(IOEnv.TRACE_FILE)
VARIABLES tid, l, verdict
Tr == T.traces[tid]

NoTimes(b) == [running |-> b.running,
               steps |-> [s \in DOMAIN b.steps |->
                 [queue |-> [i \in 1..Len(b.steps[s].queue) |-> [b.steps[s].queue[i] EXCEPT !.first = 0]],
                  ip |-> [i \in 1..Len(b.steps[s].ip) |-> [b.steps[s].ip[i] EXCEPT !.first = 0]],
                  coll |-> b.steps[s].coll, waiters |-> b.steps[s].waiters]]]

(* "Hence ctx.to_dict() and running_steps() taken from a live handler describe the actual run": at every quiescence  *)
(* point the harness asks the SAME context object again (records `inspect`): the state read back from to_dict() next to *)
(* the live runner state rendered the same way, and running_steps() next to the steps that have work in progress.       *)
Clause(r) == IF r.e = "inspect"
             THEN IF r.err # "" THEN "inspection_raised"
                  ELSE IF NoTimes(r.said) # NoTimes(r.live) THEN "to_dict_differs_from_the_run"
                  ELSE IF r.steps_said # r.steps_live THEN "running_steps_differs_from_the_run"
                  ELSE "ok"
             ELSE IF "error" \in DOMAIN r.rebuilt THEN "rebuild_raised"
             ELSE IF NoTimes(r.rebuilt) # NoTimes(r.state) THEN "rebuilt_state_differs"
             ELSE "ok"

Init == tid \in 1..Len(T.traces) /\ l = 1 /\ verdict = "ok"
Step == /\ verdict = "ok" /\ l <= Len(Tr.log)
        /\ verdict' = Clause(Tr.log[l])
        /\ l' = l + 1 /\ UNCHANGED tid
Done == /\ (verdict # "ok" \/ l > Len(Tr.log))
        /\ PrintT(<<"VERDICT", tid, verdict, l - 1>>)
        /\ UNCHANGED <<tid, l, verdict>>
Next == Step \/ Done
=============================================================================
