---- MODULE Obs_C24 ----
(* Property observer for C24 over what a user of a workflow store can see: the operations issued, *)
(* what they returned, and the contents of the handler table after each operation (read directly,  *)
(* not through query()).  Literal transcription of the statement:                                   *)
(*   query_exact    query returns exactly the handlers matching every given filter (an empty list   *)
(*                  matches nothing), and changes nothing                                           *)
(*   delete_exact   a delete with at least one filter removes exactly those and returns their count  *)
(*   upsert_exact   an upsert / status update stores exactly that handler (stores without a cap)     *)
(*   non_terminal_kept / retention   the in-memory store keeps all non-terminal handlers and the     *)
(*                  max_completed most recently completed ones ("most recently completed" is read     *)
(*                  either as latest terminal update or as first terminal update of the current       *)
(*                  completed streak: a store that satisfies either reading is accepted)              *)
(*   backends_agree identically for the in-memory and SQLite stores (pairs of recordings)            *)
(* Every step is judged against the *real* contents before it, so judging continues after a failure. *)
EXTENDS Integers, Sequences, FiniteSets, TLC, Json, IOUtils

T == JsonDeserialize(IOEnv.TRACE_FILE)
Terminal == {"completed", "failed", "cancelled"}

VARIABLES tid, l, verdict, vl, comp, comp1
Tc == T.traces[tid]
Kind == Tc.kind

Vals(x) == {x.vals[i] : i \in 1..Len(x.vals)}
ToSet(s) == {s[i] : i \in 1..Len(s)}
NumGiven(q) == Cardinality({f \in {"ids", "runs", "wfs", "sts"} : q[f].given}) + (IF q.idle = "any" THEN 0 ELSE 1)

MatchS(h, q) ==
  /\ q.ids.given => h.id \in Vals(q.ids)
  /\ q.runs.given => h.run \in Vals(q.runs)
  /\ q.wfs.given => h.wf \in Vals(q.wfs)
  /\ q.sts.given => h.st \in Vals(q.sts)
  /\ q.idle # "any" => h.idle = q.idle
Matching(rs, q) == {h \in rs : MatchS(h, q)}
IdsOf(rs) == {h.id : h \in rs}

----------------------------------------------------------------------------
(* histories *)
Ev(i) == Tc.ev[i]
Prev(i) == IF i = 1 THEN {} ELSE ToSet(Tc.ev[i-1].rows)
K == Tc.k

Remove(s, id) == SelectSeq(s, LAMBDA x : x # id)
TopK(X, order) == LET s == SelectSeq(order, LAMBDA x : x \in X)
                      n == IF K < 0 \/ Len(s) <= K THEN Len(s) ELSE K
                  IN {s[j] : j \in (Len(s) - n + 1)..Len(s)}
Retained(exp, order) == LET X == {h.id : h \in {r \in exp : r.st \in Terminal}} IN
                        {r \in exp : r.id \notin (X \ TopK(X, order))}

\* the handler written by event i (or "none"), and the contents expected right after the write
Target(i) == {r \in Prev(i) : r.run = "r_" \o Ev(i).id}
Written(i) == LET e == Ev(i) IN
   IF e.op = "upsert"
     THEN {[id |-> e.id, wf |-> e.wf, st |-> e.st, run |-> IF e.hr = "T" THEN "r_" \o e.id ELSE "none", idle |-> e.idle]}
   ELSE IF e.op = "update"
     THEN {[r EXCEPT !.st = IF e.st = "keep" THEN @ ELSE e.st,
                     !.idle = IF e.io = "keep" THEN @ ELSE IF e.io = "set" THEN "T" ELSE "F"] : r \in Target(i)}
   ELSE {}
Exp(i) == {r \in Prev(i) : r.id \notin IdsOf(Written(i))} \cup Written(i)

NextComp(i, c) == LET w == Written(i) IN
   IF w = {} THEN c ELSE LET h == CHOOSE h \in w : TRUE IN
   IF h.st \in Terminal THEN Append(Remove(c, h.id), h.id) ELSE c
NextComp1(i, c) == LET w == Written(i) IN
   IF w = {} THEN c ELSE LET h == CHOOSE h \in w : TRUE IN
   IF h.st \in Terminal /\ ~(\E r \in Prev(i) : r.id = h.id /\ r.st \in Terminal) THEN Append(Remove(c, h.id), h.id) ELSE c

Clause(i) == LET e == Ev(i) rows == ToSet(e.rows) IN
   IF e.exc # "-" THEN "no_error"
   ELSE IF Cardinality(rows) # Len(e.rows) THEN "duplicate_handler_id"
   ELSE IF e.op = "query" THEN
      (IF ToSet(e.ret_ids) = IdsOf(Matching(Prev(i), e.f)) /\ Len(e.ret_ids) = Cardinality(Matching(Prev(i), e.f))
          /\ rows = Prev(i) THEN "ok" ELSE "query_exact")
   ELSE IF e.op = "delete" THEN
      (IF NumGiven(e.f) = 0 THEN "ok"
       ELSE IF e.ret_n = Cardinality(Matching(Prev(i), e.f)) /\ rows = Prev(i) \ Matching(Prev(i), e.f) THEN "ok"
       ELSE "delete_exact")
   ELSE IF Tc.backend # "memory" \/ K < 0 THEN (IF rows = Exp(i) THEN "ok" ELSE "upsert_exact")
   ELSE IF ~({r \in Exp(i) : r.st \notin Terminal} \subseteq rows) THEN "non_terminal_kept"
   ELSE IF rows = Retained(Exp(i), NextComp(i, comp)) \/ rows = Retained(Exp(i), NextComp1(i, comp1)) THEN "ok"
   ELSE "retention"

(* pairs: the same history on the memory store (no cap) and on the sqlite store *)
ZeroDel(e) == e.op = "delete" /\ NumGiven(e.f) = 0
Cut == LET Z == {i \in 1..Len(Tc.a) : ZeroDel(Tc.a[i])} IN     \* a delete without filters is outside the statement
       IF Z = {} THEN Len(Tc.a) ELSE (CHOOSE i \in Z : \A j \in Z : i <= j) - 1
SameEv(x, y) == /\ x.op = y.op /\ ToSet(x.ret_ids) = ToSet(y.ret_ids) /\ x.ret_n = y.ret_n
                /\ ToSet(x.rows) = ToSet(y.rows) /\ x.exc = y.exc
PairClause == IF Len(Tc.a) # Len(Tc.b) THEN 1
              ELSE LET B == {i \in 1..Cut : ~SameEv(Tc.a[i], Tc.b[i])} IN
                   IF B = {} THEN 0 ELSE CHOOSE i \in B : \A j \in B : i <= j

(* batteries: one table contents, every filter combination *)
\* (Tc.fl[k] = the filter, Tc.resq[k] = what query returned, Tc.deld[k] = what delete returned and left behind)
BRows == ToSet(Tc.rows)
BadQ == {k \in 1..Len(Tc.fl) : ~(/\ ToSet(Tc.resq[k]) = IdsOf(Matching(BRows, Tc.fl[k]))
                                 /\ Len(Tc.resq[k]) = Cardinality(Matching(BRows, Tc.fl[k])))}
BadD == {k \in 1..Len(Tc.deld) : LET d == Tc.deld[k] q == Tc.fl[k] IN
            NumGiven(q) > 0 /\ ~(/\ d.n = Cardinality(Matching(BRows, q))
                                 /\ ToSet(d.left) = IdsOf(BRows) \ IdsOf(Matching(BRows, q)))}
Min(S) == CHOOSE i \in S : \A j \in S : i <= j

----------------------------------------------------------------------------
Init == tid \in 1..Len(T.traces) /\ l = 1 /\ verdict = "ok" /\ vl = 0 /\ comp = <<>> /\ comp1 = <<>>

StepHist == /\ Kind = "history" /\ l <= Len(Tc.ev)
            /\ LET c == Clause(l) IN
               /\ (c # "ok") => PrintT(<<"FAIL", tid, l, c>>)
               /\ verdict' = IF verdict = "ok" THEN c ELSE verdict
               /\ vl' = IF verdict = "ok" /\ c # "ok" THEN l ELSE vl
            /\ comp' = NextComp(l, comp) /\ comp1' = NextComp1(l, comp1)
            /\ l' = l + 1 /\ UNCHANGED tid
StepPair == /\ Kind = "pair" /\ l = 1
            /\ verdict' = IF PairClause = 0 THEN "ok" ELSE "backends_agree"
            /\ vl' = PairClause /\ l' = 2 /\ UNCHANGED <<tid, comp, comp1>>
StepBat == /\ Kind = "battery" /\ l = 1
           /\ verdict' = IF BadQ # {} THEN "query_exact" ELSE IF BadD # {} THEN "delete_exact" ELSE "ok"
           /\ vl' = IF BadQ # {} THEN Min(BadQ) ELSE IF BadD # {} THEN Min(BadD) ELSE 0
           /\ l' = 2 /\ UNCHANGED <<tid, comp, comp1>>
Finished == IF Kind = "history" THEN l > Len(Tc.ev) ELSE l = 2
Done == /\ Finished
        /\ PrintT(<<"VERDICT", tid, verdict, vl>>)
        /\ UNCHANGED <<tid, l, verdict, vl, comp, comp1>>
Next == StepHist \/ StepPair \/ StepBat \/ Done
====
