INIT Init
NEXT Next
