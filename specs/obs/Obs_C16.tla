---- MODULE Obs_C16 ----
(* Property observer for C16 over what a user of a workflow store can see: the stored log as      *)
(* returned by query_events, and what each consumer of subscribe_events(run, after) received.     *)
(* Literal transcription of the statement:                                                         *)
(*   seq        events get consecutive sequence numbers 0,1,2,... in publication order (eid = the  *)
(*              publication index the driver put into the payload); the log only grows             *)
(*   above_cursor / in_order_once   subscribing after k yields exactly the events numbered above   *)
(*              k, in order, once each ...                                                         *)
(*   ends_after_terminal   ... ending right after the first terminal event                          *)
(*   lost_wakeup   "yields": at a quiescence point a blocked consumer has nothing left to receive   *)
(*              (for the polling default: right after poll_interval elapsed)                        *)
(* A consumer that reconnects with the last sequence it saw keeps accumulating into `delivered`,   *)
(* so the same clauses state "sees the uninterrupted stream".                                       *)
EXTENDS Integers, Sequences, FiniteSets, TLC, Json, IOUtils

T == JsonDeserialize(IOEnv.TRACE_FILE)
Subs == {T.subs[i] : i \in 1..Len(T.subs)}

VARIABLES tid, l, verdict, feat
Kind == T.traces[tid].kind            \* "single": one recording {style, ev};  "pair": two recordings {a, b}
Tr == T.traces[tid].ev
Polling == T.traces[tid].style \in {"poll", "handoff"}    \* (handoff: several store objects on one file -- no cross-object notification)

PrevLog(i) == IF i = 1 THEN <<>> ELSE Tr[i-1].post.log
IsPrefix(a, b) == Len(a) <= Len(b) /\ SubSeq(b, 1, Len(a)) = a

Above(log, k) == SelectSeq(log, LAMBDA e : e[1] > k)
UpToTerminal(s) == LET X == {i \in 1..Len(s) : s[i][3] = 1}
                   IN IF X = {} THEN s ELSE SubSeq(s, 1, CHOOSE i \in X : \A j \in X : i <= j)
Want(log, k) == UpToTerminal(Above(log, k))
EndsWithTerminal(s) == s # <<>> /\ s[Len(s)][3] = 1

SeqOK(i) == LET log == Tr[i].post.log IN
  /\ \A j \in 1..Len(log) : log[j][1] = j - 1 /\ log[j][2] = j - 1
  /\ IsPrefix(PrevLog(i), log)

AboveCursor(i) == \A u \in Subs : LET s == Tr[i].post.subs[u] IN
   \A j \in 1..Len(s.delivered) : s.delivered[j][1] > s.after0

InOrderOnce(i) == \A u \in Subs : LET s == Tr[i].post.subs[u] IN
   s.pc # "none" => IsPrefix(s.delivered, Want(Tr[i].post.log, s.after0))

EndsAfterTerminal(i) == \A u \in Subs : LET s == Tr[i].post.subs[u] w == Want(Tr[i].post.log, s.after0) IN
   /\ s.pc = "done" => (s.delivered = w /\ EndsWithTerminal(w))
   /\ EndsWithTerminal(s.delivered) => s.pc \in {"idle", "done"}

\* API layer only: HTTP 204 ("completed, nothing left") closes the stream without data -- allowed only when
\* no stored event is numbered above the cursor at that moment
PrevPc(i, u) == IF i = 1 THEN "none" ELSE Tr[i-1].post.subs[u].pc
ClosedOK(i) == \A u \in Subs : LET s == Tr[i].post.subs[u] IN
   (s.pc = "closed" /\ PrevPc(i, u) # "closed") => (s.delivered = <<>> /\ Above(Tr[i].post.log, s.after0) = <<>>)

TickLast(i) == LET c == Tr[i].cmds IN c[Len(c)].op = "tick"
NoLostWakeup(i) == \A u \in Subs : LET s == Tr[i].post.subs[u] IN
   (s.pc = "waiting" /\ (~Polling \/ TickLast(i))) => s.delivered = Want(Tr[i].post.log, s.after0)

\* cause feature for above_cursor: was the cursor beyond the end of the log when the consumer first pulled?
\* (log length then = previous observation + the appends issued before that pull in the same batch)
FirstPullEvent(u) == CHOOSE i \in 1..Len(Tr) :
     /\ \E j \in 1..Len(Tr[i].cmds) : Tr[i].cmds[j].op = "pull" /\ Tr[i].cmds[j].u = u
     /\ \A i2 \in 1..(i-1) : ~ \E j \in 1..Len(Tr[i2].cmds) : Tr[i2].cmds[j].op = "pull" /\ Tr[i2].cmds[j].u = u
LenAtFirstPull(u) == LET i == FirstPullEvent(u)
                         c == Tr[i].cmds
                         j == CHOOSE j \in 1..Len(c) : c[j].op = "pull" /\ c[j].u = u
                                  /\ \A j2 \in 1..(j-1) : ~(c[j2].op = "pull" /\ c[j2].u = u)
                     IN Len(PrevLog(i)) + Cardinality({j2 \in 1..(j-1) : c[j2].op = "append"})
CursorFeature(i) ==
  LET bad == {u \in Subs : \E j \in 1..Len(Tr[i].post.subs[u].delivered) :
                               Tr[i].post.subs[u].delivered[j][1] <= Tr[i].post.subs[u].after0}
  IN IF \A u \in bad : /\ Tr[i].post.subs[u].after0 >= LenAtFirstPull(u)
                       /\ \A j \in 1..Len(Tr[i].post.subs[u].delivered) :    \* only events published afterwards
                             Tr[i].post.subs[u].delivered[j][1] <= Tr[i].post.subs[u].after0
                                => Tr[i].post.subs[u].delivered[j][2] >= LenAtFirstPull(u)
     THEN "cursor_beyond_end" ELSE "cursor_within_log"

Clause(i) ==
   IF Tr[i].post.errors # 0 THEN "no_error"
   ELSE IF ~SeqOK(i) THEN "seq"
   ELSE IF ~AboveCursor(i) THEN "above_cursor"
   ELSE IF ~InOrderOnce(i) THEN "in_order_once"
   ELSE IF ~EndsAfterTerminal(i) THEN "ends_after_terminal"
   ELSE IF ~NoLostWakeup(i) THEN "lost_wakeup"
   ELSE IF ~ClosedOK(i) THEN "closed_only_when_consumed"
   ELSE "ok"

\* last sentence of the statement: "the in-memory and SQLite stores behave identically" -- two recordings
\* of the same schedule must show the same log, deliveries and consumer states at every quiescence point
Pair == T.traces[tid]
PairN == IF Len(Pair.a) < Len(Pair.b) THEN Len(Pair.a) ELSE Len(Pair.b)
Same(i) == /\ Pair.a[i].cmds = Pair.b[i].cmds
           /\ Pair.a[i].post.log = Pair.b[i].post.log
           /\ Pair.a[i].post.subs = Pair.b[i].post.subs

N == IF Kind = "pair" THEN PairN ELSE Len(Tr)

Init == tid \in 1..Len(T.traces) /\ l = 1 /\ verdict = "ok" /\ feat = "-"
Step == /\ verdict = "ok" /\ l <= N
        /\ verdict' = IF Kind = "pair" THEN (IF Same(l) THEN "ok" ELSE "backends_agree") ELSE Clause(l)
        /\ feat' = IF Kind = "single" /\ Clause(l) = "above_cursor" THEN CursorFeature(l) ELSE "-"
        /\ l' = l + 1 /\ UNCHANGED tid
LenDiff == /\ Kind = "pair" /\ verdict = "ok" /\ l = N + 1 /\ Len(Pair.a) # Len(Pair.b)
           /\ verdict' = "backends_agree" /\ l' = l + 1 /\ UNCHANGED <<tid, feat>>
Finished == IF verdict # "ok" THEN TRUE
            ELSE IF l <= N THEN FALSE
            ELSE IF Kind = "single" THEN TRUE ELSE Len(Pair.a) = Len(Pair.b)
Done == /\ Finished
        /\ PrintT(<<"VERDICT", tid, verdict, l - 1, feat>>)
        /\ UNCHANGED <<tid, l, verdict, feat>>
Next == Step \/ LenDiff \/ Done
====
