---- MODULE Obs_C28_sources ----
(* C28 with several migration sources in one call (run_migrations(conn, sources=[server, dbos]), what the DBOS runtime on  *)
(* SQLite does): from a fresh database, from every recorded server prefix and from every legacy user_version database the  *)
(* final schema is the fresh database's, every (package, version) is recorded exactly once, and a second run changes      *)
(* nothing.  Version numbers are per package.                                                                            *)
EXTENDS Integers, Sequences, FiniteSets, TLC, Json, IOUtils
T == JsonDeserialize(IOEnv.TRACE_FILE)
VARIABLES tid, done
Tr == T.traces[tid]
Set(q) == {q[i] : i \in 1..Len(q)}
Clause == IF Tr.err # "" THEN "migration_raised"
          ELSE IF Set(Tr.final) # Set(Tr.ref) THEN "final_schema_differs_from_fresh"
          ELSE IF Tr.rows # Tr.want_rows THEN "version_not_recorded_exactly_once"
          ELSE IF ~Tr.rerun_same THEN "second_run_changes_the_database"
          ELSE "ok"
Init == tid \in 1..Len(T.traces) /\ done = FALSE
Next == /\ ~done /\ PrintT(<<"VERDICT", tid, Clause, 1>>) /\ done' = TRUE /\ UNCHANGED tid
====
