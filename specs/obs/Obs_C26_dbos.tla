---- MODULE Obs_C26_dbos ----
(* Property observer for the DBOS half of C26.                                                                     *)
(* kind "lock": an operation history on the lifecycle lock: per step the operation, its caller, the returned value, *)
(*   and the row state read from the table before and after.                                                        *)
(* kind "deco": the event log of a run on the decorator stack: lock results, ticks received by the control loop,    *)
(*   loop starts/exits (with the number of events left unreceived and of step bodies still running at exit),        *)
(*   step bodies (uid = the sender whose event they answer), senders' outcomes, and the live-loop high-water mark.  *)
(* Statement: every event sent to a run is eventually processed by it (or the sender is told it failed); a run is    *)
(* released only while it has no queued, running or scheduled work; at most one resumer takes ownership of each     *)
(* released run; never two live control loops.                                                                      *)
EXTENDS Naturals, Sequences, FiniteSets, TLC, Json, IOUtils

T == JsonDeserialize(IOEnv.TRACE_FILE)
VARIABLES tid, fin
Tr == T.traces[tid]

(* ---- lock histories *)
S == Tr.steps
IsClaim(i) == S[i].cmd[1] = "try_begin_resume" /\ S[i].res = "released"
IsBegin(i) == S[i].cmd[1] = "begin_release" /\ S[i].res = "true"
TwoOwners == \E i, j \in 1..Len(S) : i < j /\ IsClaim(i) /\ IsClaim(j) /\ ~(\E k \in (i+1)..(j-1) : IsBegin(k))
ClaimWhileActive == \E i \in 1..Len(S) : IsClaim(i) /\ S[i].pre \in {"active", "none"}
BadCompletion == \E i \in 1..Len(S) : S[i].row = "released" /\ S[i].pre \notin {"releasing", "released"}
\* a release in progress is respected: a claim of a row found 'releasing' needs the crash timeout (2 ticks in these histories)
\* to have elapsed SINCE THAT RELEASE BEGAN -- however long the run had been active before
LastBegin(i) == LET B == {j \in 1..(i-1) : IsBegin(j)} IN IF B = {} THEN 0 ELSE CHOOSE j \in B : \A k \in B : k <= j
TicksBetween(j, i) == Cardinality({k \in (j+1)..(i-1) : S[k].cmd[1] = "tick"})
EarlyTakeover == \E i \in 1..Len(S) : IsClaim(i) /\ S[i].pre = "releasing" /\ LastBegin(i) # 0 /\ TicksBetween(LastBegin(i), i) <= 2
FirstIdx(P(_)) == CHOOSE i \in 1..Len(S) : P(i) /\ \A j \in 1..(i-1) : ~P(j)
LockVerdict ==
  IF BadCompletion THEN <<"release_completed_not_from_releasing", FirstIdx(LAMBDA i : S[i].row = "released" /\ S[i].pre \notin {"releasing", "released"})>>
  ELSE IF ClaimWhileActive THEN <<"resume_claimed_while_active", FirstIdx(LAMBDA i : IsClaim(i) /\ S[i].pre \in {"active", "none"})>>
  ELSE IF TwoOwners THEN <<"two_resumers_one_release", 0>>
  ELSE IF EarlyTakeover THEN <<"live_release_taken_over_before_crash_timeout", 0>>
  ELSE <<"ok", Len(S)>>

(* ---- decorator runs *)
E == Tr.events
Answered(w) == \E i \in 1..Len(E) : E[i].a = "step" /\ E[i].name = "answer" /\ E[i].uid = w
SentOk(w) == \E i \in 1..Len(E) : E[i].a = "send_done" /\ E[i].who = w /\ E[i].ok
Lost == {w \in {E[i].who : i \in {k \in 1..Len(E) : E[k].a = "send_done"}} : SentOk(w) /\ ~Answered(w)}
ReleasedBusy == \E i \in 1..Len(E) : E[i].a = "loop_exit" /\ E[i].result = "IdleReleasedEvent"
                                      /\ (E[i].running_steps > 0 \/ E[i].stranded_events > 0 \/ E[i].unanswered > 0)
DClaim(i) == E[i].a = "check" /\ E[i].res = "released"
DBegin(i) == E[i].a = "begin" /\ E[i].res = "true"
DTwoOwners == \E i, j \in 1..Len(E) : i < j /\ DClaim(i) /\ DClaim(j) /\ ~(\E k \in (i+1)..(j-1) : DBegin(k))
DecoVerdict ==
  IF Tr.max_live > 1 THEN <<"two_live_control_loops", 0>>
  ELSE IF DTwoOwners THEN <<"two_resumers_one_release", 0>>
  ELSE IF Tr.complete /\ Lost # {} THEN <<"sent_event_never_processed", 0>>
  ELSE IF ReleasedBusy THEN <<"released_while_work_pending", 0>>
  ELSE <<"ok", Len(E)>>

Verdict == IF Tr.kind = "lock" THEN LockVerdict ELSE DecoVerdict
Init == tid \in 1..Len(T.traces) /\ fin = FALSE
Next == /\ ~fin /\ fin' = TRUE /\ UNCHANGED tid
        /\ PrintT(<<"VERDICT", tid, Verdict[1], Verdict[2]>>)
====
