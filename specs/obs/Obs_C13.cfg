INIT Init
NEXT Next
