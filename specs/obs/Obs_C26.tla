------------------------------ MODULE Obs_C26 ------------------------------
(* C26 (in-process server): across idle release and on-demand resume every event sent to a run is    *)
(* eventually processed by it, a run is released only while it has no queued, running or scheduled   *)
(* work, at most one resumer takes ownership of a released run, and at no time are two live control  *)
(* loops executing the same run.                                                                      *)
(* Observed per history: which sent events came back as wait results / were handed to an accepting   *)
(* step, what the engine held at the last quiescence point before the release, the number of live    *)
(* control loops of the run after concurrent senders hit a released run, and the final handler row.   *)
EXTENDS Integers, Sequences, FiniteSets, TLC, Json, IOUtils
T == JsonDeserialize(IOEnv.TRACE_FILE)
VARIABLES tid, l, verdict
Tol == IF "tolerate" \in DOMAIN T THEN {T.tolerate[i] : i \in 1..Len(T.tolerate)} ELSE {}
Tr == T.traces[tid]
Set(sq) == {sq[i] : i \in 1..Len(sq)}
Pick(cands) ==
  LET idx == {i \in 1..Len(cands) : cands[i][2] /\ cands[i][1] \notin Tol}
  IN IF idx = {} THEN "ok" ELSE cands[CHOOSE i \in idx : \A j \in idx : i <= j][1]
Clause(r) == Pick(<<
  <<"released_while_work_pending", r.released /\ r.busy_at_release>>,
  <<"two_live_loops_for_one_run", r.max_live_loops > 1 \/ r.live_loops > 1>>,
  <<"sent_event_never_processed",
      \E u \in Set(r.sends_ok) : u \in Set(r.expect_resp) \cup Set(r.expect_inputs)
                                 /\ u \notin Set(r.resp_returned) /\ u \notin Set(r.inputs_processed)>>,
  <<"event_processed_twice", Len(r.resp_returned) # Cardinality(Set(r.resp_returned))>>,
  \* "never lose an event": an accepted event is processed to completion -- the run it resumed goes on to its result
  \* (the waiting step got the event and the run was then torn down = the event's effect is lost)
  <<"accepted_event_not_processed_to_completion",
      "expect_result" \in DOMAIN r /\ r.expect_result # "" /\ Set(r.expect_resp) # {} /\ Set(r.expect_resp) \subseteq Set(r.sends_ok)
      /\ r.result # r.expect_result>>,
  <<"send_failed_silently_and_event_lost",
      \E u \in Set(r.expect_resp) \cup Set(r.expect_inputs) : u \notin Set(r.sends_ok) /\ u \notin Set(r.sends_failed)>> >>)
Init == tid \in 1..Len(T.traces) /\ l = 1 /\ verdict = "ok"
Step == /\ verdict = "ok" /\ l <= Len(Tr.log) /\ verdict' = Clause(Tr.log[l]) /\ l' = l + 1 /\ UNCHANGED tid
Done == /\ (verdict # "ok" \/ l > Len(Tr.log)) /\ PrintT(<<"VERDICT", tid, verdict, l - 1>>) /\ UNCHANGED <<tid, l, verdict>>
Next == Step \/ Done
=============================================================================
