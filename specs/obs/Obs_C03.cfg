INIT Init
NEXT Next
