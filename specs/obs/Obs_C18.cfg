CONSTANTS
  MaxFeatures = 2
  PairPaths <- Paths
  Plan <- PlanAny
  Dev_StopDropsDynamic = FALSE
  Dev_ExcRebuiltFromStr = TRUE
  Dev_CtorFailureRaises = FALSE
INIT ObsInit
NEXT ObsNext
