CONSTANTS
  MaxFeatures = 2
  PairPaths <- Paths
  Plan <- PlanAny
  Dev_StopDropsDynamic = TRUE
  Dev_ExcRebuiltFromStr = TRUE
INIT ObsInit
NEXT ObsNext
