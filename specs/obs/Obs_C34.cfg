CONSTANTS
  MaxC = 0
  MaxN = 0
INIT ObsInit
NEXT ObsNext
