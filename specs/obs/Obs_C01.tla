------------------------------ MODULE Obs_C01 ------------------------------
(* C01: for every step, the number of invocations that have started and not yet finished     *)
(* never exceeds the step's num_workers (retries, collect re-runs and waiter replays          *)
(* included), and every invocation runs on a distinct worker slot in [0, num_workers).        *)
(* Observed: start/end of the harness-owned step bodies, and the RUNNING / NOT_RUNNING        *)
(* StepStateChanged events of the published stream (which carry the worker slot).             *)
EXTENDS Integers, Sequences, FiniteSets, TLC, Json, IOUtils

T == JsonDeserialize(IOEnv.TRACE_FILE)
VARIABLES tid, l, st, verdict
\* clauses switched off for this pass (known findings: lets the remaining clauses be judged on the same trace)
Tol == IF "tolerate" \in DOMAIN T THEN {T.tolerate[i] : i \in 1..Len(T.tolerate)} ELSE {}
Tr == T.traces[tid]
Nw(s) == Tr.cfg.steps[s].nw
Steps == {Tr.cfg.order[i] : i \in 1..Len(Tr.cfg.order)}

St0 == [live |-> [s \in Steps |-> 0], slots |-> {}, bad |-> "ok", run |-> 0]

Apply(s, r) ==
  LET s0 == IF r.run # s.run THEN [St0 EXCEPT !.run = r.run] ELSE s IN     \* a resumed run starts afresh
  CASE r.e = "step_start" ->
         LET n == s0.live[r.step] + 1 IN
         [s0 EXCEPT !.live[r.step] = n, !.bad = IF n > Nw(r.step) THEN "over_limit" ELSE @]
    [] r.e = "step_end" -> [s0 EXCEPT !.live[r.step] = @ - 1]
    [] r.e = "pub" /\ r.p.k = "state" /\ r.p.state = "RUNNING" ->
         LET slot == <<r.p.step, r.p.wid>> IN
         [s0 EXCEPT !.slots = @ \cup {slot},
                    !.bad = IF slot \in s0.slots THEN "slot_reused"
                            ELSE IF r.p.wid \notin {ToString(i) : i \in 0..(Nw(r.p.step) - 1)} THEN "slot_range"
                            ELSE IF Cardinality({x \in s0.slots : x[1] = r.p.step}) + 1 > Nw(r.p.step) THEN "over_limit_slots"
                            ELSE @]
    [] r.e = "pub" /\ r.p.k = "state" /\ r.p.state = "NOT_RUNNING" ->
         [s0 EXCEPT !.slots = @ \ {<<r.p.step, r.p.wid>>}]
    [] OTHER -> s0

Init == tid \in 1..Len(T.traces) /\ l = 1 /\ st = St0 /\ verdict = "ok"
Step == /\ verdict = "ok" /\ l <= Len(Tr.log)
        /\ st' = LET a == Apply(st, Tr.log[l]) IN [a EXCEPT !.bad = IF @ \in Tol THEN "ok" ELSE @]
        /\ verdict' = st'.bad
        /\ l' = l + 1 /\ UNCHANGED tid
Done == /\ (verdict # "ok" \/ l > Len(Tr.log))
        /\ PrintT(<<"VERDICT", tid, verdict, l - 1>>)
        /\ UNCHANGED <<tid, l, st, verdict>>
Next == Step \/ Done
=============================================================================
