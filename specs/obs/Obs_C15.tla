------------------------------ MODULE Obs_C15 ------------------------------
(* C15: for a workflow run through WorkflowServer, once the run ends the stored handler has status  *)
(* completed (with the result), failed (with an error), or cancelled, matching how the run ended; a  *)
(* stored terminal status is never changed back to running; a handler never stays running after its  *)
(* run has ended.                                                                                     *)
(* Observed per case: the handler row after the run's task ended and every back-off sleep elapsed,   *)
(* and the sequence of handler-status writes that reached the store (injected transient failures     *)
(* included).                                                                                         *)
EXTENDS Integers, Sequences, FiniteSets, TLC, Json, IOUtils
T == JsonDeserialize(IOEnv.TRACE_FILE)
VARIABLES tid, l, verdict
Tol == IF "tolerate" \in DOMAIN T THEN {T.tolerate[i] : i \in 1..Len(T.tolerate)} ELSE {}
Tr == T.traces[tid]
Terminal == {"completed", "failed", "cancelled"}
Pick(cands) ==
  LET idx == {i \in 1..Len(cands) : cands[i][2] /\ cands[i][1] \notin Tol}
  IN IF idx = {} THEN "ok" ELSE cands[CHOOSE i \in idx : \A j \in idx : i <= j][1]
OkWrites(r) == SelectSeq(r.writes, LAMBDA w : w.ok)
Clause(r) == Pick(<<
  <<"handler_running_after_run_ended", r.run_ended /\ r.status = "running">>,
  <<"status_does_not_match_outcome", r.run_ended /\ r.status # "running" /\ r.status # r.expect>>,
  <<"completed_without_result", r.status = "completed" /\ ~r.has_result>>,
  <<"failed_without_error", r.status = "failed" /\ ~r.has_error>>,
  <<"terminal_status_changed_back",
      \E i, j \in 1..Len(OkWrites(r)) : i < j /\ OkWrites(r)[i].status \in Terminal /\ OkWrites(r)[j].status \notin (Terminal \cup {""})>> >>)
Init == tid \in 1..Len(T.traces) /\ l = 1 /\ verdict = "ok"
Step == /\ verdict = "ok" /\ l <= Len(Tr.log) /\ verdict' = Clause(Tr.log[l]) /\ l' = l + 1 /\ UNCHANGED tid
Done == /\ (verdict # "ok" \/ l > Len(Tr.log)) /\ PrintT(<<"VERDICT", tid, verdict, l - 1>>) /\ UNCHANGED <<tid, l, verdict>>
Next == Step \/ Done
=============================================================================
