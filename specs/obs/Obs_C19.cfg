INIT Init
NEXT Next
