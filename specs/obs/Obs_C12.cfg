INIT Init
NEXT Next
