---- MODULE Obs_C22_fail ----
(* C22, error path without a cycle: a resource factory raises on its own while an invocation resolves its resources   *)
(* (that invocation fails); LATER invocations on the same workflow instance resolve the same resources and must be     *)
(* served -- in particular nobody gets a "circular dependency" error in an acyclic graph.                               *)
EXTENDS Integers, Sequences, TLC, Json, IOUtils
T == JsonDeserialize(IOEnv.TRACE_FILE)
VARIABLES tid, done
Tr == T.traces[tid]
Clause == IF Tr.second = "error" \/ Tr.third = "error" THEN "false_cycle_after_factory_failure"
          ELSE IF Tr.second # "done" \/ Tr.third # "done" THEN "later_invocation_not_served"
          ELSE "ok"
Init == tid \in 1..Len(T.traces) /\ done = FALSE
Next == /\ ~done /\ PrintT(<<"VERDICT", tid, Clause, 1>>) /\ done' = TRUE /\ UNCHANGED tid
====
