INIT Init
NEXT Next
