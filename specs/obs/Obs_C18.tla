---- MODULE Obs_C18 ----
(* Property observer for C18 over what the real serialisers gave back for one vector of tables/Serde.tla.          *)
(* A recorded trace (harness/drivers/serde.py: evaluate) holds                                                     *)
(*   v            the abstract vector (cls, typed, dyn, res, exc, path, trips, rep)                                *)
(*   raised       "" or "<serialize|deserialize>:<ExceptionType>" when the code under test raised                  *)
(*   cls_before / cls_after            qualified class name of the event before / after                            *)
(*   typed, dyn, res, tick             per component: kind, name and the canonical text of the value before and    *)
(*                                     after (lb/la, up to Python equality; long texts are replaced by a digest);   *)
(*                                     pyeq = Python's own ==; drift = equal but of different number types         *)
(*   dyn_missing / dyn_extra           dynamic keys that disappeared / appeared                                    *)
(*   exc                               per carried exception: kind, qualified type and str() before and after      *)
(* Clauses transcribe the statement: same class; equal typed fields; equal dynamic fields; equal result;           *)
(* exceptions keep type and message; (ticks: same tick class and equal tick fields).  Nothing is demanded of       *)
(* untyped slots holding values that are not JSON values (LossyKinds), of the type of exceptions whose class       *)
(* cannot be re-imported (FallbackExc: documented fallback), of AddWaiter.requirements / has_requirements          *)
(* (documented as not serialised; left out by the driver), or of __cause__.                                        *)
(* The verdict line carries: first failing clause, ALL failing clauses, conformance to the implementation-shaped   *)
(* prediction Pred of Serde.tla (evidence only), and notes (never verdicts).                                       *)
EXTENDS Serde, Json, IOUtils

PlanAny == {1, 2} \X (0..7)
T == JsonDeserialize(IOEnv.TRACE_FILE)
VARIABLES tid, fin
Tr == T.traces[tid]

Set(s) == {s[i] : i \in 1..Len(s)}
Ran == Tr.raised = ""                      \* the round trip returned something

C_Raised   == IF Ran THEN {} ELSE {"raised:" \o Tr.raised \o ":" \o exc}
C_Class    == IF Ran /\ cls # "none" /\ Tr.cls_before # Tr.cls_after THEN {"class_changed:" \o cls} ELSE {}
C_Typed    == {"typed_field_changed:" \o c.kind : c \in {x \in Set(Tr.typed) : x.lb # x.la}}
C_Dyn      == {"dynamic_field_changed:" \o c.kind \o ":" \o Family : c \in {x \in Set(Tr.dyn) : x.kind \in JsonKinds /\ x.lb # x.la}}
C_DynDrop  == IF Len(Tr.dyn_missing) > 0 THEN {"dynamic_field_dropped:" \o Family} ELSE {}
C_DynExtra == IF Len(Tr.dyn_extra) > 0 THEN {"dynamic_field_added:" \o Family} ELSE {}
C_Res      == {"result_changed:" \o c.kind : c \in {x \in Set(Tr.res) : x.kind \in JsonKinds /\ x.lb # x.la}}
C_ExcType  == {"exception_type_lost:" \o e.kind : e \in {x \in Set(Tr.exc) : x.kind \notin FallbackExc /\ x.type_before # x.type_after}}
C_ExcMsg   == {"exception_message_lost:" \o e.kind : e \in {x \in Set(Tr.exc) : x.msg_before # x.msg_after}}
C_TickCls  == IF Ran /\ Tr.tick_cls_before # Tr.tick_cls_after THEN {"tick_class_changed"} ELSE {}
C_Tick     == {"tick_field_changed:" \o c.name : c \in {x \in Set(Tr.tick) : x.kind = "tick" /\ x.lb # x.la}}

\* in the order of the statement
Ordered == <<C_Raised, C_Class, C_Typed, C_Dyn, C_DynDrop, C_DynExtra, C_Res, C_ExcType, C_ExcMsg, C_TickCls, C_Tick>>
All == UNION {Ordered[i] : i \in 1..Len(Ordered)}
First == IF All = {} THEN "ok"
         ELSE LET i == CHOOSE j \in 1..Len(Ordered) : Ordered[j] # {} /\ \A k \in 1..(j - 1) : Ordered[k] = {}
              IN CHOOSE c \in Ordered[i] : TRUE

\* notes: recorded, never verdicts
N_Lossy == {"lossy_untyped_value:" \o c.kind : c \in {x \in Set(Tr.dyn) \cup Set(Tr.res) : x.kind \in LossyKinds /\ x.lb # x.la}}
N_Drift == {"type_drift:" \o c.kind : c \in {x \in Set(Tr.typed) \cup Set(Tr.dyn) \cup Set(Tr.res) \cup Set(Tr.tick) : x.lb = x.la /\ x.drift}}
N_Fallback == {"fallback_exception_type:" \o e.kind : e \in {x \in Set(Tr.exc) : x.kind \in FallbackExc /\ x.type_before # x.type_after}}
N_Cause == IF \E e \in Set(Tr.exc) : e.cause_before /\ ~e.cause_after THEN {"cause_not_carried"} ELSE {}
N_Wire == IF Ran /\ ~Tr.wire_stable THEN {"second_trip_wire_differs"} ELSE {}
N_Undemanded == {"undemanded_tick_field_differs:" \o c.name : c \in {x \in Set(Tr.tick) : x.kind # "tick" /\ x.lb # x.la}}
Notes == N_Undemanded \cup N_Lossy \cup N_Drift \cup N_Fallback \cup N_Cause \cup N_Wire

\* the canonical texts must agree with Python's own == wherever a value is demanded (machinery self-check)
Demanded(c) == c.kind \notin LossyKinds \/ c \in Set(Tr.typed)
CanonOk == \A c \in Set(Tr.typed) \cup Set(Tr.dyn) \cup Set(Tr.res) : Demanded(c) => (c.pyeq <=> (c.lb = c.la))

\* the prediction uses Serde's coarse clause names for typed fields / results
Coarse(c) == IF \E k \in TypedKinds : c = "typed_field_changed:" \o k THEN "typed_field_changed"
             ELSE IF \E k \in UntypedKinds : c = "result_changed:" \o k THEN "result_changed" ELSE c
Conf == IF ~CanonOk THEN "harness:canon"
        ELSE IF {Coarse(c) : c \in All} = Pred THEN "conf"
        ELSE "drift"

ObsInit == /\ tid \in 1..Len(T.traces) /\ fin = FALSE
           /\ cls = Tr.v.cls /\ typed = Set(Tr.v.typed) /\ dyn = Set(Tr.v.dyn) /\ res = Tr.v.res /\ exc = Tr.v.exc
           /\ path = Tr.v.path /\ trips = Tr.v.trips /\ rep = Tr.v.rep
ObsNext == /\ ~fin /\ fin' = TRUE /\ UNCHANGED <<tid, cls, typed, dyn, res, exc, path, trips, rep>>
           /\ PrintT(<<"VERDICT", tid, First, 0, All, Conf, Notes>>)
====
