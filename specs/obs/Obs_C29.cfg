INIT Init
NEXT Next
