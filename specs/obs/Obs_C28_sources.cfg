INIT Init
NEXT Next
