---- MODULE Obs_C07 ----
(* Property observer for C07.  Input (JSON): a table of NODES -- every condition/strategy object    *)
(* the harness built from the real constructors and operators, with the values the REAL object      *)
(* returned on every concretised input -- and the INPUTS.  Every node is one trace (tid).           *)
(*                                                                                                  *)
(* Verdict clauses = the statement, evaluated on returned values only:                              *)
(*   law_or / law_and   retry_any/| , stop_any/|  = logical or of the parts' values; all/& = and    *)
(*   raised / not_bool  a condition did not return a boolean although its parts did                 *)
(*   wait_raised, finite, nonneg     a wait strategy returns a finite non-negative delay            *)
(*   bounds             ... within its documented bounds  (WaitStrategies!WAtomB, in 1/1000 s)      *)
(*   sum                wait_combine/+/sum() = sum of the parts' values                             *)
(*   chain              wait_chain returns one of its strategies' values, the last once exhausted   *)
(*   determinism        same seed twice => same value                                               *)
(* Conformance (5th field, not a verdict): atoms of retry/stop conditions equal the docstring        *)
(* semantics of RetryAlgebra!Atom; wait_chain picks strategy min(k, n-1).                            *)
EXTENDS Integers, Sequences, FiniteSets, TLC, Json, IOUtils

CONSTANT Dev_PowOverflow
R == INSTANCE RetryAlgebra
W == INSTANCE WaitStrategies

T == JsonDeserialize(IOEnv.TRACE_FILE)
NI == Len(T.inputs)

VARIABLES tid, done
N == T.nodes[tid]
Kid(j) == T.nodes[N.kids[j]]
NK == Len(N.kids)
MinOf(S) == CHOOSE x \in S : \A y \in S : x <= y
MaxOf(S) == CHOOSE x \in S : \A y \in S : x >= y

\* ------------------------------------------------------------------ boolean kinds (retry / stop)
\* value codes: 0 False, 1 True, 2 raised, 3 returned a non-bool
BV(i) == N.vals[i]
KV(j, i) == Kid(j).vals[i]
KidsBool(i) == \A j \in 1..NK : KV(j, i) \in {0, 1}
BClause(i) ==
  IF BV(i) \notin {0, 1}
  THEN (IF NK > 0 /\ ~KidsBool(i) THEN "ok" ELSE IF BV(i) = 2 THEN "raised" ELSE "not_bool")
  ELSE IF ~KidsBool(i) THEN "ok"
  ELSE IF N.op \in {"any", "or"} /\ (BV(i) = 1) # (\E j \in 1..NK : KV(j, i) = 1) THEN "law_or"
  ELSE IF N.op \in {"all", "and"} /\ (BV(i) = 1) # (\A j \in 1..NK : KV(j, i) = 1) THEN "law_and"
  ELSE "ok"
BConf(i) == IF NK = 0 /\ N.op \notin R!CombOps /\ BV(i) \in {0, 1}
                 /\ (BV(i) = 1) # R!Atom([op |-> N.op, sargs |-> N.sargs, iargs |-> N.iargs], T.inputs[i])
            THEN "atom_" \o N.op ELSE "ok"

\* ------------------------------------------------------------------ waits
\* vals[i] = <<ok(1)/raised(0), floor(1000 v), ceil(1000 v), finite(1/0), same-seed-twice equal(1/0)>>
Ok(v) == v[1] = 1
Lo(v) == v[2]
Hi(v) == v[3]
Kin(i) == T.inputs[i].k
Seeded(i) == T.inputs[i].seed # -1

RECURSIVE NB(_, _), NJit(_)
NB(n, k) == LET M == T.nodes[n] IN
  IF M.op \in W!SumOps
  THEN LET S[j \in 0..Len(M.kids)] == IF j = 0 THEN W!B(0, 0)
                                     ELSE LET a == NB(M.kids[j], k) IN W!B(S[j - 1].lo + a.lo, S[j - 1].hi + a.hi)
       IN S[Len(M.kids)]
  ELSE IF M.op = "chain"
  THEN (\* documented: "a different strategy for each attempt in order", the last one once exhausted; WHICH
        \* attempt number selects the first strategy is C06's subject, so before exhaustion the bound is
        \* the hull of the parts' bounds (the exact index is compared as conformance only)
        IF k >= Len(M.kids) THEN NB(M.kids[Len(M.kids)], k)
        ELSE LET bs == {NB(M.kids[j], k) : j \in 1..Len(M.kids)}
             IN W!B(MinOf({b.lo : b \in bs}), MaxOf({b.hi : b \in bs})))
  ELSE W!WAtomB(M.op, M.iargs, k)
NJit(n) == LET M == T.nodes[n] IN M.op \in W!JitterOps \/ \E j \in 1..Len(M.kids) : NJit(M.kids[j])

\* units (1/256 s) -> 1/1000 s without overflowing 32-bit integers
FloorMilli(V) == 1000 * (V \div W!U) + (1000 * (V % W!U)) \div W!U
CeilMilli(V) == FloorMilli(V) + (IF (1000 * (V % W!U)) % W!U = 0 THEN 0 ELSE 1)

SumKids(i, f(_)) == LET S[j \in 0..NK] == IF j = 0 THEN 0 ELSE S[j - 1] + f(KV(j, i)) IN S[NK]
Comparable(i) == Seeded(i) \/ ~NJit(tid)       \* parts evaluated separately drew the same random numbers

WClause(i) ==
  LET v == N.vals[i]  k == Kin(i) IN
  IF NK > 0 /\ (\E j \in 1..NK : ~Ok(KV(j, i))) /\ N.op \in W!SumOps THEN "ok"       \* a part already failed
  ELSE IF N.op = "chain" /\ ~Ok(v) /\ (\E j \in 1..NK : ~Ok(KV(j, i))) THEN "ok"
  ELSE IF ~Ok(v) THEN "wait_raised"
  ELSE IF v[4] # 1 THEN "finite"
  ELSE IF Lo(v) < 0 THEN "nonneg"
  ELSE IF N.op \in W!SumOps /\ Comparable(i)
          /\ ~(Lo(v) >= SumKids(i, Lo) /\ Hi(v) <= SumKids(i, Hi)) THEN "sum"
  ELSE IF N.op = "chain" /\ Comparable(i)
          /\ ~(\E j \in 1..NK : Ok(KV(j, i)) /\ Lo(KV(j, i)) = Lo(v) /\ Hi(KV(j, i)) = Hi(v)) THEN "chain"
  ELSE IF N.op = "chain" /\ Comparable(i) /\ k >= NK /\ Ok(KV(NK, i))
          /\ ~(Lo(KV(NK, i)) = Lo(v) /\ Hi(KV(NK, i)) = Hi(v)) THEN "chain"
  ELSE IF LET b == NB(tid, k) IN ~(Lo(v) >= FloorMilli(b.lo) /\ Hi(v) <= CeilMilli(b.hi)) THEN "bounds"
  ELSE IF Seeded(i) /\ v[5] # 1 THEN "determinism"
  ELSE "ok"
WConf(i) == LET v == N.vals[i]  k == Kin(i) IN
  IF N.op = "chain" /\ Ok(v) /\ Comparable(i) /\ Ok(KV(W!ChainIdx(NK, k), i))
     /\ ~(Lo(KV(W!ChainIdx(NK, k), i)) = Lo(v) /\ Hi(KV(W!ChainIdx(NK, k), i)) = Hi(v))
  THEN "chain_index" ELSE "ok"

\* ------------------------------------------------------------------ verdict
IsWait == T.kind = "wait"
Clause(i) == IF IsWait THEN WClause(i) ELSE BClause(i)
Conf(i) == IF IsWait THEN WConf(i) ELSE BConf(i)
Feature(i, c) ==
  IF ~IsWait THEN N.op
  ELSE IF c = "wait_raised" THEN N.op \o ":" \o N.exc \o (IF Kin(i) = W!BigK THEN ":huge_attempts" ELSE ":small_attempts")
  ELSE IF c = "bounds" THEN N.op \o (IF Lo(N.vals[i]) < FloorMilli(NB(tid, Kin(i)).lo) THEN ":below_documented_min"
                                      ELSE ":above_documented_max")
  ELSE N.op

Verdict ==
  LET bad == {i \in 1..NI : Clause(i) # "ok"}
      drift == {i \in 1..NI : Conf(i) # "ok"}
      l == IF bad = {} THEN 0 ELSE MinOf(bad)
      c == IF bad = {} THEN "ok" ELSE Clause(l)
  IN <<"VERDICT", tid, c, l, IF bad = {} THEN "-" ELSE Feature(l, c),
       IF drift = {} THEN "ok" ELSE Conf(MinOf(drift)), IF drift = {} THEN 0 ELSE MinOf(drift),
       Cardinality(bad)>>

Init == tid \in 1..Len(T.nodes) /\ done = FALSE
Next == ~done /\ PrintT(Verdict) /\ done' = TRUE /\ UNCHANGED tid
====
