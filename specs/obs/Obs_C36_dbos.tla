---- MODULE Obs_C36_dbos ----
(* Property observer for the DBOS half of C36 over a run on the decorator stack that was left idle for `gap`       *)
(* (tenths of a second) and then sent an event.  `probe` events are snapshots taken by the harness: "idle" at the    *)
(* end of the idle gap (live control loops, lifecycle row, handler.idle_since set), "end" after the send.           *)
(* Statement: idle for longer than idle_timeout => released from memory and the handler marked idle; the next event  *)
(* sent transparently reloads the run, which continues from where it stopped (and it is not released earlier).      *)
EXTENDS Naturals, Sequences, FiniteSets, TLC, Json, IOUtils

T == JsonDeserialize(IOEnv.TRACE_FILE)
VARIABLES tid, fin
Tr == T.traces[tid]
E == Tr.events
Probe(n) == CHOOSE i \in 1..Len(E) : E[i].a = "probe" /\ E[i].name = n
HasProbe(n) == \E i \in 1..Len(E) : E[i].a = "probe" /\ E[i].name = n
Long == Tr.gap > Tr.idle_timeout * 10
Answered(w) == \E i \in 1..Len(E) : E[i].a = "step" /\ E[i].name = "answer" /\ E[i].uid = w
SentOk(w) == \E i \in 1..Len(E) : E[i].a = "send_done" /\ E[i].who = w /\ E[i].ok
Failed(w) == \E i \in 1..Len(E) : E[i].a = "send_done" /\ E[i].who = w /\ ~E[i].ok

Verdict ==
  LET p == E[Probe("idle")] IN
  IF Long /\ p.live > 0 THEN <<"not_released_after_idle_timeout", Probe("idle")>>
  ELSE IF Long /\ ~p.idle_marked THEN <<"released_but_not_marked_idle", Probe("idle")>>
  ELSE IF Tr.gap < Tr.idle_timeout * 10 /\ p.live = 0 THEN <<"released_before_idle_timeout", Probe("idle")>>
  ELSE IF \E w \in {Tr.after[i] : i \in 1..Len(Tr.after)} : Failed(w) THEN <<"send_after_idle_failed", 0>>
  ELSE IF \E w \in {Tr.after[i] : i \in 1..Len(Tr.after)} : SentOk(w) /\ ~Answered(w) THEN <<"run_did_not_continue_after_send", 0>>
  ELSE IF HasProbe("end") /\ Tr.expect_answers # E[Probe("end")].answers THEN <<"run_did_not_continue_from_where_it_stopped", Probe("end")>>
  ELSE <<"ok", Len(E)>>

Init == tid \in 1..Len(T.traces) /\ fin = FALSE
Next == /\ ~fin /\ fin' = TRUE /\ UNCHANGED tid
        /\ PrintT(<<"VERDICT", tid, Verdict[1], Verdict[2]>>)
====
