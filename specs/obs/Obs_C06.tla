------------------------------ MODULE Obs_C06 ------------------------------
(* C06: the k-th retry of a step (k = 1, 2, ...) starts no earlier than the delay the wait         *)
(* strategy documents for that retry after the k-th failure; the first retry uses the first        *)
(* strategy of wait_chain and the initial/multiplier delay of the exponential strategies           *)
(* (tenacity semantics).                                                                            *)
(* Documented delay for retry k (integer milliseconds):                                             *)
(*   fixed d: d     chain(d1..dn): d_min(k,n)     exponential(mult, base, max): min(mult*base^(k-1), max) *)
(*   incrementing(start, inc, max): clamp(start + inc*(k-1), 0, max)                               *)
(* Observed: virtual time of each failure and of each following start of the harness-owned body.   *)
(* Only ">=" is demanded (a loaded worker pool may start a retry later).                            *)
EXTENDS Integers, Sequences, FiniteSets, TLC, Json, IOUtils

T == JsonDeserialize(IOEnv.TRACE_FILE)
VARIABLES tid, l, st, verdict
\* clauses switched off for this pass (known findings: lets the remaining clauses be judged on the same trace)
Tol == IF "tolerate" \in DOMAIN T THEN {T.tolerate[i] : i \in 1..Len(T.tolerate)} ELSE {}
Tr == T.traces[tid]
W == Tr.cfg.steps[Tr.step].retry.wait
Min(a, b) == IF a < b THEN a ELSE b
Max(a, b) == IF a > b THEN a ELSE b
RECURSIVE Pow(_, _)
Pow(b, e) == IF e <= 0 THEN 1 ELSE b * Pow(b, e - 1)

Doc(k) == CASE W.k = "fixed" -> W.a
            [] W.k = "chain" -> W.ds[Min(k, Len(W.ds))]
            \* a chain whose last stage depends on the attempt number: retry k > n uses that stage's delay FOR RETRY k
            [] W.k = "chain_incr" -> IF k <= Len(W.ds) THEN W.ds[k] ELSE Max(0, Min(W.a + W.b * (k - 1), W.c))
            [] W.k = "exp" -> Max(0, Min(W.a * Pow(W.b, k - 1), W.c))
            [] W.k = "incr" -> Max(0, Min(W.a + W.b * (k - 1), W.c))
            [] OTHER -> 0

\* per input event of the step (uid): time of its last failure and the number of its failures so far.  The k-th retry of
\* an event is the start that follows its k-th failure -- counted here, not read from what the step is told
\* (ctx.retry_info()), so that a retry whose count got lost on the way (e.g. while it waited in the queue of a
\* saturated step) is still held to the delay of ITS retry number
St0 == [tfail |-> <<>>, bad |-> "ok"]
Has(s, u) == u \in DOMAIN s.tfail
Apply(s, r) ==
  CASE r.e = "step_end" /\ r.step = Tr.step /\ r.failed ->
         [s EXCEPT !.tfail = [u \in DOMAIN @ \cup {r.uid} |->
                                IF u = r.uid THEN [t |-> r.t, n |-> IF Has(s, u) THEN s.tfail[u].n + 1 ELSE 1] ELSE @[u]]]
    [] r.e = "step_start" /\ r.step = Tr.step /\ Has(s, r.uid) ->
         LET gap == r.t - s.tfail[r.uid].t
             k == s.tfail[r.uid].n IN
         [s EXCEPT !.bad = IF gap >= Doc(k) THEN @
                           ELSE IF gap >= Doc(k + 1) THEN "retry_started_early_by_next_index_delay"
                           ELSE "retry_started_early"]
    [] OTHER -> s

Init == tid \in 1..Len(T.traces) /\ l = 1 /\ st = St0 /\ verdict = "ok"
Step == /\ verdict = "ok" /\ l <= Len(Tr.log)
        /\ st' = LET a == Apply(st, Tr.log[l]) IN [a EXCEPT !.bad = IF @ \in Tol THEN "ok" ELSE @]
        /\ verdict' = st'.bad
        /\ l' = l + 1 /\ UNCHANGED tid
Done == /\ (verdict # "ok" \/ l > Len(Tr.log))
        /\ PrintT(<<"VERDICT", tid, verdict, l - 1>>)
        /\ UNCHANGED <<tid, l, st, verdict>>
Next == Step \/ Done
=============================================================================
