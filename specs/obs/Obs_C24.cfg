INIT Init
NEXT Next
