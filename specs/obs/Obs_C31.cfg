INIT Init
NEXT Next
