---- MODULE Obs_C37 ----
(* Property observer for C37 over what a llamactl user can see: the operations issued (with the   *)
(* id of the profile a create/select call returned or was given), and after each operation        *)
(* get_current_environment(), list_environments(), get_current_profile() of the current           *)
(* environment's AuthService, and list_profiles().                                                *)
(* Literal transcription of the statement:                                                       *)
(*   env_known      the current environment is a known environment or the built-in default        *)
(*   active_in_env  the active profile is none or a profile of the current environment            *)
(*   active_picked  ... that was selected or created while that environment was current           *)
(* `picked` is rebuilt from the operations: <<profile id, environment>> for every profile created  *)
(* (create_token / oidc / cm_create into the then-current environment) or selected (select, oidc   *)
(* on an existing login, select_any: any profile of the current environment may be chosen by it)   *)
(* while that environment was current.  Profile ids are never reused (uuid4).                     *)
(*                                                                                               *)
(* A trace is a path of events plus a fan of alternative next operations from its last state    *)
(* (each alternative is one more history: path + that operation).                                 *)
(* T.tolerate lists cause features of known findings: such a failure is printed as                *)
(* <<"KF", tid, l, clause, cause>> and observation goes on (the profile counts as picked from      *)
(* then on), so that the rest of the trace is still judged.  Anything else ends the trace with a   *)
(* failing VERDICT.                                                                               *)
EXTENDS Naturals, Sequences, FiniteSets, TLC, Json, IOUtils

T == JsonDeserialize(IOEnv.TRACE_FILE)
Tolerate == {T.tolerate[i] : i \in 1..Len(T.tolerate)}
NONE == "-"

VARIABLES tid, l, alt, verdict, cause, picked
\* A trace is a path (Tr.events) followed by a fan (Tr.fan): alternative next operations, each applied
\* to the state at the end of the path.  l indexes the path; alt = j > 0 means alternative j was taken.
Tr == T.traces[tid]
Range(s) == {s[i] : i \in 1..Len(s)}
LastObs == IF Len(Tr.events) = 0 THEN Tr.init ELSE Tr.events[Len(Tr.events)].post
PreOf(i) == IF i = 1 THEN Tr.init ELSE Tr.events[i - 1].post

IdsIn(obs, e) == {obs.profiles[i].id : i \in {j \in 1..Len(obs.profiles) : obs.profiles[j].e = e}}

\* what an operation adds to picked (environment = the one current when the operation was issued)
Adds(e, pre) == LET k == e.op[1] IN
  IF e.ret # "ok" THEN {}
  ELSE IF k \in {"create_token", "oidc", "select"} THEN {<<e.ret_id, pre.cur_env>>}
  ELSE IF k = "select_any" THEN {<<id, pre.cur_env>> : id \in IdsIn(pre, pre.cur_env)}
  ELSE IF k = "cm_create" /\ e.op[3] = pre.cur_env THEN {<<e.ret_id, pre.cur_env>>}
  ELSE {}

EnvKnown(p) == p.cur_env \in Range(p.envs) \cup {T.default}
ActiveInEnv(p) == p.active.id = NONE \/ (p.active.e = p.cur_env /\ p.active.id \in IdsIn(p, p.cur_env))
ActivePicked(p, pk) == p.active.id = NONE \/ <<p.active.id, p.cur_env>> \in pk

Clause(p, pk) ==
   IF ~EnvKnown(p) THEN "env_known"
   ELSE IF ~ActiveInEnv(p) THEN "active_in_env"
   ELSE IF ~ActivePicked(p, pk) THEN "active_picked"
   ELSE "ok"

\* cause feature: the kind of operation after which the clause first failed
Cause(e) == e.op[1]

Init == tid \in 1..Len(T.traces) /\ l = 1 /\ alt = 0 /\ verdict = "ok" /\ cause = NONE /\ picked = {}

\* judge event e issued in observed state pre; pos = its position (path index, or path length + alternative)
Judge(e, pre, pos) ==
  LET pk == picked \cup Adds(e, pre)
      c == Clause(e.post, pk) IN
  IF c = "ok" THEN verdict' = "ok" /\ cause' = NONE /\ picked' = pk
  ELSE IF Cause(e) \in Tolerate /\ c = "active_picked"
       THEN /\ PrintT(<<"KF", tid, pos, c, Cause(e)>>)
            /\ verdict' = "ok" /\ cause' = NONE
            /\ picked' = pk \cup {<<e.post.active.id, e.post.cur_env>>}
       ELSE verdict' = c /\ cause' = Cause(e) /\ picked' = pk

Step == /\ verdict = "ok" /\ alt = 0 /\ l <= Len(Tr.events)
        /\ Judge(Tr.events[l], PreOf(l), l)
        /\ l' = l + 1 /\ UNCHANGED <<tid, alt>>
Fan ==  /\ verdict = "ok" /\ alt = 0 /\ l = Len(Tr.events) + 1
        /\ \E j \in 1..Len(Tr.fan) :
              /\ Judge(Tr.fan[j], LastObs, Len(Tr.events) + j)
              /\ alt' = j
        /\ UNCHANGED <<tid, l>>
\* one verdict for the path (position = last path event judged) and one per alternative
Done == /\ (verdict # "ok" \/ alt > 0 \/ l > Len(Tr.events))
        /\ PrintT(<<"VERDICT", tid, verdict, IF alt > 0 THEN Len(Tr.events) + alt ELSE l - 1, cause>>)
        /\ UNCHANGED <<tid, l, alt, verdict, cause, picked>>
Next == Step \/ Fan \/ Done
====
