---- MODULE Obs_C25 ----
(* Property observer for C25, over what a user of KeyedLock can see: which harness-owned      *)
(* critical-section bodies are inside, which tasks are still waiting, and what lock state the   *)
(* object retains.  Literal transcription of the statement; nothing about how the lock works.   *)
EXTENDS Naturals, Sequences, FiniteSets, TLC, Json, IOUtils

T == JsonDeserialize(IOEnv.TRACE_FILE)
Procs == {T.procs[i] : i \in 1..Len(T.procs)}
Keys == {T.keys[i] : i \in 1..Len(T.keys)}
KeyOf == T.keyof

VARIABLES tid, l, verdict
Tr == T.traces[tid]

PrevPc(i) == IF i = 1 THEN [p \in Procs |-> "idle"] ELSE Tr[i-1].post.pc

\* at most one holder inside per key (also at every instant in between: max_inside is the
\* high-water mark the bodies themselves recorded)
Mutex(e) == \A k \in Keys : e.post.max_inside[k] <= 1 /\ Len(e.post.inside[k]) <= 1

\* holders of different keys do not block each other: a task started while nobody holds or
\* waits for its key (and alone on that key in this batch) is inside by the next quiescence
Independence(i) ==
  LET e == Tr[i] pre == PrevPc(i) IN
  \A j \in 1..Len(e.cmds) :
     LET c == e.cmds[j] IN
     (/\ c[1] = "start"
      /\ ~ (\E q \in Procs : q # c[2] /\ KeyOf[q] = KeyOf[c[2]] /\ pre[q] \in {"wait", "cs"})
      /\ ~ (\E j2 \in 1..Len(e.cmds) : j2 # j /\ KeyOf[e.cmds[j2][2]] = KeyOf[c[2]]))
     => e.post.pc[c[2]] = "cs"

\* every waiter eventually enters: at quiescence nobody waits for a key that nobody holds
Progress(e) == \A k \in Keys :
   (~ \E p \in Procs : KeyOf[p] = k /\ e.post.pc[p] = "cs")
      => ~ \E p \in Procs : KeyOf[p] = k /\ e.post.pc[p] = "wait"

\* once all holders and waiters are gone no lock state remains
Cleanup(e) == (\A p \in Procs : e.post.pc[p] \in {"idle", "done", "cancelled"})
                 => \A k \in Keys : ~e.post.present[k] /\ e.post.refs[k] = 0

Clause(i) == LET e == Tr[i] IN
   IF ~Mutex(e) THEN "mutex"
   ELSE IF ~Independence(i) THEN "independence"
   ELSE IF ~Progress(e) THEN "progress"
   ELSE IF ~Cleanup(e) THEN "cleanup"
   ELSE "ok"

Init == tid \in 1..Len(T.traces) /\ l = 1 /\ verdict = "ok"
Step == /\ verdict = "ok" /\ l <= Len(Tr)
        /\ verdict' = Clause(l)
        /\ l' = l + 1 /\ UNCHANGED tid
Done == /\ (verdict # "ok" \/ l > Len(Tr))
        /\ PrintT(<<"VERDICT", tid, verdict, l - 1>>)
        /\ UNCHANGED <<tid, l, verdict>>
Next == Step \/ Done
====
