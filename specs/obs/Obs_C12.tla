------------------------------ MODULE Obs_C12 ------------------------------
(* C12: for a deterministic workflow, serializing the context at any point (ctx.to_dict, through   *)
(* JSON) and running again from Context.from_dict produces the same final result and state-store   *)
(* contents as the uninterrupted run, with every not-yet-completed step invocation re-executed     *)
(* under its existing retry count and recovery budget; the serialized form is stable after one     *)
(* round trip.                                                                                      *)
(* Observed, per snapshot point: outcome and state-store keys of the uninterrupted continuation     *)
(* (ref) and of the resumed continuation (res), the invocations that were running at the snapshot   *)
(* with their retry numbers, the retry number of their first execution after the resume, the        *)
(* number of failed executions per invocation over both runs, and the stability comparison of the   *)
(* real serialised form.  The programs write idempotently to the store and their result does not    *)
(* depend on completion order (re-execution of an in-flight step is inherent, not a violation).     *)
EXTENDS Integers, Sequences, FiniteSets, TLC, Json, IOUtils

T == JsonDeserialize(IOEnv.TRACE_FILE)
VARIABLES tid, l, verdict
Tol == IF "tolerate" \in DOMAIN T THEN {T.tolerate[i] : i \in 1..Len(T.tolerate)} ELSE {}
Tr == T.traces[tid]
C == Tr.cfg
Max(a, b) == IF a > b THEN a ELSE b
Budget(s) == LET rp == C.steps[s].retry IN IF rp.kind = "none" THEN 1 ELSE IF rp.max = -1 THEN 1000 ELSE Max(rp.max, 1)

Pick(cands) ==
  LET idx == {i \in 1..Len(cands) : cands[i][2] /\ cands[i][1] \notin Tol}
  IN IF idx = {} THEN "ok" ELSE cands[CHOOSE i \in idx : \A j \in idx : i <= j][1]

Clause(r) == Pick(<<
  <<"context_not_serializable", r.snap_err # "" /\ r.res.kind = "snapshot_failed">>,
  <<"serialized_form_not_stable", ~r.stable>>,
  <<"resume_raised", r.resume_err # "">>,
  <<"retry_count_reset_for_running_invocation",
      \E i \in 1..Len(r.inprog) : \E j \in 1..Len(r.post) :
         r.post[j].key = r.inprog[i].step \o "/" \o r.inprog[i].uid /\ r.post[j].first_retry < r.inprog[i].retry>>,
  <<"retry_budget_exceeded_across_resume", \E i \in 1..Len(r.fails) : r.fails[i].n > Budget(r.fails[i].step)>>,
  \* the same two clauses, named by the circumstance at the snapshot so that a recorded finding about one circumstance
  \* never hides a difference under another
  <<"result_differs_with_delayed_retry_pending", r.pending_retry /\ (r.res.kind # r.ref.kind \/ r.res.detail # r.ref.detail)>>,
  <<"state_store_differs_with_delayed_retry_pending", r.pending_retry /\ r.res.store # r.ref.store>>,
  <<"result_differs_with_running_recovery_history", r.inprog_recovered /\ (r.res.kind # r.ref.kind \/ r.res.detail # r.ref.detail)>>,
  <<"state_store_differs_with_running_recovery_history", r.inprog_recovered /\ r.res.store # r.ref.store>>,
  <<"result_differs", ~r.pending_retry /\ ~r.inprog_recovered /\ (r.res.kind # r.ref.kind \/ r.res.detail # r.ref.detail)>>,
  <<"state_store_differs", ~r.pending_retry /\ ~r.inprog_recovered /\ r.res.store # r.ref.store>>,
  \* a second pause on the resumed run (only judged where the first one was transparent): the run that was merely
  \* serialised again goes on as if it had not been (ckpt), and what was serialised resumes to the same end (res2)
  <<"second_snapshot_failed", r.two /\ r.snap2_err # "">>,
  <<"serializing_the_resumed_run_changes_it", r.two /\ (r.ckpt.kind # r.res.kind \/ r.ckpt.detail # r.res.detail \/ r.ckpt.store # r.res.store)>>,
  <<"second_resume_differs", r.two /\ ~r.pending_retry2 /\ ~r.inprog_recovered2
                             /\ (r.res2.kind # r.res.kind \/ r.res2.detail # r.res.detail \/ r.res2.store # r.res.store)>> >>)

Init == tid \in 1..Len(T.traces) /\ l = 1 /\ verdict = "ok"
Step == /\ verdict = "ok" /\ l <= Len(Tr.log)
        /\ verdict' = Clause(Tr.log[l])
        /\ l' = l + 1 /\ UNCHANGED tid
Done == /\ (verdict # "ok" \/ l > Len(Tr.log))
        /\ PrintT(<<"VERDICT", tid, verdict, l - 1>>)
        /\ UNCHANGED <<tid, l, verdict>>
Next == Step \/ Done
=============================================================================
