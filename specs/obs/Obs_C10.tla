------------------------------ MODULE Obs_C10 ------------------------------
(* C10: a step suspended in ctx.wait_for_event resumes and completes at most once per wait,      *)
(* however many matching events arrive; the event it receives has the requested type and          *)
(* satisfies every requirement (also after serialize/resume); the waiter_event is published once  *)
(* per waiter id; a wait with a timeout raises TimeoutError at most once, and not when a matching  *)
(* event was handed over.                                                                          *)
(* Observed: what wait_for_event returned / raised inside the harness-owned step bodies, and the   *)
(* waiter events (uids "ask:<step>:<input uid>") on the published stream.  A wait instance is      *)
(* (run, step, input event, waiter id).                                                            *)
EXTENDS Integers, Sequences, FiniteSets, TLC, Json, IOUtils

T == JsonDeserialize(IOEnv.TRACE_FILE)
VARIABLES tid, l, st, verdict
\* clauses switched off for this pass (known findings: lets the remaining clauses be judged on the same trace)
Tol == IF "tolerate" \in DOMAIN T THEN {T.tolerate[i] : i \in 1..Len(T.tolerate)} ELSE {}
Tr == T.traces[tid]

\* rets: waits that have completed;  cnt / first / base: per wait, how often it returned, with which event, and how many
\* times its invocation had been suspended when it first returned;  susp: suspensions (WaitingForEvent) per invocation.
\* A step with several wait_for_event calls is executed again from the top each time a later wait is resolved: an earlier,
\* already completed wait then RETURNS AGAIN the same event -- that replay is not a second completion.  It is allowed
\* only with the same event and at most once per suspension of the invocation after the wait's first completion.
\* gotby: <<step, waiter id, event>> -> the input whose wait that event completed (one waiter id of one step: one wait per event)
St0 == [run |-> 0, rets |-> {}, tos |-> {}, asks |-> {}, bad |-> "ok", cnt |-> <<>>, first |-> <<>>, base |-> <<>>, susp |-> <<>>,
        gotby |-> <<>>]
Get(f, k) == IF k \in DOMAIN f THEN f[k] ELSE 0
Put(f, k, v) == [x \in (DOMAIN f) \cup {k} |-> IF x = k THEN v ELSE f[x]]

Apply(s, r) ==
  LET s0 == IF r.run # s.run THEN [St0 EXCEPT !.run = r.run, !.asks = s.asks] ELSE s IN     \* asks survive a resume
  CASE r.e = "wait_ret" ->
         LET key == <<r.step, r.uid, r.wid>>
             n == Get(s0.cnt, key)
             replay == /\ n >= 1 /\ s0.first[key] = r.got_uid
                       /\ n <= Get(s0.susp, <<r.step, r.uid>>) - s0.base[key]
         IN
         [s0 EXCEPT !.rets = @ \cup {key},
                    !.gotby = IF <<r.step, r.wid, r.got_uid>> \in DOMAIN @ THEN @ ELSE Put(@, <<r.step, r.wid, r.got_uid>>, r.uid),
                    !.cnt = Put(@, key, n + 1),
                    !.first = IF n = 0 THEN Put(@, key, r.got_uid) ELSE @,
                    !.base = IF n = 0 THEN Put(@, key, Get(s0.susp, <<r.step, r.uid>>)) ELSE @,
                    !.bad = IF key \in s0.rets /\ ~replay THEN "wait_completed_twice"
                            \* one response completes ONE wait of a waiter id: a later wait under the same id (another input of
                            \* the same step) needs a response of its own
                            ELSE IF <<r.step, r.wid, r.got_uid>> \in DOMAIN s0.gotby /\ s0.gotby[<<r.step, r.wid, r.got_uid>>] # r.uid
                              THEN "one_event_completed_two_waits_of_one_waiter_id"
                            ELSE IF key \in s0.tos THEN "result_after_timeout"
                            ELSE IF r.got_ty # r.want THEN "wrong_type"
                            ELSE IF "k" \in DOMAIN r.reqs /\ r.reqs["k"] # r.got_k THEN "requirement_not_met"
                            ELSE @]
    [] r.e = "step_end" /\ r.how = "raise:WaitingForEvent" ->
         [s0 EXCEPT !.susp = Put(@, <<r.step, r.uid>>, Get(@, <<r.step, r.uid>>) + 1)]
    [] r.e = "wait_timeout" ->
         LET key == <<r.step, r.uid, r.wid>> IN
         [s0 EXCEPT !.tos = @ \cup {key},
                    !.bad = IF key \in s0.tos THEN "timeout_raised_twice"
                            ELSE IF key \in s0.rets THEN "timeout_after_result"
                            ELSE @]
    [] r.e = "pub" /\ r.p.k = "ev" /\ r.p.ty = "Ask" /\ r.is_waiter_event ->
         [s0 EXCEPT !.asks = @ \cup {r.p.uid},
                    !.bad = IF r.p.uid \in s0.asks THEN "waiter_event_published_twice" ELSE @]
    [] OTHER -> s0

Init == tid \in 1..Len(T.traces) /\ l = 1 /\ st = St0 /\ verdict = "ok"
Step == /\ verdict = "ok" /\ l <= Len(Tr.log)
        /\ st' = LET a == Apply(st, Tr.log[l]) IN [a EXCEPT !.bad = IF @ \in Tol THEN "ok" ELSE @]
        /\ verdict' = st'.bad
        /\ l' = l + 1 /\ UNCHANGED tid
Done == /\ (verdict # "ok" \/ l > Len(Tr.log))
        /\ PrintT(<<"VERDICT", tid, verdict, l - 1>>)
        /\ UNCHANGED <<tid, l, st, verdict>>
Next == Step \/ Done
=============================================================================
