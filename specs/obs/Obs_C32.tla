---- MODULE Obs_C32 ----
(* Property observer for C32 over what find_deployment_id returned for one display name.                    *)
(*   cls     the name as a sequence of character classes (how the harness built it)                         *)
(*   alnum   per position of the name: the lower-case ascii alphanumeric that character contributes, or ""  *)
(*   mode    "plain" | "force" (force_suffix=True) | "collide" (first candidate reported in use)            *)
(*   ids     the returned id for each random seed tried, as sequences of one-character strings              *)
(*   draws   for each seed whether the first random hex character drawn is a digit or a letter              *)
(* Clauses transcribe the statement: every id is a DNS-1035 label of at most 63 characters; with at least   *)
(* three alphanumerics in the name (and a free id, no forced suffix) the id is made of the name's lower-case *)
(* alphanumerics; with fewer it carries a random suffix (five hex characters after a hyphen, or alone, that  *)
(* vary with the seed).                                                                                      *)
(* The 5th verdict field reports conformance to DeployId.tla's pipeline (evidence only).                     *)
EXTENDS DeployId, Json, IOUtils

T == JsonDeserialize(IOEnv.TRACE_FILE)
VARIABLES tid, fin
Tr == T.traces[tid]

LowerLetters == {"a","b","c","d","e","f","g","h","i","j","k","l","m","n","o","p","q","r","s","t","u","v","w","x","y","z"}
Digits == {"0","1","2","3","4","5","6","7","8","9"}
HexChars == Digits \cup {"a","b","c","d","e","f"}

Dns1035(id) == /\ Len(id) >= 1 /\ Len(id) <= 63
               /\ id[1] \in LowerLetters
               /\ \A i \in 1..Len(id) : id[i] \in LowerLetters \cup Digits \cup {"-"}
               /\ id[Len(id)] # "-"

A == SelectSeq(Tr.alnum, LAMBDA c : c # "")               \* the name's lower-case alphanumerics, in order
NA == Len(A)

MadeOfAlnums(id) ==
  LET pre == NA > 0 /\ A[1] \in Digits /\ Len(id) >= 2 /\ id[1] = "d" /\ id[2] = "-"
      body == IF pre THEN SubSeq(id, 3, Len(id)) ELSE id
      got == SelectSeq(body, LAMBDA c : c # "-")
  IN /\ Len(got) <= NA /\ \A i \in 1..Len(got) : got[i] = A[i]
     /\ Len(got) >= 1
     /\ Len(id) <= 61 => Len(got) = NA                     \* nothing cut off unless the 63 limit was reached

SuffixShape(id) == /\ Len(id) >= 5
                   /\ \A i \in (Len(id) - 4)..Len(id) : id[i] \in HexChars
                   /\ (Len(id) = 5 \/ id[Len(id) - 5] = "-")
Varies == \E i, j \in 1..Len(Tr.ids) : Tr.ids[i] # Tr.ids[j]

Clause ==
  IF \E i \in 1..Len(Tr.ids) : ~Dns1035(Tr.ids[i]) THEN "dns1035"
  ELSE IF Tr.mode = "plain" /\ NA >= 3 /\ (\E i \in 1..Len(Tr.ids) : ~MadeOfAlnums(Tr.ids[i])) THEN "derived_from_alphanumerics"
  ELSE IF Tr.mode = "plain" /\ NA < 3 /\ ((\E i \in 1..Len(Tr.ids) : ~SuffixShape(Tr.ids[i])) \/ ~Varies) THEN "random_suffix"
  ELSE "ok"

\* conformance: the real id equals the model's id character by character (random positions: any hex character
\* of the drawn kind)
ConcreteMatches(id, mid) ==
  /\ Len(id) = Len(mid)
  /\ \A i \in 1..Len(mid) :
       LET c == mid[i] IN
         IF c.src # 0 THEN id[i] = Tr.alnum[c.src]
         ELSE IF c.ch = "d" THEN id[i] = "d"
         ELSE IF c.ch = "-" THEN id[i] = "-"
         ELSE IF c.ch = "ax" THEN id[i] \in HexChars \ Digits
         ELSE IF c.ch = "0x" THEN id[i] \in Digits
         ELSE id[i] \in HexChars
ClsOK == /\ Len(Tr.cls) = Len(Tr.alnum)
         /\ \A i \in 1..Len(Tr.cls) : (Tr.alnum[i] # "") <=> IsAlnumClass(Tr.cls[i])
Conf == IF ~ClsOK THEN "harness:classes"
        ELSE IF \A i \in 1..Len(Tr.ids) : ConcreteMatches(Tr.ids[i], Id(Tr.cls, Tr.mode, Tr.draws[i])) THEN "conf"
        ELSE "drift:pipeline"

ObsInit == tid \in 1..Len(T.traces) /\ fin = FALSE /\ name = Tr.cls /\ mode = Tr.mode /\ draw = "alpha"
ObsNext == /\ ~fin /\ fin' = TRUE /\ UNCHANGED <<tid, name, mode, draw>>
           /\ PrintT(<<"VERDICT", tid, Clause, 0, Conf>>)
====
