INIT Init
NEXT Next
