---- MODULE Obs_C22 ----
(* Property observer for C22 over what a user can see: which factory calls happened (harness-owned   *)
(* factories number the objects they return and know the step invocation they were called for),       *)
(* which objects each step body received, and how each invocation / run ended.  Literal transcription: *)
(*   cached_once        a cached resource is created once per workflow instance and the same object   *)
(*                      is injected into every step                                                   *)
(*   fresh_per_invocation  a non-cached resource is created fresh per step invocation (one object per *)
(*                      invocation) and that object is used only within that invocation's resolution  *)
(*   cycle_reported     an invocation that needs a resource on a dependency cycle never gets its      *)
(*                      step body run; when it ends, it ends with the cycle error                     *)
(*   no_false_cycle     with an acyclic dependency graph nobody gets a cycle error                    *)
(* Two verdicts per trace: the first failing clause, and the first failing clause when failures of   *)
(* the known shapes (cause "overlapping_invocations") are skipped, so that a different failure hidden *)
(* behind them is still reported.                                                                     *)
EXTENDS Naturals, Sequences, FiniteSets, TLC, Json, IOUtils

T == JsonDeserialize(IOEnv.TRACE_FILE)
VARIABLES tid, l, v1, v2
Tr == T.traces[tid]
Prog == Tr.prog
Names == DOMAIN Prog.deps
Procs == DOMAIN Prog.params

InSeq(x, s) == \E k \in 1..Len(s) : s[k] = x
Edge(a, b) == InSeq(b, Prog.deps[a])
RECURSIVE ReachN(_, _)
ReachN(S, k) == IF k = 0 THEN S ELSE ReachN(S \cup {b \in Names : \E a \in S : Edge(a, b)}, k - 1)
OnCycle(n) == n \in ReachN({b \in Names : Edge(n, b)}, Cardinality(Names))
Needs(p) == ReachN({Prog.params[p][k] : k \in 1..Len(Prog.params[p])}, Cardinality(Names))
Cyclic(p) == \E n \in Needs(p) : OnCycle(n)
Acyclic == \A n \in Names : ~OnCycle(n)

ObjsOf(e, n) == {k \in 1..Len(e.post.objs) : e.post.objs[k].name = n}
InjUsers(e, k) == {p \in Procs : InSeq(k, e.post.inj[p])}
DepUsers(e, k) == {e.post.objs[j].by : j \in {j \in 1..Len(e.post.objs) : InSeq(k, e.post.objs[j].deps)}}
Users(e, k) == InjUsers(e, k) \cup (DepUsers(e, k) \ {"?"})

CachedOnce(e) == Acyclic => \A n \in Names : Prog.cache[n] =>
   /\ Cardinality(ObjsOf(e, n)) <= 1
   /\ \A p \in Procs : \A i \in 1..Len(e.post.inj[p]) : Prog.params[p][i] = n => e.post.inj[p][i] \in ObjsOf(e, n)

Foreign(e, k) == IF e.post.objs[k].by = "?" THEN {} ELSE Users(e, k) \ {e.post.objs[k].by}
FreshBad(e) == {k \in 1..Len(e.post.objs) : ~Prog.cache[e.post.objs[k].name]
                   /\ (Foreign(e, k) # {} \/ Cardinality(InjUsers(e, k)) > 1)}
TwiceBad(e) == \E n \in Names : ~Prog.cache[n] /\ \E p \in Procs :
                   Cardinality({k \in ObjsOf(e, n) : e.post.objs[k].by = p}) > 1
\* also in programs with a dependency cycle: what a resolution that ended with the cycle error had created must not
\* reach another invocation
Fresh(e) == FreshBad(e) = {} /\ ~TwiceBad(e)
FreshCause(e) == IF ~TwiceBad(e) /\ \A k \in FreshBad(e) : \A p \in (Users(e, k) \cup InjUsers(e, k)) : e.post.overlap[p]
                   THEN "overlapping_invocations" ELSE "other"

Ended(s) == s \notin {"idle", "blocked", "waiting"}
CycleReported(e) == \A p \in Procs : Cyclic(p) =>
   /\ e.post.status[p] # "done"
   /\ Ended(e.post.status[p]) => (e.post.status[p] = "error" \/ e.post.run_error = "cycle")

FalseCycle(e) == {p \in Procs : e.post.status[p] = "error"}
NoFalseCycle(e) == Acyclic => (FalseCycle(e) = {} /\ e.post.run_error # "cycle")
FalseCycleCause(e) == IF (\A p \in FalseCycle(e) : e.post.overlap[p])
                         /\ (e.post.run_error = "cycle" => \A p \in Procs : e.post.overlap[p])
                        THEN "overlapping_invocations" ELSE "other"

\* an invocation may wait for another one (e.g. for a resource being created), but only while some
\* invocation can still make progress
NoOtherFailure(e) == /\ \A p \in Procs : e.post.status[p] \notin {"failed", "lost"}
                     /\ (\E p \in Procs : e.post.status[p] = "waiting") => (\E q \in Procs : e.post.status[q] = "blocked")
                     /\ e.post.run_error # "other"

Carved(carve, c) == carve /\ c = "overlapping_invocations"

Result(i, carve) == LET e == Tr.events[i] IN
   IF ~NoOtherFailure(e) THEN <<"unexpected_failure", "-">>
   ELSE IF ~CachedOnce(e) THEN <<"cached_once", "-">>
   ELSE IF ~CycleReported(e) THEN <<"cycle_reported", "-">>
   ELSE IF ~NoFalseCycle(e) /\ ~Carved(carve, FalseCycleCause(e)) THEN <<"no_false_cycle", FalseCycleCause(e)>>
   ELSE IF ~Fresh(e) /\ ~Carved(carve, FreshCause(e)) THEN <<"fresh_per_invocation", FreshCause(e)>>
   ELSE <<"ok", "-">>

\* two verdicts per trace in one pass: v1 = first failing clause; v2 = first failing clause when failures of the
\* known shapes are skipped
Init == tid \in 1..Len(T.traces) /\ l = 1 /\ v1 = <<"ok", 0, "-">> /\ v2 = <<"ok", 0, "-">>
Upd(v, carve) == IF v[1] # "ok" THEN v ELSE LET r == Result(l, carve) IN <<r[1], l, r[2]>>
Step == /\ l <= Len(Tr.events) /\ (v1[1] = "ok" \/ v2[1] = "ok")
        /\ v1' = Upd(v1, FALSE) /\ v2' = Upd(v2, TRUE)
        /\ l' = l + 1 /\ UNCHANGED tid
Done == /\ (l > Len(Tr.events) \/ (v1[1] # "ok" /\ v2[1] # "ok"))
        /\ PrintT(<<"VERDICT", tid, v1[1], v1[2], v1[3], v2[1], v2[2], v2[3]>>)
        /\ UNCHANGED <<tid, l, v1, v2>>
Next == Step \/ Done
====
