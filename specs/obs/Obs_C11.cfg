INIT Init
NEXT Next
