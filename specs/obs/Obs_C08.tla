------------------------------ MODULE Obs_C08 ------------------------------
(* C08: when a step exhausts its retries the StepFailedEvent goes to the @catch_error handler      *)
(* that lists the step, otherwise to the wildcard handler, never to a handler for a handler step;  *)
(* each handler is entered at most max_recoveries times along one event lineage, after which (or   *)
(* with no owner) the run fails with the original exception and a WorkflowFailedEvent.  The        *)
(* routing is the same whether or not graph validation is disabled.                                *)
(* Observed: handler body starts (the StepFailedEvent they received; `depth` = how many handler    *)
(* entries lie on the lineage of an event, read off its identity), failures of bodies, the         *)
(* WorkflowFailedEvent.  Owner(s) is computed here from the declared handlers only.                *)
EXTENDS Integers, Sequences, FiniteSets, TLC, Json, IOUtils

T == JsonDeserialize(IOEnv.TRACE_FILE)
VARIABLES tid, l, st, verdict
\* clauses switched off for this pass (known findings: lets the remaining clauses be judged on the same trace)
Tol == IF "tolerate" \in DOMAIN T THEN {T.tolerate[i] : i \in 1..Len(T.tolerate)} ELSE {}
Tr == T.traces[tid]
C == Tr.cfg
Steps == {C.order[i] : i \in 1..Len(C.order)}
Set(sq) == {sq[i] : i \in 1..Len(sq)}
Handlers == {s \in Steps : C.steps[s].role = "catch_error"}
Scoped(s) == {h \in Handlers : C.steps[h].for_steps # <<"*">> /\ s \in Set(C.steps[h].for_steps)}
Wild == {h \in Handlers : C.steps[h].for_steps = <<"*">>}
Owner(s) == IF s \in Handlers THEN "none"
            ELSE IF Scoped(s) # {} THEN CHOOSE h \in Scoped(s) : TRUE
            ELSE IF Wild # {} THEN CHOOSE h \in Wild : TRUE ELSE "none"

St0 == [depth |-> [s \in Steps |-> 0], lastexc |-> [s \in Steps |-> "none"], bad |-> "ok"]

Apply(s, r) ==
  CASE r.e = "step_start" /\ r.ty = "Failed" ->
         LET src == r.sf.step IN
         [s EXCEPT !.depth[r.step] = r.depth,
                   !.bad = IF src \in Handlers THEN "handler_entered_for_a_handler_step"
                           ELSE IF Owner(src) # r.step THEN "routed_to_wrong_handler"
                           ELSE IF r.depth > C.steps[r.step].max_rec THEN "handler_entered_beyond_max_recoveries"
                           ELSE IF r.sf.exc # s.lastexc[src] THEN "handler_got_wrong_exception"
                           ELSE @]
    [] r.e = "step_start" -> [s EXCEPT !.depth[r.step] = r.depth]
    [] r.e = "step_end" /\ r.failed -> [s EXCEPT !.lastexc[r.step] = r.exc]
    [] r.e = "pub" /\ r.p.k = "failed" ->
         LET src == r.p.step
             h == Owner(src)
         IN [s EXCEPT !.bad = IF h # "none" /\ s.depth[src] < C.steps[h].max_rec
                                THEN (IF C.validation THEN "failure_not_routed_to_owner" ELSE "failure_not_routed_to_owner_validation_disabled")
                              ELSE IF r.p.exc # s.lastexc[src] THEN "run_failed_with_other_exception"
                              ELSE @]
    [] OTHER -> s

Init == tid \in 1..Len(T.traces) /\ l = 1 /\ st = St0 /\ verdict = "ok"
Step == /\ verdict = "ok" /\ l <= Len(Tr.log)
        /\ st' = LET a == Apply(st, Tr.log[l]) IN [a EXCEPT !.bad = IF @ \in Tol THEN "ok" ELSE @]
        /\ verdict' = st'.bad
        /\ l' = l + 1 /\ UNCHANGED tid
Done == /\ (verdict # "ok" \/ l > Len(Tr.log))
        /\ PrintT(<<"VERDICT", tid, verdict, l - 1>>)
        /\ UNCHANGED <<tid, l, st, verdict>>
Next == Step \/ Done
=============================================================================
