CONSTANTS
  Dev_PowOverflow = TRUE
INIT Init
NEXT Next
