CONSTANTS
  Dev_HitlExactClass = TRUE
INIT Init
NEXT Next
