INIT Init
NEXT Next
