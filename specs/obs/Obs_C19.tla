---- MODULE Obs_C19 ----
(* Property observer for C19 over histories recorded from the real InMemoryStateStore and      *)
(* SqliteStateStore (harness/drivers/state_store.py).                                           *)
(*                                                                                              *)
(* T.fams    family name -> [kind |-> "dict" | "typed", ppaths |-> paths read by a probe]       *)
(* T.traces  [fam, ops |-> <<o1, ..>>, memory |-> <<e1, ..>>, sqlite |-> <<e1, ..>>, same]      *)
(*           o: operation as enumerated by StateStore.tla; e = [r |-> returned value / raised,  *)
(*           pre, post |-> store contents read through get_state() around a snapshot mutation]  *)
(*                                                                                              *)
(* Clauses (literal transcription of the statement):                                            *)
(*   snapshot_isolation   changing a snapshot's top-level key/field changed the store           *)
(*   values               a call returned something else than the plain nested-dict model       *)
(*                        (StateTree.tla with every deviation switched off)                     *)
(* For a failing trace the observer also says which single deviation of StateStore.tla          *)
(* (shares / numtop / freshrow) reproduces everything the store returned up to and including    *)
(* the failing call -- that is the cause feature of the finding key -- and how long a prefix    *)
(* the as-coded model (all deviations on) reproduces (conformance; evidence, not a verdict).    *)
EXTENDS StateTree, Json, IOUtils

T == JsonDeserialize(IOEnv.TRACE_FILE)

VARIABLES tid, be, l, ms, alive, fail, conf
vars == <<tid, be, l, ms, alive, fail, conf>>

Singles == <<"shares", "numtop", "freshrow">>
Variants == {"strict", "shares", "numtop", "freshrow", "ascoded"}
Tr == T.traces[tid]
Fam == T.fams[Tr.fam]
Cfg(v) == [kind |-> Fam.kind, be |-> be,
           shares |-> v \in {"shares", "ascoded"},
           numtop |-> v \in {"numtop", "ascoded"},
           freshrow |-> v \in {"freshrow", "ascoded"}]

Evs == IF be = "sqlite" /\ ~Tr.same THEN Tr.sqlite ELSE Tr.memory
NoFail == [clause |-> "ok", l |-> 0, cause |-> ""]

Init == /\ tid \in 1..Len(T.traces)
        /\ be \in {"memory", "sqlite"}
        /\ l = 1
        /\ ms = [v \in Variants |-> InitState(Cfg(v))]
        /\ alive = [v \in Variants |-> TRUE]
        /\ fail = NoFail
        /\ conf = 0

\* The whole step is computed by one state-level operator and bound by a quantifier: TLC does not
\* memoise LET definitions while it enumerates successor states, it does inside a plain evaluation.
StepRes ==
  LET o == Tr.ops[l]
      e == Evs[l]
      a == TLCEval([v \in Variants |-> Apply(Cfg(v), ms[v], o, Fam.ppaths)])
      m == TLCEval([v \in Variants |->
              /\ a[v].ret = e.r
              /\ (o.op = "mutate" => (e.pre = ms[v].root /\ e.post = a[v].st.root))])
      al == TLCEval([v \in Variants |-> alive[v] /\ m[v]])
      clause == IF o.op = "mutate" /\ e.pre # e.post THEN "snapshot_isolation"
                ELSE IF ~m["strict"] THEN "values"
                ELSE "ok"
      cause == IF \E i \in 1..Len(Singles) : al[Singles[i]]
                 THEN Singles[CHOOSE i \in 1..Len(Singles) :
                                al[Singles[i]] /\ \A j \in 1..(i - 1) : ~al[Singles[j]]]
                 ELSE IF al["ascoded"] THEN "combined" ELSE "unexplained"
  IN [ms |-> [v \in Variants |-> a[v].st],
      alive |-> al,
      fail |-> IF fail.clause = "ok" /\ clause # "ok"
                 THEN [clause |-> clause, l |-> l, cause |-> cause] ELSE fail,
      conf |-> IF al["ascoded"] THEN l ELSE conf]

Step ==
  /\ l <= Len(Tr.ops)
  /\ \E r \in {StepRes} : ms' = r.ms /\ alive' = r.alive /\ fail' = r.fail /\ conf' = r.conf
  /\ l' = l + 1
  /\ UNCHANGED <<tid, be>>

Done == /\ l > Len(Tr.ops)
        /\ PrintT(<<"VERDICT", tid, be, fail.clause, fail.l, fail.cause, conf, Tr.same>>)
        /\ UNCHANGED vars

Next == Step \/ Done
====
