---- MODULE Obs_C29 ----
(* Property observer for C29 over what a user of the two utilities can see: what the input streams   *)
(* produced (harness-owned generators: items, arrival times, how each ended) and what the merged /    *)
(* debounced stream yielded or raised.  Literal transcription of the statement.                       *)
(*   kind = "merge":    every item of every input exactly once, each input's order preserved, an      *)
(*                      input's error re-raised (after that input's own earlier items); the stream    *)
(*                      ends when nothing is left to do                                               *)
(*   kind = "debounce": every input item exactly once; first the initial burst sorted by key, then    *)
(*                      the later items in arrival order.  "Initial burst": the statement does not    *)
(*                      say where it ends, so any split point is accepted as long as it contains at   *)
(*                      least the items that arrived strictly before the moment W at which the        *)
(*                      documented window (debounce D after the last item, at most M) closes, and at  *)
(*                      most the items that arrived up to W: an item arriving after the window has    *)
(*                      closed is a later item and keeps its arrival position.                        *)
EXTENDS Naturals, Sequences, FiniteSets, TLC, Json, IOUtils

T == JsonDeserialize(IOEnv.TRACE_FILE)
VARIABLES tid, l, verdict, cause
Tr == T.traces[tid]

----------------------------------------------------------------------------
(* merge *)
Srcs == LET TT == T IN {TT.srcs[i] : i \in 1..Len(TT.srcs)}
OutOf(o, s) == SelectSeq(o, LAMBDA x : x.s = s)
MOrder(e) == /\ \A k \in 1..Len(e.post.out) : e.post.out[k].s \in Srcs
             /\ \A s \in Srcs : LET o == OutOf(e.post.out, s) IN
                   /\ Len(o) <= Tr.len[s]
                   /\ \A k \in 1..Len(o) : o[k].i = k
MComplete(e) == (e.post.result = "ended") =>
                   \A s \in Srcs : Tr.term[s] = "end" /\ Len(OutOf(e.post.out, s)) = Tr.len[s]
MError(e) == /\ (e.post.result = "raised") =>
                   /\ e.post.exc \in Srcs /\ Tr.term[e.post.exc] = "err"
                   /\ Len(OutOf(e.post.out, e.post.exc)) = Tr.len[e.post.exc]
             /\ (e.post.result = "ended") => e.post.raised = <<>>
MProgress(e) == (e.post.enabled = 0) => e.post.mpc = "closed"
MPrefix(i) == i > 1 => LET a == Tr.events[i-1].post.out b == Tr.events[i].post.out IN
                 Len(a) <= Len(b) /\ \A k \in 1..Len(a) : a[k] = b[k]
MClause(i) == LET e == Tr.events[i] IN
   IF ~MOrder(e) \/ ~MPrefix(i) THEN "order_once"
   ELSE IF ~MComplete(e) THEN "complete"
   ELSE IF ~MError(e) THEN "error_reraised"
   ELSE IF ~MProgress(e) THEN "progress"
   ELSE "ok"

----------------------------------------------------------------------------
(* debounce *)
N == Len(Tr.t)
Min(a, b) == IF a < b THEN a ELSE b
ByKey(s) == SortSeq(s, LAMBDA a, b : Tr.key[a] < Tr.key[b])
Ids(a, b) == [i \in 1..(IF b >= a THEN b - a + 1 ELSE 0) |-> a + i - 1]
ToSet(s) == {s[i] : i \in 1..Len(s)}
\* earliest close of the window: D after the last item that arrived while it was open, at most M
RECURSIVE Win(_, _)
Win(i, c) == IF i > N THEN Min(c, T.M)
             ELSE IF Tr.t[i] < Min(c, T.M) THEN Win(i + 1, Tr.t[i] + T.D) ELSE Win(i + 1, c)
W == Win(1, T.D)
NEarly == Cardinality({i \in 1..N : Tr.t[i] < W})
\* latest close: an item arriving at the very instant the window would close may still be taken into it and extend it
RECURSIVE WinLe(_, _)
WinLe(i, c) == IF i > N THEN Min(c, T.M)
               ELSE IF Tr.t[i] <= Min(c, T.M) THEN WinLe(i + 1, Tr.t[i] + T.D) ELSE WinLe(i + 1, c)
WLate == WinLe(1, T.D)
NLate == Cardinality({i \in 1..N : Tr.t[i] <= WLate})
\* arrival order as the source bodies saw it
Arr == [i \in 1..Len(Tr.arrived) |-> Tr.arrived[i][1]]
SplitOK(o, arr, kmin) == \E k \in kmin..Min(NLate, Len(arr)) :
     o = ByKey(SubSeq(arr, 1, k)) \o SubSeq(arr, k + 1, Len(arr))
DOnce == /\ \A i, j \in 1..Len(Tr.out) : i # j => Tr.out[i] # Tr.out[j]
         /\ ToSet(Tr.out) \subseteq ToSet(Arr)
         /\ Tr.closed => ToSet(Tr.out) = 1..N
DTerminates == Tr.closed /\ Tr.error = ""
DBurst == SplitOK(Tr.out, Arr, NEarly)
\* cause feature of a burst violation: the items yielded ahead of the sorted burst all arrived exactly
\* at the instant the window closed, and the rest of the output is in order
EdgePrefix == \E p \in 1..Len(Tr.out) :
     /\ \A q \in 1..p : Tr.t[Tr.out[q]] = W
     /\ LET rest == SubSeq(Tr.out, p + 1, Len(Tr.out))
            arr2 == SelectSeq(Arr, LAMBDA x : x \notin {Tr.out[q] : q \in 1..p})
        IN SplitOK(rest, arr2, NEarly)
DClause == IF ~DTerminates THEN "terminates"
           ELSE IF ~DOnce THEN "exactly_once"
           ELSE IF ~DBurst THEN "burst_first"
           ELSE "ok"
DCause == IF DTerminates /\ DOnce /\ ~DBurst
            THEN (IF EdgePrefix THEN "item_at_window_edge" ELSE "other") ELSE "-"

----------------------------------------------------------------------------
NEvents == IF T.kind = "merge" THEN Len(Tr.events) ELSE 1
Init == tid \in 1..Len(T.traces) /\ l = 1 /\ verdict = "ok" /\ cause = "-"
Step == /\ verdict = "ok" /\ l <= NEvents
        /\ verdict' = IF T.kind = "merge" THEN MClause(l) ELSE DClause
        /\ cause' = IF T.kind = "merge" THEN "-" ELSE DCause
        /\ l' = l + 1 /\ UNCHANGED tid
Done == /\ (verdict # "ok" \/ l > NEvents)
        /\ PrintT(<<"VERDICT", tid, verdict, l - 1, cause>>)
        /\ UNCHANGED <<tid, l, verdict, cause>>
Next == Step \/ Done
====
