---- MODULE Obs_C27 ----
(* Property observer for C27 (reduced claim: the repository's own replay mechanism).  Per run, for every   *)
(* incarnation (the first execution and each recovery): the journal found at its start, the task keys that  *)
(* wait_for_next_task returned to the control loop, in order, and whether each returned task had finished;  *)
(* and the journal at the end.  Statement: "the recovered control loop observes the same task completion    *)
(* order as recorded".                                                                                      *)
EXTENDS Naturals, Sequences, FiniteSets, TLC, Json, IOUtils

T == JsonDeserialize(IOEnv.TRACE_FILE)
VARIABLES tid, fin
Tr == T.traces[tid]
Incs == Tr.incarnations
Min(a, b) == IF a < b THEN a ELSE b
IsPrefix(s, t) == Len(s) <= Len(t) /\ \A i \in 1..Len(s) : s[i] = t[i]

\* what the journal must be after an incarnation: the recorded order, extended by what was observed beyond it
After(i) == IF Len(Incs[i].returned) >= Len(Incs[i].start) THEN Incs[i].returned ELSE Incs[i].start
NextStart(i) == IF i < Len(Incs) THEN Incs[i + 1].start ELSE Tr.journal

SameOrder(i) == \A j \in 1..Min(Len(Incs[i].returned), Len(Incs[i].start)) : Incs[i].returned[j] = Incs[i].start[j]
Finished(i) == \A j \in 1..Len(Incs[i].done_flags) : Incs[i].done_flags[j]
Kept(i) == NextStart(i) = After(i)
First(P(_)) == IF \E i \in 1..Len(Incs) : ~P(i) THEN CHOOSE i \in 1..Len(Incs) : ~P(i) /\ \A j \in 1..(i - 1) : P(j) ELSE 0

Verdict ==
  IF First(SameOrder) # 0 THEN <<"replay_order", First(SameOrder)>>
  ELSE IF First(Finished) # 0 THEN <<"returned_unfinished_task", First(Finished)>>
  ELSE IF First(Kept) # 0 THEN <<"recorded_order_not_kept", First(Kept)>>
  ELSE <<"ok", Len(Incs)>>

Init == tid \in 1..Len(T.traces) /\ fin = FALSE
Next == /\ ~fin /\ fin' = TRUE /\ UNCHANGED tid
        /\ PrintT(<<"VERDICT", tid, Verdict[1], Verdict[2]>>)
====
