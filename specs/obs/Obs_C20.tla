---- MODULE Obs_C20 ----
(* Property observer for C20 over executions recorded from the real state stores              *)
(* (harness/drivers/state_store_conc.py).  Only what a user of the store can see is used:      *)
(* which operations were issued, when each completed (a global sequence counter owned by the    *)
(* harness), and store contents read through get_state().                                       *)
(*                                                                                              *)
(* trace:  kind, ops = <<[p, i, op, k, v, enter, done, before, after]>>, final                   *)
(*   enter   edit: sequence number when the block was entered (its snapshot taken)              *)
(*   done    sequence number when the call returned                                             *)
(*   before  edit: store contents read inside the block just before its write and commit        *)
(*   after   store contents read right after the call returned                                  *)
(*                                                                                              *)
(* Clauses (literal transcription of the statement):                                            *)
(*   no_overwrite  a write W of another task completed while edit E was open (E entered before   *)
(*                 W completed, E committed after), and E's commit did not preserve it: the      *)
(*                 store after E is not E's update applied to the store as it was just before    *)
(*   serial        the final state is not the result of any serial execution of the same         *)
(*                 operations (every order, each edit_state block one operation)                 *)
(* Cause feature of the finding key: the kind of the write that completed inside an open edit.   *)
EXTENDS Naturals, Sequences, FiniteSets, TLC, Json, IOUtils

T == JsonDeserialize(IOEnv.TRACE_FILE)

VARIABLES tid
Tr == T.traces[tid]
Ops == Tr.ops
Keys == {"a", "b"}
NoFun == [k \in {} |-> 0]
Init0 == IF Tr.kind = "typed" THEN [k \in Keys |-> 0] ELSE NoFun
Put(f, k, v) == (k :> v) @@ f
Get(f, k) == IF k \in DOMAIN f THEN f[k] ELSE 0

\* plain-dict meaning of one operation executed alone
Eff(o, c) ==
  CASE o.op = "set" -> Put(c, o.k, o.v)
    [] o.op = "setstate" -> IF Tr.kind = "typed" THEN [k \in Keys |-> IF k = o.k THEN o.v ELSE 0]
                            ELSE (o.k :> o.v)
    [] o.op = "setparent" -> Put(c, "a", o.v)
    [] o.op = "clear" -> Init0
    [] o.op = "edit" -> Put(c, o.k, Get(c, o.k) + o.v)

RECURSIVE SerialFrom(_, _)
SerialFrom(c, rest) ==
  IF rest = {} THEN {c}
  ELSE UNION {SerialFrom(Eff(Ops[x], c), rest \ {x}) : x \in rest}
Serial == SerialFrom(Init0, 1..Len(Ops))

Window(e, w) == /\ Ops[e].op = "edit" /\ Ops[w].p # Ops[e].p
                /\ Ops[w].done > 0 /\ Ops[e].done > 0
                /\ Ops[e].enter < Ops[w].done /\ Ops[w].done < Ops[e].done
Overwrites(e, w) == Window(e, w) /\ Ops[e].after # Eff(Ops[e], Ops[e].before)

\* the public call behind an operation (parent-typed and same-typed set_state are one call)
Call(o) == IF o.op \in {"setstate", "setparent"} THEN "set_state" ELSE o.op

Verdict ==
  LET I == 1..Len(Ops)
      bad == {x \in I \X I : Overwrites(x[1], x[2])}
      win == {x \in I \X I : Window(x[1], x[2])}
      pick(S) == CHOOSE x \in S : \A y \in S : x[1] < y[1] \/ (x[1] = y[1] /\ x[2] <= y[2])
  IN IF ~Tr.complete THEN <<"incomplete", 0, "">>
     ELSE IF bad # {} THEN <<"no_overwrite", pick(bad)[1], Call(Ops[pick(bad)[2]]) \o "_during_edit">>
     ELSE IF Tr.final \notin Serial
            THEN <<"serial", 0, IF win # {} THEN Call(Ops[pick(win)[2]]) \o "_during_edit" ELSE "unexplained">>
     ELSE <<"ok", 0, "">>

Init == tid \in 1..Len(T.traces)
Next == /\ \E v \in {Verdict} : PrintT(<<"VERDICT", tid, v[1], v[2], v[3]>>)
        /\ UNCHANGED tid
====
