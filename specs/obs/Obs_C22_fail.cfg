INIT Init
NEXT Next
