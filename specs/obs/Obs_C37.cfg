INIT Init
NEXT Next
