INIT Init
NEXT Next
