---- MODULE Obs_C17 ----
(* Property observer for C17 over what a user of WorkflowClient.get_workflow_events sees: the events the   *)
(* stream yielded (payload identity `ev`, and stream.last_sequence read right after the yield), how the     *)
(* iteration ended, and - from the operator's side - which events of the run the subscription streams       *)
(* (`visible`, in sequence order; sequence = event index), the start cursor, and how many consecutive       *)
(* connection failures happened.  Literal transcription of the statement:                                   *)
(*   "started from a numeric cursor yields every later event of the run exactly once and in sequence order, *)
(*    even when the connection drops (up to the reconnect limit) at any point, and last_sequence always     *)
(*    equals the sequence of the last event yielded".                                                       *)
EXTENDS Naturals, Sequences, FiniteSets, TLC, Json, IOUtils

T == JsonDeserialize(IOEnv.TRACE_FILE)
VARIABLES tid, fin
Tr == T.traces[tid]

Wanted == SelectSeq(Tr.visible, LAMBDA e : e > Tr.cursor)
Y == Tr.yields
WantedSet == {Wanted[i] : i \in 1..Len(Wanted)}
Within == Tr.max_consec <= Tr.max_attempts          \* the premise "up to the reconnect limit"

\* index of the first yield falsifying a per-yield predicate (0 = none)
First(P(_)) == IF \E i \in 1..Len(Y) : ~P(i) THEN CHOOSE i \in 1..Len(Y) : ~P(i) /\ \A j \in 1..(i-1) : P(j) ELSE 0

Later(i) == Y[i].ev \in WantedSet                                     \* an event of the run after the cursor
Once(i) == \A j \in 1..(i-1) : Y[j].ev # Y[i].ev                      \* exactly once
Ordered(i) == i = 1 \/ Y[i-1].ev < Y[i].ev                            \* in sequence order
NoGap(i) == i <= Len(Wanted) /\ Y[i].ev = Wanted[i]                   \* every later event (none skipped)
LastSeq(i) == Y[i].seq = Y[i].ev                                      \* last_sequence = sequence of last yielded

Verdict ==
  IF Tr.last0 # Tr.cursor THEN <<"last_sequence_initial", 0>>
  ELSE IF First(Later) # 0 THEN <<"not_a_later_event", First(Later)>>
  ELSE IF First(Once) # 0 THEN <<"duplicate", First(Once)>>
  ELSE IF First(Ordered) # 0 THEN <<"order", First(Ordered)>>
  ELSE IF First(NoGap) # 0 THEN <<"skipped", First(NoGap)>>
  ELSE IF First(LastSeq) # 0 THEN <<"last_sequence", First(LastSeq)>>
  ELSE IF Tr.last_end # (IF Len(Y) = 0 THEN Tr.cursor ELSE Y[Len(Y)].ev) THEN <<"last_sequence_final", Len(Y)>>
  ELSE IF Tr.outcome = "done" /\ Len(Y) # Len(Wanted) THEN <<"ended_before_all_events", Len(Y)>>
  ELSE IF Tr.outcome = "done" /\ Tr.terminal = 0 THEN <<"ended_before_run_complete", Len(Y)>>
  ELSE IF Tr.outcome = "failed" /\ Within THEN <<"failed_within_reconnect_limit", Len(Y)>>
  ELSE <<"ok", Len(Y)>>

Init == tid \in 1..Len(T.traces) /\ fin = FALSE
Next == /\ ~fin /\ fin' = TRUE /\ UNCHANGED tid
        /\ PrintT(<<"VERDICT", tid, Verdict[1], Verdict[2]>>)
====
