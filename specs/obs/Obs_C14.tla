------------------------------ MODULE Obs_C14 ------------------------------
(* C14: a retry that is waiting out its delay, and a wait_for_event timeout that has not yet fired, *)
(* still take effect when the server releases the run from memory for idleness or restarts and       *)
(* reloads it: the step is retried, or the waiting step gets its TimeoutError, and the run does not  *)
(* stay running forever.                                                                              *)
(* Observed per case (virtual time driven far beyond every deadline): whether the run was released / *)
(* restarted, whether the failing step's body ran again, whether TimeoutError was raised in the      *)
(* waiting body, and the final stored handler status.                                                 *)
EXTENDS Integers, Sequences, FiniteSets, TLC, Json, IOUtils
T == JsonDeserialize(IOEnv.TRACE_FILE)
VARIABLES tid, l, verdict
Tol == IF "tolerate" \in DOMAIN T THEN {T.tolerate[i] : i \in 1..Len(T.tolerate)} ELSE {}
Tr == T.traces[tid]
Pick(cands) ==
  LET idx == {i \in 1..Len(cands) : cands[i][2] /\ cands[i][1] \notin Tol}
  IN IF idx = {} THEN "ok" ELSE cands[CHOOSE i \in idx : \A j \in idx : i <= j][1]
Clause(r) == Pick(<<
  <<"pending_retry_never_took_effect", r.kind = "retry" /\ ~r.retried>>,
  <<"pending_waiter_timeout_never_took_effect", r.kind = "waiter" /\ ~r.timed_out>>,
  <<"run_stays_running_forever", r.status = "running">> >>)
Init == tid \in 1..Len(T.traces) /\ l = 1 /\ verdict = "ok"
Step == /\ verdict = "ok" /\ l <= Len(Tr.log) /\ verdict' = Clause(Tr.log[l]) /\ l' = l + 1 /\ UNCHANGED tid
Done == /\ (verdict # "ok" \/ l > Len(Tr.log)) /\ PrintT(<<"VERDICT", tid, verdict, l - 1>>) /\ UNCHANGED <<tid, l, verdict>>
Next == Step \/ Done
=============================================================================
