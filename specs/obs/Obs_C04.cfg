INIT Init
NEXT Next
