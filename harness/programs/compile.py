"""Program description (dict, DESIGN.md Appendix B) -> real Workflow subclass.

Every step body is one generic interpreter of the step's `body` op list; suspension points
("gate") and final outcomes are controlled by the driver through the `Rig` object."""
from __future__ import annotations

import asyncio
from typing import Optional, Union

from harness.env import stubimport

stubimport.install()

from workflows import Context, Workflow, step  # noqa: E402
from workflows.decorators import catch_error  # noqa: E402
from workflows.retry_policy import (retry_policy as mk_retry_policy, stop_after_attempt, stop_after_delay,  # noqa: E402
                                    wait_chain, wait_fixed, wait_exponential, wait_incrementing,
                                    retry_if_exception_type)
from harness.programs import events as E  # noqa: E402


class Rig:
    """Shared between the driver and the step bodies of one system."""

    def __init__(self):
        self.log = None            # callable(dict)
        self.gates = {}            # key -> future
        self.gate_order = []       # keys in creation order
        self.script = {}           # (step, uid, retry) -> outcome override
        self.loop = None
        self.live = {}             # step -> number of bodies currently executing
        self.wid_by_key = {}       # (step, uid, retry, nth) -> worker slot of that invocation (-1 if unknown)
        self.counters = {}         # (step, uid, retry) -> nth execution (collect re-runs, waiter replays)
        self.wid_of = None         # callable(step, event) -> worker slot of the invocation holding this event object, or -1

    def make_gate(self, key):
        f = self.loop.create_future()
        self.gates[key] = f
        self.gate_order.append(key)
        return f

    def open_gates(self):
        return [k for k in self.gate_order if not self.gates[k].done()]


class UserError(ValueError):
    pass


class OtherError(KeyError):
    pass


EXC = {"ValueError": UserError, "KeyError": OtherError}


class RaisingPolicy:
    """User retry code that raises (it runs inside the reducer)."""

    def next(self, elapsed_time, attempts, error):
        raise RuntimeError("retry policy bug")


def build_retry(r):
    if not r:
        return None
    if r.get("raising"):
        return RaisingPolicy()
    kw = {}
    stops = []
    if r.get("max") is not None:
        stops.append(stop_after_attempt(r["max"]))
    if r.get("stop_delay") is not None:
        if r.get("stop_delay_td"):
            import datetime as _dtm
            stops.append(stop_after_delay(_dtm.timedelta(milliseconds=int(r["stop_delay"] * 1000))))
        else:
            stops.append(stop_after_delay(r["stop_delay"]))
    if stops:
        s = stops[0]
        for x in stops[1:]:
            s = s | x
        # composition with a user's PLAIN callable that is the neutral element of the operator (always true for &, never
        # for |), on either side: the composed condition must behave exactly like the library condition alone
        comp = r.get("compose")
        if comp:
            yes = lambda attempts, elapsed_time, **kw_: True      # noqa: E731
            no = lambda attempts, elapsed_time, **kw_: False      # noqa: E731
            s = {"custom_and": lambda: yes & s, "and_custom": lambda: s & yes,
                 "custom_or": lambda: no | s, "or_custom": lambda: s | no}[comp]()
        kw["stop"] = s
    w = r.get("wait")
    if w:
        kind = w[0]
        if kind == "fixed":
            kw["wait"] = wait_fixed(w[1])
        elif kind == "fixed_td":
            import datetime as _dtm
            kw["wait"] = wait_fixed(_dtm.timedelta(milliseconds=w[1]))
        elif kind == "chain":
            kw["wait"] = wait_chain(*[wait_fixed(d) for d in w[1]])
        elif kind == "chain_incr":
            kw["wait"] = wait_chain(*([wait_fixed(d) for d in w[1]] + [wait_incrementing(start=w[2], increment=w[3], max=w[4])]))
        elif kind == "exp":
            kw["wait"] = wait_exponential(multiplier=w[1], exp_base=w[2], max=w[3])
        elif kind == "incr":
            kw["wait"] = wait_incrementing(start=w[1], increment=w[2], max=w[3])
    if r.get("retry_on"):
        rc = retry_if_exception_type(tuple(EXC[x] for x in r["retry_on"]))
        comp = r.get("compose")
        if comp:
            ryes = lambda error: True       # noqa: E731
            rno = lambda error: False       # noqa: E731
            rc = {"custom_and": lambda: ryes & rc, "and_custom": lambda: rc & ryes,
                  "custom_or": lambda: rno | rc, "or_custom": lambda: rc | rno}[comp]()
        kw["retry"] = rc
    return mk_retry_policy(**kw)


def _mk_body(sname, scfg, rig: Rig):
    ops = scfg["body"]

    async def body(self, ctx, ev):
        uid = E.uid_of(ev)
        ty = E.ty_of(ev)
        ri = ctx.retry_info()
        retry = ri.retry_number
        base = (sname, uid, retry)
        nth = rig.counters.get(base, 0)
        rig.counters[base] = nth + 1
        key = (sname, uid, retry, nth)
        live = rig.live            # the counters of the run this body belongs to (a resumed run gets fresh ones)
        live[sname] = live.get(sname, 0) + 1
        wid = -1
        if rig.wid_of is not None:
            try:
                wid = int(rig.wid_of(sname, ev))
            except Exception:  # noqa: BLE001
                wid = -1
        rig.wid_by_key[key] = wid
        sf = {"step": "", "attempts": -1, "elapsed_ms": -1, "exc": ""}
        if ty == "Failed":
            sf = {"step": ev.step_name, "attempts": int(ev.attempts), "elapsed_ms": int(round(ev.elapsed_seconds * 1000)),
                  "exc": type(ev.exception).__name__}
        rig.log({"e": "step_start", "step": sname, "uid": uid, "ty": ty, "retry": retry, "nth": nth, "sf": sf,
                 "sf_input": E.uid_of(ev.input_event) if ty == "Failed" else "",
                 "live": live[sname], "depth": uid.count("F("), "wid": wid,
                 "ri_elapsed_ms": int(round(ri.elapsed_seconds * 1000)),
                 "ri_last_exc": type(ri.last_exception).__name__ if ri.last_exception is not None else "none"})
        how = "?"
        last_set = []
        last_wait = ""
        try:
            for op in ops:
                o = op["op"]
                if op.get("only_ty") and op["only_ty"] != ty:
                    continue
                if op.get("only_k") is not None and int(getattr(ev, "k", 0)) != op["only_k"]:
                    continue
                if o == "gate":
                    if op.get("on_cancel_publish"):
                        try:
                            await rig.make_gate(key)
                        except asyncio.CancelledError:
                            # a step that reports on its way out (finally / except CancelledError)
                            ctx.write_event_to_stream(E.TYPES[op["on_cancel_publish"]](uid="%s!cancel:%s" % (uid, sname)))
                            await asyncio.sleep(0)
                            raise
                    else:
                        await rig.make_gate(key)
                elif o == "spin_publish":
                    # an actively running step: writes to the stream on every loop turn
                    for i in range(op.get("n", 5)):
                        ctx.write_event_to_stream(E.TYPES[op["ty"]](uid="%s!%s%d" % (uid, sname, i)))
                        await asyncio.sleep(0)
                elif o == "send":
                    for i in range(op.get("n", 1)):
                        cls = E.TYPES[op["ty"]]
                        if op.get("same"):       # equal-valued events (same uid, same payload)
                            ctx.send_event(cls(uid="%s.%s%s" % (uid, sname, op["ty"]), k=0), step=op.get("target"))
                        else:
                            j = i + int(op.get("uid_from", 0))       # (a second send op of the same type numbers on)
                            ctx.send_event(cls(uid="%s.%s%s%d" % (uid, sname, op["ty"], j), k=j), step=op.get("target"))
                elif o == "publish":
                    ctx.write_event_to_stream(E.TYPES[op["ty"]](uid="%s!%s" % (uid, sname)))
                elif o == "collect":
                    r = ctx.collect_events(ev, [E.TYPES[t] for t in op["expected"]], buffer_id=op.get("buf"))
                    last_set = [] if r is None else sorted(E.uid_of(x) for x in r)
                    rig.log({"e": "collect_ret", "step": sname, "uid": uid, "buf": op.get("buf") or "default",
                             "expected": list(op["expected"]),
                             "got": "none" if r is None else "list",
                             "uids": [] if r is None else [E.uid_of(x) for x in r],
                             "tys": [] if r is None else [E.ty_of(x) for x in r]})
                    if op.get("hold"):
                        # the step read its snapshot first and is still running when other results are applied
                        await rig.make_gate(key)
                    if r is None and not op.get("cont"):
                        how = "none"
                        return None
                elif o == "wait":
                    # "per_input": every input event waits under a waiter id of its own, requiring the answer's k to be ITS k
                    w_id = ("w:" + uid) if op.get("wid") == "per_input" else op.get("wid")
                    w_reqs = {"k": int(getattr(ev, "k", 0))} if op.get("reqs") == "input" else dict(op.get("reqs") or {})
                    try:
                        r = await ctx.wait_for_event(
                            E.TYPES[op["ty"]],
                            waiter_event=(E.Ask(uid="ask:%s:%s" % (sname, uid)) if op.get("wev") else None),
                            waiter_id=w_id,
                            requirements=w_reqs,
                            timeout=op.get("timeout"),
                        )
                    except asyncio.TimeoutError:
                        rig.log({"e": "wait_timeout", "step": sname, "uid": uid, "wid": w_id or ""})
                        if op.get("on_timeout") == "stop":
                            how = "stop"
                            from workflows.events import StopEvent
                            return StopEvent(result="timeout:" + uid)
                        raise
                    last_wait = E.uid_of(r)
                    rig.log({"e": "wait_ret", "step": sname, "uid": uid, "wid": w_id or "",
                             "want": op["ty"], "reqs": dict(w_reqs),
                             "got_ty": E.ty_of(r), "got_uid": E.uid_of(r), "got_k": int(getattr(r, "k", 0))})
                elif o == "fail":
                    if retry < op.get("until", 1 << 30):
                        raise EXC[op.get("exc", "ValueError")]("boom %s %s r%d" % (sname, uid, retry))
                elif o == "store_set":
                    # idempotent write: the key is derived from the input event
                    k = ("k_%s_%s" % (sname, uid)).replace(".", "_").replace(">", "_").replace(":", "_").replace("(", "_").replace(")", "_")
                    await ctx.store.set(k, last_wait if op.get("val") == "wait" else 1)      # ("wait": WHICH answer the wait returned)
                elif o == "store_count":
                    # NOT idempotent: one more key per execution (only for bodies that are never in flight at a quiescence
                    # point -- no gate -- so that no pause can legitimately make them run twice)
                    n_ = int(await ctx.store.get("c_" + sname, default=0)) + 1
                    await ctx.store.set("c_" + sname, n_)
                    k = ("k_%s_%s_x%d" % (sname, uid, n_)).replace(".", "_").replace(">", "_").replace(":", "_")
                    await ctx.store.set(k, 1)
                elif o in ("ret", "stop", "none", "junk"):
                    ov = rig.script.get(base)
                    if ov:
                        kind, _, arg = ov.partition(":")
                        if kind == "raise":
                            raise EXC[arg]("scripted %s %s r%d" % (sname, uid, retry))
                        o, op = kind, {"ty": arg}
                    if o == "ret":
                        how = "ret:" + op["ty"]
                        return E.TYPES[op["ty"]](uid="%s>%s" % (uid, sname))
                    if o == "stop":
                        how = "stop"
                        from workflows.events import StopEvent
                        if op.get("result") == "collected":
                            # the set handed out by collect_events (order-insensitive): what the run computed from it
                            return StopEvent(result="set:" + ",".join(last_set))
                        return StopEvent(result=op.get("result") or ("r:" + uid))
                    if o == "none":
                        how = "none"
                        return None
                    if o == "junk":
                        how = "junk"
                        return 42
            how = "none"
            return None
        except asyncio.CancelledError:
            how = "cancelled"
            raise
        except BaseException as ex:  # noqa: BLE001
            how = "raise:" + type(ex).__name__
            raise
        finally:
            live[sname] -= 1
            rig.log({"e": "step_end", "step": sname, "uid": uid, "retry": retry, "nth": nth, "how": how, "wid": wid})

    return body


def compile_program(prog: dict, rig: Rig):
    """Returns a Workflow subclass."""
    ns = {}
    for sname, scfg in prog["steps"].items():
        fn = _mk_body(sname, scfg, rig)
        fn.__name__ = sname
        fn.__qualname__ = "W." + sname
        acc = tuple(E.TYPES[t] for t in scfg["accepts"])
        rets = []
        declared = list(scfg.get("returns", []))
        for op in scfg["body"]:
            if op["op"] in ("send", "ret") and op["ty"] not in declared:
                declared.append(op["ty"])
            if op["op"] == "stop" and "Stop" not in declared:
                declared.append("Stop")
            if op["op"] == "wait" and op.get("on_timeout") == "stop" and "Stop" not in declared:
                declared.append("Stop")
            if op["op"] == "wait" and op.get("wev") and "Ask" not in declared:
                declared.append("Ask")
        if "None" not in declared:
            declared.append("None")
        for t in declared:
            rets.append(type(None) if t == "None" else E.TYPES[t])
        if not rets:
            rets = [type(None)]
        fn.__annotations__ = {
            "ctx": Context,
            "ev": acc[0] if len(acc) == 1 else Union[acc],
            "return": rets[0] if len(rets) == 1 else Union[tuple(rets)],
        }
        if scfg.get("role") == "catch_error":
            ns[sname] = catch_error(for_steps=scfg.get("for_steps"), max_recoveries=scfg.get("max_rec", 1))(fn)
        else:
            ns[sname] = step(num_workers=scfg.get("nw", 4), retry_policy=build_retry(scfg.get("retry")))(fn)
    return type("W", (Workflow,), ns)


def cfg_for_tla(prog: dict) -> dict:
    """The program's static configuration in the shape Reducer.tla's Cfg expects (times in ms)."""
    steps = {}
    for name, sc in prog["steps"].items():
        handler = sc.get("role") == "catch_error"
        r = sc.get("retry") if not handler else None
        if r:
            w = r.get("wait") or ["fixed", 5]
            if w[0] == "fixed":
                wait = {"k": "fixed", "a": int(w[1] * 1000), "b": 0, "c": 0, "ds": []}
            elif w[0] == "fixed_td":
                wait = {"k": "fixed", "a": int(w[1]), "b": 0, "c": 0, "ds": []}
            elif w[0] == "chain":
                wait = {"k": "chain", "a": 0, "b": 0, "c": 0, "ds": [int(d * 1000) for d in w[1]]}
            elif w[0] == "chain_incr":
                wait = {"k": "chain_incr", "a": int(w[2] * 1000), "b": int(w[3] * 1000), "c": int(w[4] * 1000),
                        "ds": [int(d * 1000) for d in w[1]]}
            elif w[0] == "exp":
                wait = {"k": "exp", "a": int(w[1] * 1000), "b": int(w[2]), "c": int(w[3] * 1000), "ds": []}
            else:
                wait = {"k": "incr", "a": int(w[1] * 1000), "b": int(w[2] * 1000), "c": int(w[3] * 1000), "ds": []}
            has_stop = r.get("max") is not None or r.get("stop_delay") is not None
            retry = {"kind": "raising" if r.get("raising") else "policy",
                     "max": int(r["max"]) if r.get("max") is not None else (-1 if has_stop else 3),
                     "stop_delay": int(r["stop_delay"] * 1000) if r.get("stop_delay") is not None else -1,
                     "retry_on": [EXC[x].__name__ for x in r["retry_on"]] if r.get("retry_on") else ["*"],
                     "wait": wait}
        else:
            retry = {"kind": "none", "max": -1, "stop_delay": -1, "retry_on": ["*"],
                     "wait": {"k": "fixed", "a": 0, "b": 0, "c": 0, "ds": []}}
        steps[name] = {
            "accepts": ["Failed"] if handler else list(sc["accepts"]),
            "nw": 1 if handler else int(sc.get("nw", 4)),
            "role": "catch_error" if handler else "step",
            "for_steps": (list(sc["for_steps"]) if sc.get("for_steps") is not None else ["*"]) if handler else ["-"],
            "max_rec": int(sc.get("max_rec", 1)),
            "retry": retry,
        }
    return {"order": sorted(prog["steps"]), "steps": steps, "validation": bool(prog.get("validation", True)),
            "timeout_ms": -1 if prog.get("timeout") is None else int(prog["timeout"] * 1000)}
