"""Scenario programs for the engine family (DESIGN.md Appendix B).  Each scenario is a family:
parameters are drawn from small grids so that one check covers many programs.

A scenario = dict(name, prog, ext=[(type, target)], tags=set)."""
from __future__ import annotations

import itertools

G = {"op": "gate"}


def fanout(nw=2, n=3, retry_max=None, delay=0, fail_until=0, timeout=None):
    """a fans out n events A to b (nw workers, optional retry); b returns B to c which collects n and stops."""
    b = {"accepts": ["A"], "nw": nw, "body": [G, {"op": "fail", "until": fail_until}, {"op": "ret", "ty": "B"}]}
    if retry_max is not None:
        b["retry"] = {"max": retry_max, "wait": ["fixed", delay]}
    return {"timeout": timeout, "steps": {
        "a": {"accepts": ["Start"], "nw": 1, "body": [{"op": "send", "ty": "A", "n": n}, G, {"op": "none"}]},
        "b": b,
        "c": {"accepts": ["B"], "nw": 1, "body": [G, {"op": "collect", "expected": ["B"] * n}, {"op": "stop"}]},
    }}


def pipeline(nw=1, retry_max=None, delay=0, fail_until=0, timeout=None, exc="ValueError", retry_on=None,
             stop_delay=None, wait=None):
    """Start -> a -> A -> b (may fail/retry) -> Stop."""
    b = {"accepts": ["A"], "nw": nw, "body": [G, {"op": "fail", "until": fail_until, "exc": exc}, {"op": "stop"}]}
    if retry_max is not None or stop_delay is not None or wait is not None:
        b["retry"] = {"max": retry_max, "wait": wait or ["fixed", delay]}
        if stop_delay is not None:
            b["retry"]["stop_delay"] = stop_delay
        if retry_on:
            b["retry"]["retry_on"] = retry_on
    return {"timeout": timeout, "steps": {
        "a": {"accepts": ["Start"], "nw": 1, "body": [G, {"op": "ret", "ty": "A"}]},
        "b": b,
    }}


def saturated_retry(wait, n=2, retry_max=3, nw=1):
    """a sends n events A to b (nw workers, always failing, growing retry delays): a retry that comes due while b is busy
    with the other event waits in b's queue before it runs."""
    p = fanout(nw, n, retry_max, 0, 99)
    p["steps"]["b"]["retry"]["wait"] = wait
    return p


def two_timers(gap_ms=30):
    """b and c both accept A and both fail; b's retry is due after 1 s, c's `gap_ms` later: two wake-ups of one run close
    together -- each retry waits for ITS OWN due time."""
    return {"timeout": None, "obs_step": "c", "steps": {
        "a": {"accepts": ["Start"], "nw": 1, "body": [G, {"op": "ret", "ty": "A"}]},
        "b": {"accepts": ["A"], "nw": 1, "retry": {"max": 3, "wait": ["fixed", 1]},
              "body": [G, {"op": "fail", "until": 99}, {"op": "none"}]},
        "c": {"accepts": ["A"], "nw": 1, "retry": {"max": 3, "wait": ["fixed_td", 1000 + gap_ms]},
              "body": [G, {"op": "fail", "until": 99}, {"op": "stop"}]},
    }}


def overlap(nw_b=1, nw_c=2, n=2):
    """a sends n events A; both b and c accept A (broadcast to two accepting steps); d collects."""
    return {"timeout": None, "steps": {
        "a": {"accepts": ["Start"], "nw": 1, "body": [{"op": "send", "ty": "A", "n": n}, G, {"op": "none"}]},
        "b": {"accepts": ["A"], "nw": nw_b, "body": [G, {"op": "ret", "ty": "B"}]},
        "c": {"accepts": ["A"], "nw": nw_c, "body": [G, {"op": "ret", "ty": "C"}]},
        "d": {"accepts": ["B", "C"], "nw": 1, "body": [G, {"op": "collect", "expected": ["B"] * n + ["C"] * n},
                                                       {"op": "stop"}]},
    }}


def targeted(n=2):
    """a sends n A's targeted at b only although c also accepts A; plus one D nobody accepts (unhandled)."""
    return {"timeout": None, "steps": {
        "a": {"accepts": ["Start"], "nw": 1, "body": [{"op": "send", "ty": "A", "n": n, "target": "b"},
                                                      G, {"op": "none"}]},
        "b": {"accepts": ["A"], "nw": 1, "body": [G, {"op": "ret", "ty": "B"}]},
        "c": {"accepts": ["A"], "nw": 1, "body": [G, {"op": "ret", "ty": "B"}]},
        "e": {"accepts": ["B"], "nw": 1, "body": [G, {"op": "collect", "expected": ["B"] * n}, {"op": "stop"}]},
    }}


def collector(nw=2, expected=("A", "A"), arrivals=3, retry_after=False, hold=False, forward=False):
    """a sends `arrivals` events of the expected types to the collecting step c (nw workers).
    hold: the collecting step calls collect_events at once and is still running (gate after the call) while the
    results of its sibling invocations are applied.
    forward: the invocation that gets the full set passes it on with ctx.send_event and returns None."""
    tys = list(expected)
    body_a = []
    cnt = {}
    for i in range(arrivals):
        t = tys[i % len(tys)]
        cnt[t] = cnt.get(t, 0) + 1
    for t, k in sorted(cnt.items()):
        body_a.append({"op": "send", "ty": t, "n": k})
    body_a += [G, {"op": "none"}]
    c = {"accepts": sorted(set(tys)), "nw": nw,
         "body": ([{"op": "collect", "expected": tys, "hold": True}] if hold else [G, {"op": "collect", "expected": tys}]) +
                 [{"op": "fail", "until": 1 if retry_after else 0}] +
                 ([{"op": "send", "ty": "C", "n": 1}, {"op": "none"}] if forward else [{"op": "ret", "ty": "C"}])}
    if retry_after:
        c["retry"] = {"max": 2, "wait": ["fixed", 0]}
    return {"timeout": None, "steps": {
        "a": {"accepts": ["Start"], "nw": 1, "body": body_a},
        "c": c,
        "z": {"accepts": ["C"], "nw": 1, "returns": ["Stop"], "body": [G, {"op": "none"}]},
    }}


def two_buffers(nw=2):
    """c (nw workers, accepts A and B) feeds TWO collect buffers from one invocation: every input goes to buffer x, A inputs
    also to buffer y -- an invocation whose snapshot of x went stale (a sibling added to x meanwhile) while its snapshot of
    y is still fresh is re-run on its slot; two more A wait in the queue."""
    return {"timeout": None, "steps": {
        "a": {"accepts": ["Start"], "nw": 1,
              "body": [{"op": "send", "ty": "A", "n": 1}, {"op": "send", "ty": "B", "n": 1}, {"op": "send", "ty": "A", "n": 2, "uid_from": 1},
                       G, {"op": "none"}]},
        "c": {"accepts": ["A", "B"], "nw": nw,
              "body": [G, {"op": "collect", "expected": ["A", "B", "A", "A"], "buf": "x", "cont": True},
                       {"op": "collect", "expected": ["A", "A", "A"], "buf": "y", "only_ty": "A"}, {"op": "ret", "ty": "C"}]},
        "z": {"accepts": ["C"], "nw": 1, "returns": ["Stop"], "body": [G, {"op": "none"}]},
    }}


def waiter(timeout=None, reqs=None, wev=True, nw=1, on_timeout="stop"):
    """a waits for a Resp (optionally with requirement k=1), then stops."""
    return {"timeout": None, "steps": {
        "a": {"accepts": ["Start"], "nw": nw,
              "body": [G, {"op": "wait", "ty": "Resp", "wid": "w1", "timeout": timeout, "reqs": reqs or {},
                           "wev": wev, "on_timeout": on_timeout}, G, {"op": "stop"}]},
    }}


def waiter2(timeout=None):
    """Two steps wait (different waiter ids) for the same type; x fans out to both."""
    return {"timeout": None, "steps": {
        "x": {"accepts": ["Start"], "nw": 1, "body": [{"op": "send", "ty": "A", "n": 1}, {"op": "send", "ty": "B", "n": 1},
                                                      G, {"op": "none"}]},
        "p": {"accepts": ["A"], "nw": 1, "body": [G, {"op": "wait", "ty": "Resp", "wid": "wp", "timeout": timeout,
                                                      "wev": True, "on_timeout": "raise"}, {"op": "ret", "ty": "C"}]},
        "q": {"accepts": ["B"], "nw": 1, "body": [G, {"op": "wait", "ty": "Resp", "wid": "wq", "timeout": None,
                                                      "reqs": {"k": 1}, "wev": False}, {"op": "ret", "ty": "C"}]},
        "z": {"accepts": ["C"], "nw": 1, "body": [G, {"op": "collect", "expected": ["C", "C"]}, {"op": "stop"}]},
    }}


def handlers(layout="scoped", max_rec=1, retry_max=2, handler_fails=False, reenter=False, validation=True):
    """b fails always; handler layout in {none, scoped, wildcard, both}; the handler either stops, fails itself,
    or re-emits A (re-entering the lineage)."""
    steps = {
        "a": {"accepts": ["Start"], "nw": 1, "body": [G, {"op": "ret", "ty": "A"}]},
        "b": {"accepts": ["A"], "nw": 1, "retry": {"max": retry_max, "wait": ["fixed", 0]},
              "body": [G, {"op": "fail", "until": 99}, {"op": "stop"}]},
    }
    hb = [G]
    if handler_fails:
        hb.append({"op": "fail", "until": 99, "exc": "KeyError"})
    if reenter == "send":
        # re-enters the lineage with ctx.send_event (as it starts), returns None
        hb = [{"op": "send", "ty": "A", "n": 1}, G, {"op": "none"}]
    else:
        hb.append({"op": "ret", "ty": "A"} if reenter else {"op": "stop"})
    if layout in ("scoped", "both"):
        steps["hs"] = {"accepts": ["Failed"], "role": "catch_error", "for_steps": ["b"], "max_rec": max_rec, "body": hb}
    if layout in ("wildcard", "both"):
        steps["hw"] = {"accepts": ["Failed"], "role": "catch_error", "for_steps": None, "max_rec": max_rec,
                       "body": [G, {"op": "stop"}] if layout == "both" else hb}
    return {"timeout": None, "validation": validation, "steps": steps}


def handlers_two_steps(max_rec=1):
    """ONE handler owns two steps of one lineage: b fails -> handler -> C -> c fails -> the same handler again: its budget is
    per handler along the lineage, whichever step failed."""
    return {"timeout": None, "validation": True, "steps": {
        "a": {"accepts": ["Start"], "nw": 1, "body": [G, {"op": "ret", "ty": "A"}]},
        "b": {"accepts": ["A"], "nw": 1, "body": [G, {"op": "fail", "until": 99}, {"op": "stop"}]},
        "c": {"accepts": ["C"], "nw": 1, "body": [G, {"op": "fail", "until": 99}, {"op": "stop"}]},
        "hs": {"accepts": ["Failed"], "role": "catch_error", "for_steps": ["b", "c"], "max_rec": max_rec,
               "body": [G, {"op": "ret", "ty": "C"}]},
    }}


def double_stop(nw=2):
    """two workers of b may both return a StopEvent."""
    return {"timeout": None, "steps": {
        "a": {"accepts": ["Start"], "nw": 1, "body": [{"op": "send", "ty": "A", "n": 2}, G, {"op": "none"}]},
        "b": {"accepts": ["A"], "nw": nw, "body": [{"op": "publish", "ty": "D"}, G, {"op": "stop"}]},
    }}


def ask_consumed(fail_until=0):
    """a returns an InputRequiredEvent that another step of the workflow accepts (an approval step): it is still
    published to the stream exactly once -- also when the accepting step fails and is retried with the event as its input."""
    p = {"timeout": None, "steps": {
        "a": {"accepts": ["Start"], "nw": 1, "body": [G, {"op": "ret", "ty": "Ask"}]},
        "h": {"accepts": ["Ask"], "nw": 1, "returns": ["Stop"], "body": [G, {"op": "none"}]},      # an audit step: the run stays live
    }}
    if fail_until:
        p["steps"]["h"]["retry"] = {"max": fail_until + 1, "wait": ["fixed", 0]}
        p["steps"]["h"]["body"] = [G, {"op": "fail", "until": fail_until}, {"op": "none"}]
    return p


def two_waits_one_step(timeout2=None):
    """ONE invocation with two sequential wait_for_event calls (different waiter ids): the first, already satisfied wait
    must stay satisfied while the step is suspended in the second."""
    return {"timeout": None, "steps": {
        "a": {"accepts": ["Start"], "nw": 1,
              "body": [G, {"op": "wait", "ty": "Resp", "wid": "w1", "timeout": None, "wev": True},
                       {"op": "wait", "ty": "Resp", "wid": "w2", "timeout": timeout2, "reqs": {"k": 1}, "wev": False,
                        "on_timeout": "stop"}, {"op": "stop"}]},
    }}


def junk():
    return {"timeout": None, "steps": {
        "a": {"accepts": ["Start"], "nw": 1, "body": [G, {"op": "ret", "ty": "A"}]},
        "b": {"accepts": ["A"], "nw": 1, "returns": ["Stop"], "body": [G, {"op": "junk"}]},
    }}


def ask():
    """a returns an InputRequiredEvent (published once, nobody accepts it), then b waits for the human response."""
    return {"timeout": None, "steps": {
        "a": {"accepts": ["Start"], "nw": 1, "body": [G, {"op": "ret", "ty": "Ask"}]},
        "b": {"accepts": ["Resp"], "nw": 1, "body": [G, {"op": "stop"}]},
    }}


def wait_accept():
    """a accepts Start and Resp and waits for a Resp while processing Start: the response must come back as the wait
    result, not also as a new input of a."""
    return {"timeout": None, "steps": {
        "a": {"accepts": ["Start", "Resp"], "nw": 2,
              "body": [G, {"op": "wait", "ty": "Resp", "wid": "w1", "timeout": None, "wev": True, "only_ty": "Start"},
                       {"op": "ret", "ty": "A", "only_ty": "Start"}, {"op": "none"}]},
        "b": {"accepts": ["A"], "nw": 1, "body": [G, {"op": "stop"}]},
    }}


def two_waiters_one_step():
    """two invocations of p (nw=2) wait at the same time, each under its own waiter id and with its own requirement
    (the answer's k must be the input's k).  x sends at its very end: re-executing an in-flight x after a resume must not
    send the inputs a second time (the waiter ids are derived from them)."""
    return {"timeout": None, "steps": {
        "x": {"accepts": ["Start"], "nw": 1, "body": [G, {"op": "send", "ty": "A", "n": 2}, {"op": "none"}]},
        "p": {"accepts": ["A"], "nw": 2, "returns": ["Stop"],
              "body": [G, {"op": "wait", "ty": "Resp", "wid": "per_input", "timeout": None, "reqs": "input", "wev": False}, G, {"op": "none"}]},
    }}


def wait_and_acceptor():
    """p waits for a Resp while ANOTHER step q accepts Resp as its input: the response wakes p's wait AND is handed to q."""
    return {"timeout": None, "steps": {
        "x": {"accepts": ["Start"], "nw": 1, "body": [{"op": "send", "ty": "A", "n": 1}, G, {"op": "none"}]},
        "p": {"accepts": ["A"], "nw": 1, "returns": ["Stop"],
              "body": [{"op": "wait", "ty": "Resp", "wid": "wp", "timeout": None, "wev": True}, G, {"op": "none"}]},
        "q": {"accepts": ["Resp"], "nw": 1, "body": [G, {"op": "none"}]},
    }}


def fanout_dup(nw=2, n=3):
    """a sends n EQUAL-VALUED events (same uid, same payload) to b (nw workers): invocations must still be told apart by
    their worker slot, not by their event."""
    return {"timeout": None, "steps": {
        "a": {"accepts": ["Start"], "nw": 1, "body": [{"op": "send", "ty": "A", "n": n, "same": True}, G, {"op": "none"}]},
        "b": {"accepts": ["A"], "nw": nw, "returns": ["Stop"], "body": [G, {"op": "none"}]},
    }}


def overlap_retry(nw_b=1, nw_c=1, n=2):
    """b and c both accept A; b fails once and is retried: the retry belongs to b alone."""
    p = overlap(nw_b, nw_c, n)
    p["steps"]["b"]["retry"] = {"max": 3, "wait": ["fixed", 0]}
    p["steps"]["b"]["body"] = [G, {"op": "fail", "until": 1}, {"op": "ret", "ty": "B"}]
    return p


def racing_writers(kind="spin"):
    """two workers of b: one returns the StopEvent while the other is still active -- writing to the stream on every loop
    turn (kind='spin') or reporting from its cancellation handler (kind='cancel')."""
    if kind == "spin":
        body = [G, {"op": "spin_publish", "n": 6, "ty": "D", "only_k": 1}, {"op": "stop"}]
    else:
        body = [{"op": "gate", "on_cancel_publish": "D"}, {"op": "stop"}]
    return {"timeout": None, "steps": {
        "a": {"accepts": ["Start"], "nw": 1, "body": [{"op": "send", "ty": "A", "n": 2}, G, {"op": "none"}]},
        "b": {"accepts": ["A"], "nw": 2, "body": body},
    }}


def racing_collector_stop():
    """the step that ends the run completed a collection in the same invocation (its result list starts with the buffer
    deletion, not with the StopEvent) while another step is writing to the stream on every loop turn."""
    return {"timeout": None, "steps": {
        "a": {"accepts": ["Start"], "nw": 1, "body": [{"op": "send", "ty": "A", "n": 1}, {"op": "send", "ty": "B", "n": 1},
                                                      {"op": "send", "ty": "C", "n": 1}, G, {"op": "none"}]},
        "c": {"accepts": ["B", "C"], "nw": 1, "body": [G, {"op": "collect", "expected": ["B", "C"]}, {"op": "stop"}]},
        "w": {"accepts": ["A"], "nw": 1, "returns": ["Stop"], "body": [G, {"op": "spin_publish", "n": 6, "ty": "D"}, {"op": "none"}]},
    }}


def collect_then_wait():
    """c completes a collection and then suspends in wait_for_event in the same invocation: the replay must still see the set."""
    return {"timeout": None, "steps": {
        "a": {"accepts": ["Start"], "nw": 1, "body": [{"op": "send", "ty": "A", "n": 2}, G, {"op": "none"}]},
        "c": {"accepts": ["A"], "nw": 1,
              "body": [G, {"op": "collect", "expected": ["A", "A"]},
                       {"op": "wait", "ty": "Resp", "wid": "w1", "timeout": None, "wev": True}, {"op": "stop"}]},
    }}


def waiter_shared_input():
    """x broadcasts one A; p (accepts A) suspends in wait_for_event with a requirement, q (accepts A too) is a plain step:
    after a serialise/resume the suspended waiter is re-armed -- and q must not see the A a second time."""
    return {"timeout": None, "steps": {
        "x": {"accepts": ["Start"], "nw": 1, "body": [{"op": "send", "ty": "A", "n": 1}, G, {"op": "none"}]},
        "p": {"accepts": ["A"], "nw": 1, "returns": ["Stop"],
              "body": [G, {"op": "wait", "ty": "Resp", "wid": "wp", "timeout": None, "reqs": {"k": 1}, "wev": False}, {"op": "stop"}]},
        "q": {"accepts": ["A"], "nw": 1, "body": [G, {"op": "none"}]},
    }}


def resumable_shared_input():
    """x broadcasts one A at its very end; p (accepts A) waits for a Resp with a requirement; q (accepts A too, no gate: it is
    never in flight at a quiescence point) counts its executions in the store: pausing while p waits must not run q again."""
    return {"timeout": None, "steps": {
        "x": {"accepts": ["Start"], "nw": 1, "body": [G, {"op": "send", "ty": "A", "n": 1}, {"op": "none"}]},
        "p": {"accepts": ["A"], "nw": 1, "returns": ["Stop"],
              "body": [{"op": "wait", "ty": "Resp", "wid": "wp", "timeout": None, "reqs": {"k": 1}, "wev": False},
                       {"op": "store_set", "key": "uid"}, G, {"op": "stop", "result": "done"}]},
        "q": {"accepts": ["A"], "nw": 1, "body": [{"op": "store_count"}, {"op": "none"}]},
    }}


def rewaiter():
    """p waits under ONE waiter id, returns None after its wait, and is invoked again later (a second A sent by a caller):
    every wait under that id needs a response of its own."""
    return {"timeout": None, "steps": {
        "x": {"accepts": ["Start"], "nw": 1, "body": [{"op": "send", "ty": "A", "n": 1}, G, {"op": "none"}]},
        "p": {"accepts": ["A"], "nw": 1, "returns": ["Stop"],
              "body": [{"op": "wait", "ty": "Resp", "wid": "wp", "timeout": None, "wev": True}, G, {"op": "none"}]},
    }}


def waiter_shared_id():
    """two invocations of p (nw=2) wait under ONE waiter id: the waiter_event is still published once for that id."""
    return {"timeout": None, "steps": {
        "x": {"accepts": ["Start"], "nw": 1, "body": [{"op": "send", "ty": "A", "n": 2}, G, {"op": "none"}]},
        "p": {"accepts": ["A"], "nw": 2, "returns": ["Stop"],
              "body": [G, {"op": "wait", "ty": "Resp", "wid": "wp", "timeout": None, "wev": True}, {"op": "none"}]},
    }}


def resumable_handlers():
    """b (one worker) always fails; its handler re-emits the input (max_recoveries=2): handler-emitted events carrying a
    recovery count sit in b's queue behind the other lineage."""
    return {"timeout": None, "steps": {
        "a": {"accepts": ["Start"], "nw": 1, "body": [G, {"op": "send", "ty": "A", "n": 2}, {"op": "none"}]},
        "b": {"accepts": ["A"], "nw": 1, "retry": {"max": 1, "wait": ["fixed", 0]}, "returns": ["Stop"],
              "body": [G, {"op": "fail", "until": 99}, {"op": "none"}]},
        "hs": {"accepts": ["Failed"], "role": "catch_error", "for_steps": ["b"], "max_rec": 2,
               "body": [G, {"op": "store_set"}, {"op": "ret", "ty": "A"}]},
    }}


def family(name, quick=True):
    """Lists of (label, prog, ext_menu) per property family."""
    out = []
    if name == "fanout":
        grid = [(1, 2, None, 0, 0), (2, 3, None, 0, 0), (2, 3, 2, 0, 1), (2, 3, 2, 5, 1)] if quick else \
            [(nw, n, r, d, f) for nw in (1, 2, 3) for n in (2, 3, 4) for (r, d, f) in ((None, 0, 0), (2, 0, 1), (3, 5, 2))]
        for (nw, n, r, d, f) in grid:
            out.append(("fanout(nw=%d,n=%d,retry=%s,delay=%s,fail=%d)" % (nw, n, r, d, f),
                        fanout(nw, n, r, d, f, timeout=100), []))
    elif name == "wait_queue":
        # a one-worker step whose running invocation suspends in wait_for_event (or fails into a delayed retry) while another
        # input waits in its queue: the freed slot goes to the queued input
        wq = waiter_shared_id()
        wq["steps"]["p"]["nw"] = 1
        out.append(("waiter_queue(nw=1)", wq, [("Resp", None)]))
        out.append(("retry_queue(nw=1)", fanout(1, 2, 2, 5, 1), []))
    elif name == "rewait":
        out.append(("rewaiter", rewaiter(), [("Resp", None), ("A", None)]))
    elif name == "collect_equal":
        # a repeated-type expected list filled with EQUAL-VALUED events (three identical votes): each is an event of its own
        for nw in (1,):           # (overlapping collecting invocations have their own recorded finding)
            p_ = collector(nw, ("A", "A", "A"), 3)
            p_["steps"]["a"]["body"] = [{"op": "send", "ty": "A", "n": 3, "same": True}, G, {"op": "none"}]
            out.append(("collector_equal(nw=%d,AAA,3)" % nw, p_, []))
            # ... delivered by RETRIED invocations (each fails once before it reaches collect_events)
            import copy as _copy
            pr_ = _copy.deepcopy(p_)
            pr_["steps"]["c"]["retry"] = {"max": 2, "wait": ["fixed", 0]}
            pr_["steps"]["c"]["body"] = [G, {"op": "fail", "until": 1}, {"op": "collect", "expected": ["A", "A", "A"]}, {"op": "ret", "ty": "C"}]
            out.append(("collector_equal_retried(nw=%d,AAA,3)" % nw, pr_, []))
    elif name == "collect2":
        out.append(("two_buffers(nw=2)", two_buffers(2), []))
    elif name == "equal_events":
        # distinct events with the same type and payload (compare equal): told apart only by being separate objects
        out.append(("fanout_dup(2,3)", fanout_dup(2, 3), []))
        # ... several of them waiting in the queue of a saturated step
        out.append(("fanout_dup(1,3)", fanout_dup(1, 3), []))
        out.append(("fanout_dup(2,4)", fanout_dup(2, 4), []))
        if not quick:
            out.append(("fanout_dup(3,4)", fanout_dup(3, 4), []))
    elif name == "routing":
        out.append(("overlap(1,2,2)", overlap(1, 2, 2), [("A", None), ("D", None)]))
        out.append(("targeted(2)", targeted(2), [("A", "c"), ("A", None), ("D", None)]))
        if not quick:
            out.append(("overlap(2,1,3)", overlap(2, 1, 3), [("A", None), ("D", None)]))
            out.append(("targeted(3)", targeted(3), [("A", "c"), ("A", None)]))
        out.append(("ask", ask(), [("Resp", None), ("A", None)]))
        out.append(("wait_accept", wait_accept(), [("Resp", None)]))
        out.append(("wait_and_acceptor", wait_and_acceptor(), [("Resp", None)]))
        out.append(("overlap_retry(1,1,2)", overlap_retry(1, 1, 2), []))
    elif name == "collect":
        out.append(("collect_then_wait", collect_then_wait(), [("Resp", None)]))
        grid = [(2, ("A", "A"), 3, False), (2, ("A", "B"), 3, False), (1, ("A", "A"), 3, False), (2, ("A", "A"), 4, True),
                (2, ("A", "B", "C"), 3, False), (2, ("A", "A", "B"), 4, False)]
        if not quick:
            grid += [(3, ("A", "A", "B"), 5, False), (3, ("A", "A"), 4, False), (2, ("A", "B"), 4, True), (2, ("A", "A", "B"), 6, False)]
        for (nw, exp, arr, ra) in grid:
            out.append(("collector(nw=%d,%s,%d,retry_after=%s)" % (nw, "".join(exp), arr, ra), collector(nw, exp, arr, ra), []))
        for (nw, exp, arr) in [(2, ("A", "B", "C"), 3), (2, ("A", "A", "B"), 3)] + ([] if quick else [(3, ("A", "B", "C"), 3), (3, ("A", "A", "B"), 6), (2, ("A", "B", "C"), 6)]):
            out.append(("collector_hold(nw=%d,%s,%d)" % (nw, "".join(exp), arr), collector(nw, exp, arr, False, hold=True), []))
        for (nw, exp, arr) in [(1, ("A", "A"), 4), (2, ("A", "B"), 4)] + ([] if quick else [(2, ("A", "A"), 6), (1, ("A", "B"), 6)]):
            out.append(("collector_forward(nw=%d,%s,%d)" % (nw, "".join(exp), arr), collector(nw, exp, arr, False, forward=True), []))
    elif name == "ask":
        out.append(("ask", ask(), [("Resp", None)]))
        out.append(("ask_consumed", ask_consumed(), []))
        out.append(("ask_consumed_retried", ask_consumed(2), []))
    elif name == "wait":
        out.append(("waiter(no timeout)", waiter(None), [("Resp", None), ("A", None)]))
        out.append(("waiter(timeout=5)", waiter(5), [("Resp", None)]))
        out.append(("waiter(reqs k=1)", waiter(None, {"k": 1}), [("Resp", None), ("Resp1", None)]))
        out.append(("waiter2", waiter2(7), [("Resp", None), ("Resp1", None)]))
        out.append(("waiter_shared_id", waiter_shared_id(), [("Resp", None)]))
        out.append(("two_waits_one_step", two_waits_one_step(), [("Resp", None), ("Resp1", None)]))
        if not quick:
            out.append(("waiter(timeout=5,raise)", waiter(5, on_timeout="raise"), [("Resp", None)]))
            out.append(("waiter(nw=2)", waiter(3, nw=2), [("Resp", None)]))
    elif name == "handlers":
        for layout in ("none", "scoped", "wildcard", "both"):
            for max_rec in (1, 2):
                out.append(("handlers(%s,max_rec=%d)" % (layout, max_rec), handlers(layout, max_rec), []))
        out.append(("handlers(scoped,reenter,2)", handlers("scoped", 2, reenter=True), []))
        out.append(("handlers(scoped,reenter by send_event,2)", handlers("scoped", 2, reenter="send"), []))
        out.append(("handlers_two_steps(max_rec=1)", handlers_two_steps(1), []))
        out.append(("handlers_two_steps(max_rec=2)", handlers_two_steps(2), []))
        out.append(("handlers(wildcard,handler_fails)", handlers("wildcard", 1, handler_fails=True), []))
        out.append(("handlers(both,scoped handler fails)", handlers("both", 1, handler_fails=True), []))
        out.append(("handlers(wildcard,handler_fails,max_rec=2)", handlers("wildcard", 2, handler_fails=True), []))
        out.append(("handlers(scoped,novalidation)", handlers("scoped", 1, validation=False), []))
        out.append(("handlers(wildcard,novalidation)", handlers("wildcard", 2, validation=False), []))
        if not quick:
            out.append(("handlers(both,reenter,2)", handlers("both", 2, reenter=True), []))
            out.append(("handlers(scoped,handler_fails,2)", handlers("scoped", 2, handler_fails=True), []))
    elif name == "outcomes":
        out.append(("pipeline ok", pipeline(timeout=50), [("D", None)]))
        out.append(("pipeline fail", pipeline(fail_until=99, timeout=50), []))
        out.append(("pipeline retry fail", pipeline(retry_max=2, delay=3, fail_until=99, timeout=50), []))
        out.append(("double_stop", double_stop(2), []))
        out.append(("pipeline ok, second consumer", dict(pipeline(timeout=50), second_consumer=True), []))
        out.append(("double_stop, second consumer", dict(double_stop(2), second_consumer=True), []))
        pr = pipeline(retry_max=2, delay=0, fail_until=99)
        pr["steps"]["b"]["retry"] = {"raising": True, "max": 2, "wait": ["fixed", 0]}
        out.append(("retry policy raises", pr, []))
        out.append(("junk", junk(), []))
    elif name == "racing":
        out.append(("racing_writers(spin)", racing_writers("spin"), []))
        out.append(("racing_writers(cancel)", racing_writers("cancel"), []))
        out.append(("racing_collector_stop", racing_collector_stop(), []))
        out.append(("fanout", fanout(2, 3, 2, 0, 1, timeout=20), []))
    elif name == "retry":
        for n in ((0, 1, 2) if quick else (0, 1, 2, 3)):
            for d in (0, 2):
                out.append(("stop_after_attempt(%d),fixed(%d)" % (n, d), pipeline(retry_max=n, delay=d, fail_until=99), []))
        out.append(("retry succeeds on 3rd", pipeline(retry_max=4, delay=1, fail_until=2), []))
        # composed policies: the library conditions combined with a user's plain callable (neutral element, either side)
        for comp in ("custom_and", "and_custom", "custom_or", "or_custom"):
            pc = pipeline(retry_max=3, delay=1, fail_until=99)
            pc["steps"]["b"]["retry"]["compose"] = comp
            out.append(("stop_after_attempt(3) composed %s" % comp, pc, []))
            pt = pipeline(retry_max=3, delay=1, fail_until=99, exc="KeyError", retry_on=["ValueError"])
            pt["steps"]["b"]["retry"]["compose"] = comp
            out.append(("non-retryable composed %s" % comp, pt, []))
            pr = pipeline(retry_max=2, delay=1, fail_until=99, exc="ValueError", retry_on=["ValueError"])
            pr["steps"]["b"]["retry"]["compose"] = comp
            out.append(("retryable typed composed %s" % comp, pr, []))
        ph = pipeline(retry_max=2, delay=1, fail_until=99)
        ph["steps"]["h"] = {"accepts": ["Failed"], "role": "catch_error", "for_steps": ["b"], "max_rec": 1,
                            "body": [G, {"op": "stop"}]}
        out.append(("stop_after_attempt(2),fixed(1),handler", ph, []))
        out.append(("non-retryable", pipeline(retry_max=3, delay=1, fail_until=99, exc="KeyError", retry_on=["ValueError"]), []))
        out.append(("retryable typed", pipeline(retry_max=2, delay=1, fail_until=99, exc="ValueError", retry_on=["ValueError"]), []))
        # two inputs for a single-worker failing step: a delayed retry arrives while the worker is busy with the other input
        q2 = fanout(1, 2, 3, 2, 99)
        q2["steps"].pop("c")
        q2["steps"]["b"]["body"] = [G, {"op": "fail", "until": 99}, {"op": "stop"}]
        out.append(("two inputs, nw=1, stop_after_attempt(3),fixed(2)", q2, []))
        q3 = fanout(1, 2, None, 2, 99)
        q3["steps"].pop("c")
        q3["steps"]["b"]["retry"] = {"max": None, "stop_delay": 5, "wait": ["fixed", 2]}
        q3["steps"]["b"]["body"] = [G, {"op": "fail", "until": 99}, {"op": "stop"}]
        out.append(("two inputs, nw=1, stop_after_delay(5),fixed(2)", q3, []))
        ptd = pipeline(retry_max=None, stop_delay=2.5, delay=1, fail_until=99)
        ptd["steps"]["b"]["retry"]["stop_delay_td"] = True
        out.append(("stop_after_delay(timedelta 2.5s),fixed(1)", ptd, []))
        for sd in ((3,) if quick else (1, 3, 6)):
            out.append(("stop_after_delay(%d),fixed(2)" % sd, pipeline(retry_max=None, stop_delay=sd, delay=2, fail_until=99), []))
    elif name == "resume":
        out.append(("resumable(2,2,3,1)", resumable(2, 2, 3, 1), []))
        out.append(("resumable(1,2,2,99)", resumable(1, 2, 2, 99), []))
        out.append(("resumable(2,3,3,2,delay=2)", resumable(2, 3, 3, 2, 2), []))
        # the result is the set that collect_events handed out (sorted): a buffer that loses or repeats an event shows
        out.append(("resumable_set(1,3)", resumable(1, 3, 2, 0, 0, result="collected"), []))
        out.append(("resumable_wait", resumable_wait(), [("Resp1", None), ("Resp", None)]))
        out.append(("resumable_handlers", resumable_handlers(), []))
        out.append(("resumable_shared_input", resumable_shared_input(), [("Resp1", None)]))
        # (new programs go to the END of this list: each program's schedule sample is drawn from one seeded stream in list order)
        out.append(("resumable_two_waiters", resumable_two_waiters(), [("Resp1", None), ("Resp", None)]))
        out.append(("resumable_equal(2)", resumable_equal(2), []))
    elif name == "waits":
        out.append(("chain(5,1)", pipeline(retry_max=4, wait=["chain", [5, 1]], fail_until=99), []))
        out.append(("chain(1,4,2)", pipeline(retry_max=5, wait=["chain", [1, 4, 2]], fail_until=99), []))
        # a chain whose last stage depends on the attempt number (it is given the run's attempt number, not a stage-local one)
        out.append(("chain(1,1,incr(1,2,max=100))", pipeline(retry_max=6, wait=["chain_incr", [1, 1], 1, 2, 100], fail_until=99), []))
        out.append(("exp(1,2,max=100)", pipeline(retry_max=4, wait=["exp", 1, 2, 100], fail_until=99), []))
        out.append(("incr(6,-2,max=100)", pipeline(retry_max=4, wait=["incr", 6, -2, 100], fail_until=99), []))
        out.append(("incr(1,2,max=4)", pipeline(retry_max=5, wait=["incr", 1, 2, 4], fail_until=99), []))
        out.append(("fixed(3)", pipeline(retry_max=3, wait=["fixed", 3], fail_until=99), []))
        out.append(("fixed(timedelta 1500ms)", pipeline(retry_max=3, wait=["fixed_td", 1500], fail_until=99), []))
    elif name == "wait_deadline":
        # the workflow timeout elapses while the run only waits for an event (nothing executing)
        w1 = waiter(None)
        w1["timeout"] = 20
        out.append(("waiter(no wait timeout), workflow timeout 20", w1, [("Resp", None)]))
        w2 = waiter(50)
        w2["timeout"] = 20
        out.append(("waiter(wait timeout 50), workflow timeout 20", w2, [("Resp", None)]))
    elif name == "waits_close":
        out.append(("two_timers(30ms apart)", two_timers(30), []))
    elif name == "waits_queue":
        out.append(("saturated incr(1,2,max=100)", saturated_retry(["incr", 1, 2, 100]), []))
        out.append(("saturated exp(1,3,max=100)", saturated_retry(["exp", 1, 3, 100]), []))
        if not quick:
            out.append(("saturated chain(1,4,9) n=3", saturated_retry(["chain", [1, 4, 9]], n=3), []))
    return out


def resumable(nw=2, n=2, retry_max=3, fail_until=1, delay=0, result="done"):
    """Order-insensitive deterministic workflow for C12/C13: every step records its input in the state store
    (idempotent: key derived from the input), the final result is a constant."""
    return {"timeout": None, "steps": {
        # a sends at its very end (no suspension between the sends and its completion), so re-executing an in-flight
        # a after a resume does not duplicate events; c's result and the store do not depend on completion order
        "a": {"accepts": ["Start"], "nw": 1,
              "body": [G, {"op": "store_set", "key": "uid"}, {"op": "send", "ty": "A", "n": n}, {"op": "none"}]},
        "b": {"accepts": ["A"], "nw": nw, "retry": {"max": retry_max, "wait": ["fixed", delay]},
              "body": [G, {"op": "fail", "until": fail_until}, {"op": "store_set", "key": "uid"}, {"op": "ret", "ty": "B"}]},
        "c": {"accepts": ["B"], "nw": 1,
              "body": [G, {"op": "collect", "expected": ["B"] * n}, {"op": "stop", "result": result}]},
    }}


def resumable_wait():
    return {"timeout": None, "steps": {
        "a": {"accepts": ["Start"], "nw": 1,
              "body": [G, {"op": "wait", "ty": "Resp", "wid": "w1", "timeout": None, "reqs": {"k": 1}, "wev": True},
                       {"op": "store_set", "key": "uid"}, G, {"op": "stop", "result": "done"}]},
    }}


def resumable_equal(n=2):
    """like resumable, with n EQUAL-VALUED inputs for the one-worker step b (same uid, same payload): while one runs the
    other waits in the queue -- two pieces of work that only their position tells apart."""
    return {"timeout": None, "steps": {
        "a": {"accepts": ["Start"], "nw": 1, "body": [G, {"op": "send", "ty": "A", "n": n, "same": True}, {"op": "none"}]},
        "b": {"accepts": ["A"], "nw": 1, "body": [G, {"op": "store_set", "key": "uid"}, {"op": "ret", "ty": "B"}]},
        "c": {"accepts": ["B"], "nw": 1, "body": [G, {"op": "collect", "expected": ["B"] * n}, {"op": "stop", "result": "done"}]},
    }}


def resumable_two_waiters():
    """two invocations of b wait at the same time, each under its own waiter id for the answer with ITS k; the store records
    which answer each got."""
    return {"timeout": None, "steps": {
        "a": {"accepts": ["Start"], "nw": 1, "body": [G, {"op": "send", "ty": "A", "n": 2}, {"op": "none"}]},
        "b": {"accepts": ["A"], "nw": 2,
              "body": [G, {"op": "wait", "ty": "Resp", "wid": "per_input", "timeout": None, "reqs": "input", "wev": False},
                       {"op": "store_set", "key": "uid", "val": "wait"}, {"op": "ret", "ty": "B"}]},
        "c": {"accepts": ["B"], "nw": 1, "body": [G, {"op": "collect", "expected": ["B", "B"]}, {"op": "stop", "result": "done"}]},
    }}


def retry_then_stop(delay=5, fail_until=1, retry_max=3):
    """a -> A -> b fails once and is retried after `delay` seconds, then stops (result constant)."""
    return {"timeout": None, "steps": {
        "a": {"accepts": ["Start"], "nw": 1, "body": [G, {"op": "ret", "ty": "A"}]},
        "b": {"accepts": ["A"], "nw": 1, "retry": {"max": retry_max, "wait": ["fixed", delay]},
              "body": [G, {"op": "fail", "until": fail_until}, {"op": "stop", "result": "done"}]},
    }}


def wait_timeout_then_stop(timeout=5):
    """a waits for a Resp with a timeout; on TimeoutError it stops with a marker result."""
    return {"timeout": None, "steps": {
        "a": {"accepts": ["Start"], "nw": 1,
              "body": [G, {"op": "wait", "ty": "Resp", "wid": "w1", "timeout": timeout, "wev": True, "on_timeout": "stop"},
                       G, {"op": "stop", "result": "done"}]},
    }}


def two_waits():
    """a waits for a Resp, then emits A; b waits for a second Resp (k=1), then stops: two idle periods."""
    return {"timeout": None, "steps": {
        "a": {"accepts": ["Start"], "nw": 1,
              "body": [G, {"op": "wait", "ty": "Resp", "wid": "w1", "timeout": None, "wev": True}, G, {"op": "ret", "ty": "A"}]},
        "b": {"accepts": ["A"], "nw": 1,
              "body": [G, {"op": "wait", "ty": "Resp", "wid": "w2", "timeout": None, "reqs": {"k": 1}, "wev": True}, G,
                       {"op": "stop", "result": "done"}]},
    }}


def idle_acceptor():
    """a waits for a Resp (the run is idle meanwhile); b accepts external Hum events as ordinary inputs and records them."""
    return {"timeout": None, "steps": {
        "a": {"accepts": ["Start"], "nw": 1,
              "body": [G, {"op": "wait", "ty": "Resp", "wid": "w1", "timeout": None, "wev": True}, G,
                       {"op": "stop", "result": "done"}]},
        "b": {"accepts": ["Hum"], "nw": 2, "returns": ["None"], "body": [G, {"op": "store_set", "key": "uid"}, {"op": "none"}]},
    }}


def two_waits_timeout(timeout=8):
    """like two_waits, but the second wait has a timeout and stops with a marker on TimeoutError."""
    p = two_waits()
    p["steps"]["b"]["body"] = [G, {"op": "wait", "ty": "Resp", "wid": "w2", "timeout": timeout, "reqs": {"k": 1}, "wev": True,
                                    "on_timeout": "stop"}, G, {"op": "stop", "result": "done"}]
    return p
