"""Fixed, importable event classes for generated workflows (the JSON serializer re-imports
event classes by qualified name, so they must live in a real module)."""
from workflows.events import (Event, HumanResponseEvent, InputRequiredEvent, StartEvent, StepFailedEvent,
                              StopEvent)


class EvA(Event):
    uid: str = ""
    k: int = 0


class EvB(Event):
    uid: str = ""
    k: int = 0


class EvC(Event):
    uid: str = ""
    k: int = 0


class EvD(Event):
    uid: str = ""
    k: int = 0


class Resp(HumanResponseEvent):
    uid: str = ""
    k: int = 0


class Hum(HumanResponseEvent):
    uid: str = ""
    k: int = 0


class Ask(InputRequiredEvent):
    uid: str = ""
    k: int = 0


TYPES = {
    "Start": StartEvent, "Stop": StopEvent, "A": EvA, "B": EvB, "C": EvC, "D": EvD, "Resp": Resp, "Hum": Hum, "Ask": Ask,
    "Failed": StepFailedEvent,
}
NAMES = {v: k for k, v in TYPES.items()}


def ty_of(ev) -> str:
    if ev is None:
        return "None"
    return NAMES.get(type(ev), type(ev).__name__)


def uid_of(ev) -> str:
    if ev is None:
        return ""
    if isinstance(ev, StepFailedEvent):
        return "F(%s:%s)" % (ev.step_name, uid_of(ev.input_event))
    if isinstance(ev, StopEvent) and type(ev) is StopEvent:
        r = ev.result
        return str(r) if isinstance(r, str) else "stop"
    try:
        return str(getattr(ev, "uid", "") or "")
    except Exception:
        return ""
