"""python -m harness.validate : MANIFEST.json and evidence files against the /root/.vp schemas."""
import json, sys
from pathlib import Path
import jsonschema
ROOT = Path(__file__).resolve().parent.parent
ok = True
try:
    m = json.load(open(ROOT / "MANIFEST.json"))
    jsonschema.validate(m, json.load(open("/root/.vp/MANIFEST.schema.json")))
    print("MANIFEST ok: %d checks, %d n/a" % (len(m["checks"]), len(m.get("not_applicable", []))))
except Exception as e:
    ok = False; print("MANIFEST INVALID:", str(e)[:400])
es = json.load(open("/root/.vp/EVIDENCE.schema.json"))
for c in m.get("checks", []):
    f = Path(c["evidence_file"])
    if not f.exists():
        print("evidence missing:", f); continue
    try:
        jsonschema.validate(json.load(open(f)), es); print("evidence ok:", f.name)
    except Exception as e:
        ok = False; print("evidence INVALID:", f.name, str(e)[:300])
sys.exit(0 if ok else 1)
