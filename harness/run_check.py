"""Entry point:  python -m harness.run_check Cxx --tier quick|thorough [--replay F]"""
from __future__ import annotations

import argparse
import importlib
import os
import sys
import traceback


def main(argv=None):
    ap = argparse.ArgumentParser()
    ap.add_argument("pid")
    ap.add_argument("--tier", default=os.environ.get("VERIF_TIER", "quick"), choices=["quick", "thorough"])
    ap.add_argument("--seed", type=int, default=None)
    ap.add_argument("--replay", default=None)
    a = ap.parse_args(argv)
    import logging
    logging.disable(logging.CRITICAL)      # the engine logs step failures; they are expected here
    from harness.core import Check, Machinery
    try:
        mod = importlib.import_module("harness.checks." + a.pid.lower())
    except ModuleNotFoundError as e:
        print("no check module for %s: %s" % (a.pid, e))
        return 2
    try:
        if a.replay:
            return int(mod.replay(a.replay) or 0)
        chk = Check(a.pid, tier=a.tier, seed=a.seed, level=getattr(mod, "LEVEL", "model_checking"))
        mod.run(chk)
        return chk.finish(rule=getattr(mod, "RULE", ""), exhaustive=getattr(chk, "exhaustive", None))
    except Machinery as e:
        print("MACHINERY-FAILURE property=%s: %s" % (a.pid, e))
        return 2
    except Exception:
        traceback.print_exc()
        print("MACHINERY-FAILURE property=%s (unexpected exception above)" % a.pid)
        return 2


if __name__ == "__main__":
    sys.exit(main())
