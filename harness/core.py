"""Check context: tiers, seed, scratch dir, findings protocol, evidence (DESIGN.md 2.3, 2.5, 3.7)."""
from __future__ import annotations

import hashlib
import json
import os
import shutil
import sys
import time
from pathlib import Path

ROOT = Path(__file__).resolve().parent.parent
SPECS = ROOT / "specs"
# evidence and replays describe /repo; a run against another tree (VERIF_REPO: seeded-defect evaluation in a scratch
# worktree) writes them next to its scratch files instead, so that committed evidence always comes from /repo itself
_ALT = os.environ.get("VERIF_REPO") not in (None, "", "/repo")
EVID = (ROOT / ".work" / "alt_tree" / "evidence") if _ALT else (ROOT / "evidence")
REPLAYS = (ROOT / ".work" / "alt_tree" / "replays") if _ALT else (ROOT / "replays")
WORK = ROOT / ".work"
KNOWN = ROOT / "known_findings.json"

LEVELS = {"exploration", "fault_enumeration", "model_checking", "proof", "translation_validation", "other"}


class Machinery(RuntimeError):
    """Something in the checking machinery failed: exit 2, never a verdict."""


def load_known():
    """known_findings.json (committed) plus per-property files under known_findings.d/ (same format)."""
    out = {"open": [], "fixed": []}
    files = ([KNOWN] if KNOWN.exists() else []) + sorted((ROOT / "known_findings.d").glob("*.json"))
    seen = set()
    for f in files:
        d = json.loads(f.read_text())
        for k in d.get("open", []):
            if (k.get("property"), k.get("key")) not in seen:
                seen.add((k.get("property"), k.get("key")))
                out["open"].append(k)
        out["fixed"] += d.get("fixed", [])
    return out


class Check:
    def __init__(self, pid: str, tier: str = "quick", seed: int | None = None, level="model_checking"):
        self.pid = pid
        self.tier = tier
        self.seed = int(seed if seed is not None else os.environ.get("VERIF_SEED", "0") or 0)
        self.level = level
        self.t0 = time.time()
        self.work = WORK / ("%s_%d" % (pid, os.getpid()))     # per process: concurrent runs do not share scratch
        shutil.rmtree(self.work, ignore_errors=True)
        self.work.mkdir(parents=True, exist_ok=True)
        for old in REPLAYS.glob(pid + "-*.json"):
            old.unlink()
        self.known = [k for k in load_known().get("open", []) if k.get("property") == pid]
        self.violations = []        # unlisted
        self.known_seen = {}        # key -> count
        self.notes = []
        self.cov = {"samples": []}
        self.assumptions = []
        self.tlc_runs = []

    # ---------------------------------------------------------------- tiers
    @property
    def quick(self):
        return self.tier == "quick"

    def pick(self, quick, thorough):
        return quick if self.quick else thorough

    # ---------------------------------------------------------------- reporting
    def note(self, msg):
        self.notes.append(msg)
        print("NOTE: " + msg, flush=True)

    def violation(self, key: str, what: str, replay: dict | None = None):
        """Report a property violation observed on the real code (or in the design model).

        key identifies the failure shape (failing clause + cause features).  A key listed in
        known_findings.json prints KNOWN-FINDING (once) and does not fail the check."""
        for k in self.known:
            if k["key"] == key:
                if key not in self.known_seen:
                    print("KNOWN-FINDING: property=%s %s" % (self.pid, k.get("what", what)), flush=True)
                self.known_seen[key] = self.known_seen.get(key, 0) + 1
                return False
        h = hashlib.sha1((key + json.dumps(replay, sort_keys=True, default=str)).encode()).hexdigest()[:10]
        REPLAYS.mkdir(parents=True, exist_ok=True)
        path = REPLAYS / ("%s-%s.json" % (self.pid, h))
        path.write_text(json.dumps({"property": self.pid, "key": key, "what": what, "replay": replay},
                                   indent=1, default=str))
        if len(self.violations) < 5:
            print("VIOLATION property=%s replay=%s" % (self.pid, path), flush=True)
            print("  clause/key: %s -- %s" % (key, what), flush=True)
        self.violations.append({"key": key, "what": what, "replay": str(path)})
        return True

    def sample(self, obj, limit=6):
        if len(self.cov["samples"]) < limit:
            self.cov["samples"].append(obj)

    def add(self, **kw):
        """Accumulate integer coverage counters / set other keys."""
        for k, v in kw.items():
            if isinstance(v, bool) or not isinstance(v, int):
                self.cov[k] = v
            else:
                self.cov[k] = self.cov.get(k, 0) + v

    def record_tlc(self, name, res, *, count=True):
        """Fold a TLC run into the evidence (states/transitions are TLC's own numbers)."""
        self.tlc_runs.append({"name": name, "distinct": res.distinct, "generated": res.generated,
                              "depth": res.depth, "wall_s": round(res.wall_s, 2), "ok": res.ok,
                              "violated": res.violated, "error": res.error})
        if count:
            self.add(states=res.distinct, transitions=res.generated)

    def require_tlc_ok(self, name, res, *, allow_violation=False):
        if res.error or (res.violated and not allow_violation):
            tail = "\n".join(res.stdout.splitlines()[-40:])
            raise Machinery("TLC run %s failed: %s %s\n%s" % (name, res.error, res.violated, tail))

    # ---------------------------------------------------------------- finish
    def finish(self, rule: str = "", exhaustive: bool | None = None):
        cov = self.cov
        cov.setdefault("states", 0)
        cov.setdefault("transitions", 0)
        cov.setdefault("traces_validated_against_impl", 0)
        cov.setdefault("evaluations", 0)
        cov.setdefault("distinct_nontrivial", 0)
        if rule:
            cov["rule"] = rule
        if exhaustive is not None:
            cov["exhaustive"] = exhaustive
        cov["tlc_runs"] = self.tlc_runs
        cov["known_findings_seen"] = self.known_seen
        cov["notes"] = self.notes[:50]
        if not cov["samples"]:
            cov["samples"] = ["(no sample recorded)"]
        ev = {
            "property_id": self.pid,
            "tier": self.tier,
            "seed": self.seed,
            "level": self.level,
            "coverage": cov,
            "assumptions": self.assumptions,
            "wall_s": round(time.time() - self.t0, 2),
            "violations": len(self.violations),
        }
        EVID.mkdir(parents=True, exist_ok=True)
        (EVID / (self.pid + ".json")).write_text(json.dumps(ev, indent=1, default=str) + "\n")
        shutil.rmtree(self.work, ignore_errors=True)
        if self.violations:
            print("RESULT property=%s FAIL violations=%d wall=%.1fs" % (self.pid, len(self.violations), ev["wall_s"]))
            return 1
        print("RESULT property=%s OK states=%s transitions=%s traces=%s evals=%s nontrivial=%s known=%s wall=%.1fs" % (
            self.pid, cov["states"], cov["transitions"], cov["traces_validated_against_impl"],
            cov["evaluations"], cov["distinct_nontrivial"], sum(self.known_seen.values()), ev["wall_s"]))
        return 0
