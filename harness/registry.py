"""Registry of built checks -> MANIFEST.json (python -m harness.registry writes it)."""
from __future__ import annotations

import json
from pathlib import Path

ROOT = Path(__file__).resolve().parent.parent

HOOKS = {
    "guard": "WORKFLOWS_PY_VERIF",
    "enable": "no repository hooks are used: checks import /repo sources at run time (PYTHONPATH) and observe "
              "through public extension points and harness-owned step bodies (DESIGN.md 3.6)",
    "baseline_off_cmd": "cd /repo && /venv/bin/python -m pytest -ra -q -p no:cacheprovider --timeout=900 "
                        "--continue-on-collection-errors",
    "source_commits": [],
    "add_only": True,
}

# pid -> dict(category, text, note, technique, design_ref, engine)
CHECKS = {}

NOT_APPLICABLE = {
    "C33": "tar/YAML/AES-GCM round-trip fidelity; `cryptography` is not installed so the encrypted half cannot run, "
           "and there is no state machine to model (DESIGN.md 6)",
}

PENDING_REASON = "check not built yet in this round (planned in DESIGN.md 5); nothing is claimed"


def reg(pid, category, text, note, technique, design_ref, engine="tlc"):
    CHECKS[pid] = dict(category=category, text=text, note=note, technique=technique, design_ref=design_ref,
                       engine=engine)


reg("C25", "model_checking",
    "TLC checks KeyedLock.tla (asyncio.Lock FIFO/baton semantics + KeyedLock refcounts) exhaustively for all "
    "interleavings of 3-4 processes on 2 keys with cancellation anywhere: mutual exclusion, refcount/cleanup, "
    "no lost wake-up, independence (action property), and liveness under weak fairness. The real KeyedLock is "
    "explored exhaustively under a virtual event loop; every recorded execution is validated by TLC against the "
    "trace spec (model invariants on every inferred step) and judged by the observer Obs_C25.",
    "Bounded to 3-4 processes/2 keys; asyncio.Lock internals are read only for conformance; verdicts rest on "
    "harness-owned critical-section bodies and KeyedLock._locks/_refs; virtual loop keeps asyncio's callback order.",
    "TLA+ spec + TLC exhaustive model checking; exhaustive implementation exploration with TLC trace validation",
    "5/C25")


ENGINE_NOTE = ("Bounded: scenario programs with <=4 steps, num_workers<=3, <=6 events, retry budgets<=4; environment actions at "
               "quiescence points of the event loop; async steps only. Trusted: inert instrumentation shim, virtual-time "
               "loop, projection functions, TLC. Conformance (TraceReducer.tla per reducer transition, TraceEngine.tla per runner "
               "action incl. resumed runs) is evidence, observer verdicts decide.")
ENGINE_TECH = ("TLA+ Engine/Reducer spec model-checked by TLC; real-engine schedule exploration with TLC trace validation "
               "(TraceReducer: every reducer transition; TraceEngine: every recorded execution is a behaviour of Engine.tla), "
               "spec-to-code replay of TLC graph paths, and TLC-evaluated property observer")


def engine(pid, what, ref):
    reg(pid, "model_checking",
        what + " Decided in three layers: (1) TLC exhaustively checks the property's invariant on Engine.tla (runner + "
        "Reducer.tla, the same program dicts the real engine runs) for all schedules of small scenario programs; (2) the real "
        "engine is driven under a virtual-time loop through bounded-DFS and seeded schedules, every recorded reducer "
        "transition is validated by TLC against Reducer.tla and every recorded execution line by line against Engine.tla "
        "(TraceEngine.tla: buffer order, wake choice, timers, worker results); (3) TLC evaluates the observer Obs_%s.tla -- a literal "
        "transcription of the statement over step-body logs, the published stream and outcomes -- on every recorded "
        "execution; only (1) and (3) produce verdicts." % pid,
        ENGINE_NOTE, ENGINE_TECH, ref)


engine("C01", "Worker limit and distinct worker slots per step.", "5/C01")
engine("C02", "Exactly-once delivery to every accepting step, targets honoured, wait results not re-delivered, UnhandledEvent exactly for orphans.", "5/C02")
engine("C12", "ctx.to_dict -> JSON -> Context.from_dict at EVERY prefix of explored schedules vs the uninterrupted continuation, a second pause on the resumed run; stability of the serialized form; PauseResume action of Engine.tla (Act_C12_* properties incl. NoDoubleStart, replayed on the real engine); two invocations waiting under their own waiter ids; CtxLife.tla (context life cycle across runs).", "5/C12")
engine("C31", "Timeout names the active steps and never hits a finished run; cancel stops further steps; cancelled context serializable and resumable.", "5/C31")
engine("C03", "Queued work runs at full capacity; idle announced only when nothing can happen without external input.", "5/C03")
engine("C05", "Retry budgets: executions = max(n,1), non-retryable once, stop_after_delay by real elapsed time, retry_info numbering, reported attempts/elapsed.", "5/C05")
engine("C06", "k-th retry starts no earlier than the documented delay of the wait strategy (tenacity indexing).", "5/C06")
engine("C08", "Exhausted failures go to the owning @catch_error handler within max_recoveries, same with validation disabled.", "5/C08")
engine("C09", "collect_events lists: as expected, each event in at most one list, no full set lost.", "5/C09")
engine("C10", "wait_for_event: at most one completion/timeout per wait, right type and requirements, waiter_event once.", "5/C10")
engine("C04", "One outcome, one matching terminal event, stream consumer terminates.", "5/C04")
engine("C11", "Tick-log replay (real rebuild_state_from_ticks at every on_tick) equals the live runner state; the same live context inspected at every quiescence point (to_dict read back, running_steps), also right after a resume before the first tick.", "5/C11")
engine("C35", "StepStateChanged telemetry alternates per worker slot, PREPARING only at capacity, InputRequired published once.", "5/C35")


SERVER_NOTE = ("Real WorkflowServer stack (ServerRuntimeDecorator > IdleReleaseDecorator > PersistenceDecorator > BasicRuntime) "
               "assembled by the real WorkflowServer.__init__ on SqliteWorkflowStore under a virtual-time loop; starlette/uvicorn "
               "are stubbed (HTTP layer not exercised); datetime.now of the server modules reads the virtual wall clock; a crash "
               "is the process stopping right after the k-th append_tick; bounded scenario programs. Every recorded server execution "
               "(crash + restart = one trace) is validated line by line against ServerStack.tla by TraceServer.tla, its invariants "
               "evaluated in every state (evidence; the observer decides).")
SERVER_TECH = ("TLA+ server specs (ServerStack.tla: whole stack around one run; Persistence/IdleRelease/HandlerStatus: scenarios) "
               "model-checked by TLC; crash/idle-release/fault schedules on the real server stack with TLC trace validation "
               "(TraceServer) and TLC-evaluated property observer")

reg("C13", "model_checking",
    "Restart at any persisted point. TLC checks Persistence.tla (tick log durable; tick buffer, mailbox, timers in memory; "
    "persist-then-execute-commands; replay discarding commands) for all crash points of a staged pipeline: the intended design "
    "satisfies 'no accepted work lost / finished run not re-run', the as-coded variant is shown to violate it. On the real "
    "server EVERY persisted tick of several schedules is a crash point: new server on the same SQLite file, resume, run to the "
    "end; TLC judges each case with Obs_C13 against the uninterrupted reference (a persisted history that cannot be "
    "replayed at all -- context_from_ticks raises for the run -- is a clause of its own, never attributed to a recorded cause).",
    SERVER_NOTE, SERVER_TECH, "5/C13")


reg("C14", "model_checking",
    "Pending retries / waiter timeouts across idle release and restart. TLC checks IdleRelease.tla (idle announcement, "
    "deferred release under the reload lock, abort, reload-on-send over an abstract retrying engine whose timers live in "
    "memory) for idle_timeout shorter and longer than the retry delay: the intended design keeps every timer, the as-coded "
    "variant loses it exactly when idle_timeout < delay. The same configurations and restart-at-each-tick crash points run "
    "on the real server stack (also a wait whose timeout is 0); Obs_C14 judges whether the retry / TimeoutError took effect and the handler left 'running'.",
    SERVER_NOTE, SERVER_TECH, "5/C14")
reg("C15", "model_checking",
    "Handler record vs outcome. TLC checks HandlerStatus.tla (terminal-event status write with retry/back-off and bounded "
    "transient faults, idle writes, engine-side error) -- design holds, as-coded violates on the engine-error path. On the "
    "real server stack 7 outcome kinds x 0..len(backoff) injected store-write failures are run; Obs_C15 judges the final "
    "row and the order of successful status writes.",
    SERVER_NOTE + " Write-fault sequences are bounded by len(persistence_backoff) as the statement's retry budget.", SERVER_TECH, "5/C15")
reg("C18", "model_checking",
    "TLC enumerates the shape grid of Serde.tla (class kind x typed field kinds x dynamic field kinds x result kind x exception "
    "kind x 19 serialisation paths x single/double round trip) and checks the abstract writer/reader against the statement, "
    "strictly on the intended design and with exact carve-outs on the model of today's code. Every enumerated vector is "
    "concretised with importable generated event classes and pushed through the real JsonSerializer (bare and inside "
    "containers), EventEnvelopeWithMetadata/EventEnvelope -> JSON -> load_event/parse, and every tick class through "
    "WorkflowTickAdapter.dump_python(mode='json') -> JSON -> validate_python; Obs_C18 (extending Serde.tla) has TLC compare "
    "canonical before/after texts per component: same class, equal typed fields, equal dynamic fields, equal result, exception "
    "type and message kept, tick class/fields equal.",
    "Bounded to shapes with at most 2 varied features; one fixed value table per kind with 2-3 representatives (empty, falsy, "
    "non-ASCII, big int, nested). 'Equal' is Python ==, read through a canonical text cross-checked against ==. Not demanded: "
    "non-JSON values in untyped slots, unimportable exception classes (documented fallback), __cause__, AddWaiter.requirements. "
    "Assumed: event classes are importable top-level classes present in the registry on client-envelope paths. Outside the grid: "
    "PickleSerializer, include_qualified_name=False, non-finite floats, non-string dict keys. This is a function-table use of "
    "TLA+ (one TLC state = one test vector): the payload domain is sampled by the tables, not exhausted.",
    "TLA+ function-table spec enumerated by TLC (design variant strict, code variant with known-shape carve-outs); exhaustive "
    "execution of the grid on the real serialisers; TLC-evaluated property observer over recorded before/after projections",
    "5/C18")
reg("C26", "model_checking",
    "Idle release/resume loses nothing and never double-runs (both stacks). In-process: TLC checks IdleRelease.tla: release only "
    "when the engine has no queued/running/scheduled work, no event lost, active <=> one live loop. The real stack is "
    "driven through idle gaps around the timeout, two release/reload cycles, two concurrent senders to a released run and "
    "a send racing the deferred release in both callback orders, a garbage-collector pass while a reloaded run waits (RunRefs.tla: who keeps a run alive); Obs_C26 judges processed events, live loops and what the "
    "engine held at release. DBOS: TLC checks Lifecycle.tla (begin/complete release, crash timeout takeover, try_begin_resume, "
    "one owner per release, liveness) and DbosIdleRelease.tla (timer, mailbox, check-then-send window); histories taken from "
    "the paths of TLC's Lifecycle graph run on the real SqliteRunLifecycleLock under a virtual clock, the real "
    "DBOSIdleReleaseDecorator runs over the real interceptor/persistence decorators, store and lock with every order of the "
    "check-then-send window; TraceLifecycle/TraceDbosIdleRelease validate the recordings and Obs_C26_dbos judges them.",
    SERVER_NOTE + " DBOS half: the dbos package and Postgres are not installed -- idle_release.DBOS is a two-call fake (send/recv mailbox), "
    "PostgresRunLifecycleLock is not executed (same statements as the SQLite lock), and since RunLifecycleLock.create has no call site "
    "the harness creates the lifecycle row itself for the race scenarios (findings that need the row carry row_created_by_harness in their key).",
    SERVER_TECH, "5/C26")
reg("C36", "model_checking",
    "Idle runs are released after idle_timeout and reloaded on demand (both stacks). In-process: IdleRelease.tla checked by TLC "
    "(not released early, released run marked idle, reload on send); real stack driven with idle gaps below/at/above the "
    "timeout, repeated cycles, concurrent senders; Obs_C36 judges release time, idle mark and continuation to the same result. "
    "DBOS: DbosIdleRelease.tla (design variant: released after the timeout, marked idle, reload continues; code-as-it-is variant "
    "without the lifecycle row violates Live_Released as expected); the real DBOSIdleReleaseDecorator is driven with idle gaps "
    "below/at/above idle_timeout with and without the row, two release/reload cycles and a timer-resetting event; "
    "TraceDbosIdleRelease validates the recordings, Obs_C36_dbos judges them.",
    SERVER_NOTE + " DBOS half: dbos/Postgres not installed -- idle_release.DBOS is a two-call fake, the SQLite lifecycle lock and store are real; "
    "the statement fails on today's code because RunLifecycleLock.create is never called (recorded finding).",
    SERVER_TECH, "5/C36")


TABLE_TECH = "TLA+ function tables / state machine enumerated by TLC, executed on the real objects, judged by a TLC observer"

reg("C07", "model_checking",
    "TLC enumerates retry/stop condition trees and wait-strategy trees (all atoms over an integer/rational argument grid, "
    "combinator trees to depth 1 quick / depth 2 thorough, constructor and operator forms) and checks the laws of the "
    "statement on the tables (or/and/operator = combinator/units; 0 <= w <= documented max, clamping, sum, determinism, "
    "totality); every tree is built with the real constructors/operators and evaluated on concretised exceptions / "
    "(attempts, elapsed, sleep) / (k, seed); Obs_C07 judges the returned values (laws on a node vs its parts, documented "
    "bounds, same-seed determinism).",
    "Integer/rational grid only (dyadic parameters, k <= 7 plus one symbolic huge k), values compared in 1/1000 s; time "
    "parameters >= 0 except where a docstring promises clamping; atom semantics of retry/stop conditions and the wait_chain "
    "index are conformance evidence, not verdicts.",
    TABLE_TECH, "5/C07")
reg("C23", "model_checking",
    "TLC enumerates all step graphs within the instance bounds (<=2 / <=3 steps; base and subclasses of Start/Stop/"
    "InputRequired/HumanResponse, StepFailedEvent, '-> None', unions, @catch_error scopes, workflow- and step-level skip "
    "sets) and checks on each that the declarative WellFormed/Hitl equals the implementation-shaped procedure; every graph "
    "is compiled to a real Workflow subclass and run through the constructor and validate(); Obs_C23 judges accepted <=> "
    "WellFormed and flag = Hitl.  Also (conformance evidence): the drawn representation of every graph (Repr operators of "
    "Validate.tla vs representation/build.py) and the @step signature table StepSig.tla vs inspect_signature/validate_step_signature.",
    "Bounded instances; event nodes are exact classes; no resources are declared so resource validation is not exercised; "
    "reading decisions where the statement is silent are listed at the top of Validate.tla.",
    TABLE_TECH, "5/C23")
reg("C28", "model_checking",
    "TLC checks Migrations.tla (statement-level model of run_migrations with transactions and process kills) exhaustively "
    "from fresh / every recorded prefix / every legacy user_version: the stated property for the code as is, strict C28 with "
    "crashes for the atomic-bootstrap design. Real SQLite files in every start state are migrated 3x under 3-4 connection "
    "modes and killed before every SQL statement (and again in the re-run); every trace is judged by Obs_C28 and validated "
    "against TraceMigrations by TLC.",
    "Kills are process kills (file+WAL copies, checked against real fork kills on a sample); power loss is not modelled. "
    "Legacy databases are reconstructed (no legacy migrator in the tree). Schema equality is structural. Concurrent callers "
    "are out of scope.",
    "TLA+ spec + TLC exhaustive checking; crash-point enumeration on the real code; TLC trace validation + observer", "5/C28")
reg("C37", "model_checking",
    "TLC checks Llamactl.tla (one action per EnvService/AuthService/ConfigManager operation, active profile stored by name "
    "only) over the full reachable state space for default + 2 (thorough + 3) environments and 2 names. The real services "
    "are explored exhaustively for a sub-alphabet, every edge of TLC's small state graph is replayed on the real code, and "
    "every history is judged by Obs_C37 and validated step by step against TraceLlamactl by TLC.",
    "llama_agents.cli.__init__, cli.auth.client and core.client.manage_client are stubbed (no operation used reaches the "
    "network); raw settings setters, renaming a profile and AuthService objects bound to a non-current environment are out of "
    "scope; select_any_profile may choose any profile of the current environment.",
    "TLA+ spec + TLC; state-graph replay plus implementation-driven exhaustive exploration; TLC trace validation and observer", "5/C37")


SCHED_TECH = "TLA+ spec + TLC exhaustive model checking; exhaustive schedule exploration of the real code under a virtual loop; TLC trace validation + observer"

reg("C29", "model_checking",
    "TLC checks Merge.tla (one pending anext task per source, done batches of any subset in any order, erroring source, "
    "consumer pulling at any time) and Debounce.tla (arrival times vs debounce/max window, simultaneous readiness of an "
    "item, the window timer and the completion marker) exhaustively; the real functions are explored exhaustively under "
    "the virtual loop with the done-set order chosen by the schedule; every execution is validated by TLC against "
    "TraceMerge/TraceDebounce and judged by Obs_C29.",
    "asyncio.wait wrapped in the harness (a Python set gives either done order); Debouncer clock default pointed at the virtual "
    "clock; eager outer consumer for debounce; stop_on_first_completion=True, aclose and cancellation not covered; 'initial "
    "burst' = any split containing at least the items that arrived strictly before the earliest possible window close.",
    SCHED_TECH, "5/C29")
reg("C30", "model_checking",
    "TLC checks RunLimit.tla (per-instance asyncio.Semaphore with the FIFO/hand-off semantics of CPython 3.12, abort of "
    "queued runs) for N in 1..4, 4-6 runs, 2 instances: limit, accounting, no lost wake-up, clean-up, independence, "
    "liveness under weak fairness; real Workflow instances on the real BasicRuntime are explored exhaustively under the "
    "virtual loop; every execution is validated by TLC against TraceRunLimit and judged by Obs_C30.  RunLimitGen.tla models the "
    "runtime's semaphore table across instance and event-loop lifetimes (address reuse); generations of real instances on ONE "
    "runtime are judged per generation and validated against TraceRunLimitGen.",
    "Semaphore/runtime internals read for conformance only; verdicts from harness-owned step bodies; hard abort of executing "
    "runs excluded (outside the quantifier).",
    SCHED_TECH, "5/C30")
reg("C22", "model_checking",
    "TLC checks Resources.tla (ResourceManager state exactly as coded, concurrent step invocations resolving dependency "
    "graphs of <=3 cached/non-cached sync/async factories including genuine cycles) in a design variant (strict) and a code "
    "variant (two known shapes carved out); every enumerated program is compiled to a real Workflow and every begin/release "
    "interleaving is run on the real engine; every execution is validated by TLC against TraceResources (full manager state) "
    "and judged by Obs_C22 (two verdicts per trace: strict, and with the known shapes skipped).",
    "Invocations are separate runs of one instance plus the same-event one-run shape; manager internals read for conformance "
    "only; _ResourceConfig not covered.",
    SCHED_TECH, "5/C22")
reg("C17", "model_checking",
    "TLC checks SseClient.tla (server log, connection as a byte stream of SSE frames cut at six abstract positions, refused "
    "connects, heartbeats, client cursor/last_sequence/attempts, reconnect from the cursor) for N<=5 events and <=4 faults: "
    "yielded events are a gap-free, duplicate-free prefix of the log after the cursor, last_sequence = last yielded, failure "
    "only beyond the reconnect limit, liveness. Environment-action sequences projected from TLC's graph are replayed on the "
    "real WorkflowClient over httpx.MockTransport fed by the real _stream_events formatter, under three chunkings; plus a "
    "byte-offset sweep cutting the body after every byte; every trace is validated by TraceSseClient and judged by Obs_C17.",
    "starlette Request/StreamingResponse faked, network = MockTransport (ReadError/ConnectError only); cursors beyond the log end "
    "not generated.",
    "TLA+ spec + TLC; fault-sequence replay from TLC's state graph on the real client; TLC trace validation + observer; byte-offset sweep", "5/C17")
reg("C34", "model_checking",
    "TLC enumerates version pairs (3-component releases, a/b/rc pre-releases) as a function table with declarative "
    "ToSemver/ToPep440/Normalize/Less/Classify and checks round trips and the classification clause; each vector is "
    "concretised (multi-digit number maps, seeded PEP 440 spellings) and run through the real pep440_to_semver, "
    "semver_to_pep440 and detect_change_type; Obs_C34 judges the results.",
    "3-component releases only; canonical semver inputs; spelling equivalence taken from `packaging`; pairs where only the "
    "pre-release grows are only required to be not 'none'.",
    TABLE_TECH, "5/C34")
reg("C32", "model_checking",
    "TLC enumerates display names as class strings (lower/upper/digit/other/hyphen/non-ASCII; all strings <=5 quick / <=6 "
    "thorough plus long families around the 57/63 boundaries) x mode x suffix draw through DeployId.tla's pipeline and checks "
    "DNS-1035 validity, derivation from the name's alphanumerics and the suffix rule; each name is concretised (incl. "
    "Unicode look-alikes) and run through the real find_deployment_id under three seeds; Obs_C32 judges every returned id.",
    "kubernetes absent: availability check stubbed (free / in use once); 'lowercase alphanumerics' = ascii [a-z0-9] of "
    "name.lower().",
    TABLE_TECH, "5/C32")
reg("C27", "model_checking",
    "REDUCED CLAIM (DESIGN.md 5/C27, 8): only the repository's own replay mechanism. TLC checks DurableReplay.tla (task "
    "journal, record vs replay mode of wait_for_next_task, crash anywhere, orphan purge, adversarial completion order) -- "
    "a recovered loop observes the recorded completion order. Crash/schedule sequences from TLC's graph are replayed on the "
    "real InternalDBOSAdapter.wait_for_next_task + TaskJournal + SqliteJournalCrud with fabricated tasks on the virtual loop; "
    "traces validated by TraceDurableReplay and judged by Obs_C27.",
    "dbos and Postgres are not installed: 'same ticks / published events / result' rests on DBOS's guarantees (recorded step "
    "outputs, messages and timestamps are returned on replay) taken as axioms; PostgresJournalCrud not executed; dbos is a "
    "names-only stub with one fake value (function_id).",
    "TLA+ spec + TLC; crash/schedule replay from TLC's graph on the real adapter+journal; TLC trace validation + observer", "5/C27")


reg("C19", "model_checking",
    "All operation sequences (<=3 quick, <=5 thorough, over keys a, b, \"0\", depth <=3, DictState and a typed parent/child "
    "pair) are enumerated by TLC from a nested-dict TLA+ model (StateTree/StateStore.tla: get/set by dotted path, set_state "
    "replace or parent merge, clear, edit_state, get_state snapshots and their mutation) and applied to the real "
    "InMemoryStateStore and SqliteStateStore; every return value and a final probe are validated by TLC (Obs_C19), snapshot "
    "isolation is judged on store dumps before/after a snapshot mutation; the two back ends are also compared with each other.",
    "JSON-representable values only; exceptions compared as 'raised'; snapshot handles are mutated only while no store write "
    "happened since get_state (nested aliasing of the documented shallow copy is outside the statement); SQLite connections "
    "run with synchronous=OFF in the harness.",
    "TLA+ model enumerated by TLC; history replay on both real stores; TLC observer attributing each failure to one deviation", "5/C19")
reg("C20", "model_checking",
    "All interleavings (lock waits, awaits inside edit_state) of 2-3 tasks x <=2 operations are model-checked on "
    "StateStoreConc.tla for the memory store, SQLite as designed and SQLite as coded (final state in the set of serial "
    "results; an edit's commit equals its effect on the store just before); all driver command orders are executed on the "
    "real stores under the virtual loop with tasks gated inside edit_state; TLC validates every execution "
    "(TraceStateStoreConc) and judges serialisability / no-overwrite (Obs_C20).",
    "2-3 tasks, <=2 operations each; every tier runs the three-task instance 'open edit block / queued whole-state "
    "replacement / queued second edit' in full on the real stores, thorough a sample of the widest instances (TLC checks "
    "them exhaustively); asyncio.Lock semantics of CPython 3.12.",
    SCHED_TECH, "5/C20")


STORE_TECH = "TLA+ spec + TLC exhaustive checking (and liveness); state-graph path replay on the real stores; TLC trace validation + observer"

reg("C16", "model_checking",
    "TLC checks EventLog.tla (append = read last sequence and write last+1 atomically, condition-variable wake-ups with a "
    "FIFO ready queue, snapshot batches, poll time-outs, reconnects) for all interleavings, cursors -1..n and terminal "
    "positions in the memory, sqlite and polling styles: sequence numbering, exact ordered once-only delivery above the "
    "cursor ending at the first terminal event, no lost wake-up, liveness under weak fairness. Covering paths of the state "
    "graph are executed on the real MemoryWorkflowStore, SqliteWorkflowStore, the polling default and through "
    "_WorkflowAPI._stream_events (after_sequence / now / Last-Event-ID / 204); every recording is validated by TLC against "
    "TraceEventLog and judged by Obs_C16, including memory-vs-sqlite agreement.",
    "Bounded to 1-2 subscribers and 3-5 events; single asyncio loop with atomic append; starlette faked at the API layer; the "
    "thorough 2-subscriber graph is sampled for replay; sqlite files on tmpfs.",
    STORE_TECH, "5/C16")
reg("C24", "model_checking",
    "TLC checks HandlerStore.tla: for every table contents and 1200 filter combinations the code-shaped query and delete "
    "predicates of both stores equal the statement; for all histories of upserts, status updates and deletes up to the bound "
    "with max_completed in {0,1,2,None} the retention rule holds. Covering paths are replayed on the real MemoryWorkflowStore "
    "and SqliteWorkflowStore with contents read directly, filter batteries run on both stores; TLC judges with Obs_C24 and "
    "validates against TraceHandlerStore.",
    "2-3 ids, 1-2 workflow names, unique run_id per handler; zero-filter delete is not judged; both readings of 'most recently "
    "completed' accepted; the thorough replay graph is smaller than the model-checked instance.",
    STORE_TECH, "5/C24")
reg("C21", "model_checking",
    "TLC checks ConnMode.tla, the product of a per-call-connection and a single-connection store over handler, event, tick "
    "and state-store operations: equal results in both modes. Covering paths are replayed on real SqliteWorkflowStore objects "
    "in both modes (plus a masked-close mode), together with covering subsets of the C16 schedules and C24 histories; judged by "
    "Obs_C21 and validated against TraceConnMode.",
    "One handler and one run per history, DictState keys a/b; the AgentCore entrypoint is not run, only its store configuration.",
    STORE_TECH, "5/C21")


def build():
    props = [json.loads(l) for l in (ROOT / "properties.jsonl").read_text().splitlines() if l.strip()]
    checks, na = [], []
    for p in props:
        pid = p["id"]
        c = CHECKS.get(pid)
        if c and (ROOT / "harness" / "checks" / (pid.lower() + ".py")).exists():
            checks.append({
                "property_id": pid,
                "quick_cmd": "./check %s --tier quick" % pid,
                "thorough_cmd": "./check %s --tier thorough" % pid,
                "evidence_file": "/verif/evidence/%s.json" % pid,
                "replay_cmd_template": "./check %s --replay {path}" % pid,
                "engine": c["engine"],
                "level_claimed": {"category": c["category"], "text": c["text"], "design_ref": "DESIGN.md " + c["design_ref"]},
                "level_note": c["note"],
                "technique": c["technique"],
            })
        else:
            na.append({"property_id": pid, "reason": NOT_APPLICABLE.get(pid, PENDING_REASON)})
    m = {
        "version": 1,
        "setup_cmd": "./setup.sh",
        "hooks": HOOKS,
        "engines": [{"name": "tlc", "path": "/opt/veriftools/tla/tla2tools.jar",
                     "serves_properties": [c["property_id"] for c in checks],
                     "kind_free_text": "TLC 1.8 explicit-state model checker over the TLA+ specs in /verif/specs; "
                                       "also evaluates observer/trace specs on executions recorded from /repo code"}],
        "checks": checks,
        "not_applicable": na,
        "notes": "Every check is ./check <id> --tier quick|thorough; specs under specs/, harness under harness/. "
                 "See DESIGN.md.",
    }
    (ROOT / "MANIFEST.json").write_text(json.dumps(m, indent=1) + "\n")
    return m


if __name__ == "__main__":
    m = build()
    print("checks:", [c["property_id"] for c in m["checks"]], "n/a:", len(m["not_applicable"]))
