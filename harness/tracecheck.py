"""Batch validation of recorded implementation traces by TLC (DESIGN.md 3.3, 'trace batch')."""
from __future__ import annotations

import json
from pathlib import Path

from . import tlc
from .core import Machinery, SPECS


def _write(workdir, name, obj):
    p = Path(workdir) / (name + ".json")
    p.write_text(json.dumps(obj))
    return p


import os as _os
CHUNK = int(_os.environ.get("VERIF_OBS_CHUNK", "400"))


def observe(chk, module_rel, cfg_rel, batch: dict, name="obs", workers=1, timeout=1800, chunk=False):
    """Run an observer spec (Obs_Cxx.tla) over batch['traces'].
    Returns {tid(1-based): (clause, l)}; every trace must get a verdict (total verdicts).
    chunk=True (only for observers that judge every trace on its own -- some read another trace of the batch as a reference):
    large batches are split, one TLC run per CHUNK traces, a few side by side."""
    n_all = len(batch["traces"])
    if chunk and n_all > CHUNK:
        from concurrent.futures import ThreadPoolExecutor
        parts = [dict(batch, traces=batch["traces"][i:i + CHUNK]) for i in range(0, n_all, CHUNK)]
        with ThreadPoolExecutor(max_workers=4) as ex:
            outs = list(ex.map(lambda j: observe(chk, module_rel, cfg_rel, parts[j], name="%s_p%d" % (name, j),
                                                 workers=max(1, min(workers, 4)), timeout=timeout, chunk=False),
                               range(len(parts))))
        merged, res, prints = {}, None, []
        for j, (o, r) in enumerate(outs):
            for tid, v in o.items():
                merged[j * CHUNK + tid] = v
            # every observer prints <<"TAG", tid, ...>>: renumber the trace ids of the part
            for pv in r.prints:
                if isinstance(pv, tuple) and len(pv) >= 2 and isinstance(pv[0], str) and isinstance(pv[1], int) \
                        and not isinstance(pv[1], bool):
                    prints.append((pv[0], j * CHUNK + pv[1]) + tuple(pv[2:]))
                else:
                    prints.append(pv)
            res = r
        import copy as _copy
        res = _copy.copy(res)
        res.prints = prints
        res.generated = sum(r.generated for (_o, r) in outs)
        res.distinct = sum(r.distinct for (_o, r) in outs)
        return merged, res
    f = _write(chk.work, name, batch)
    res = tlc.run(SPECS / module_rel, SPECS / cfg_rel, workdir=chk.work, workers=workers,
                  env={"TRACE_FILE": str(f)}, deadlock=False, coverage=False, timeout=timeout,
                  jvm_opts=tlc.LIGHT if len(batch["traces"]) <= 2000 else ())
    if res.error or res.violated:
        raise Machinery("observer %s failed: %s %s\n%s" % (module_rel, res.error, res.violated,
                                                           "\n".join(res.stdout.splitlines()[-30:])))
    out = {}
    for v in res.prints:
        if isinstance(v, tuple) and len(v) >= 3 and v[0] == "VERDICT":
            tid, clause = v[1], v[2]
            prev = out.get(tid)
            # a failing clause wins over ok if several branches report
            if prev is None or (prev[0] == "ok" and clause != "ok"):
                out[tid] = (clause, v[3] if len(v) > 3 else None) + tuple(v[4:])
    n = len(batch["traces"])
    missing = [i for i in range(1, n + 1) if i not in out]
    if missing:
        raise Machinery("observer %s gave no verdict for traces %s" % (module_rel, missing[:10]))
    chk.record_tlc(name, res, count=False)
    return out, res


def conform(chk, module_rel, cfg_rel, batch: dict, name="trace", workers=4, timeout=1800, lengths=None,
            invariants_are_verdicts=False):
    """Run a trace spec (Trace*.tla) over batch['traces'].  The spec prints <<"P", tid, l>> each time
    it has matched event l.  Returns {tid: matched_prefix_len} and the TlcResult."""
    f = _write(chk.work, name, batch)
    res = tlc.run(SPECS / module_rel, SPECS / cfg_rel, workdir=chk.work, workers=workers,
                  env={"TRACE_FILE": str(f)}, deadlock=False, coverage=False, timeout=timeout,
                  jvm_opts=tlc.LIGHT if len(batch.get("traces", ())) <= 2000 else ())
    if res.error:
        raise Machinery("trace spec %s failed: %s\n%s" % (module_rel, res.error,
                                                          "\n".join(res.stdout.splitlines()[-30:])))
    reached = {}
    for v in res.prints:
        if isinstance(v, tuple) and len(v) >= 3 and v[0] == "P":
            reached[v[1]] = max(reached.get(v[1], 0), v[2])
    chk.record_tlc(name, res, count=False)
    return reached, res
