"""python -m harness.seed_eval <mutant dir> <property id> [--keep-as NAME]

Confirms a seeded defect (demo passes on the clean tree, fails with the patch, pinned suite passes with the patch) in a
scratch worktree, runs the property's quick check against that worktree (VERIF_REPO), and files it under /verif/seeded/."""
from __future__ import annotations

import json
import os
import shutil
import subprocess
import sys
import time
from pathlib import Path

ROOT = Path(__file__).resolve().parent.parent
WT = Path(os.environ.get("SEED_WT", "/tmp/seedwt"))


def sh(cmd, cwd=None, env=None, timeout=1800):
    p = subprocess.run(cmd, shell=True, cwd=cwd, env=env, capture_output=True, text=True, timeout=timeout)
    return p.returncode, (p.stdout + p.stderr)


def main():
    mdir = Path(sys.argv[1])
    pid = sys.argv[2]
    name = sys.argv[4] if len(sys.argv) > 4 and sys.argv[3] == "--keep-as" else mdir.name
    tier = os.environ.get("SEED_TIER", "quick")
    if WT.exists():
        sh("git -C /repo worktree remove --force %s" % WT)
    rc, out = sh("git -C /repo worktree add -q %s HEAD" % WT)
    assert rc == 0, out
    meta = {"property": pid, "source": str(mdir), "at": time.strftime("%Y-%m-%d %H:%M"), "repo_head":
            sh("git -C /repo log --format=%h -1")[1].strip()}
    try:
        demo = next((mdir / n for n in ("demo.py", "test_demo.py") if (mdir / n).exists()), None)
        env = dict(os.environ, PYTHONPATH="/tmp/mutenv/shims")
        rc0, o0 = sh("/venv/bin/python %s %s" % (demo, WT), env=env, timeout=600)
        rca, oa = sh("git -C %s apply %s" % (WT, mdir / "patch.diff"))
        assert rca == 0, "patch does not apply: " + oa
        rc1, o1 = sh("/venv/bin/python %s %s" % (demo, WT), env=env, timeout=600)
        rct, ot = sh("/venv/bin/python -m pytest -q -p no:cacheprovider --timeout=900 --continue-on-collection-errors 2>&1 | tail -1", cwd=WT)
        meta.update(demo_clean_exit=rc0, demo_patched_exit=rc1, demo_patched_tail=o1.strip().splitlines()[-3:],
                    pinned_suite_with_patch=ot.strip())
        confirmed = rc0 == 0 and rc1 != 0 and "147 passed" in ot
        meta["confirmed"] = confirmed
        env2 = dict(os.environ, VERIF_REPO=str(WT))
        t0 = time.time()
        rcc, oc = sh("./check %s --tier %s" % (pid, tier), cwd=ROOT, env=env2, timeout=3600)
        lines = [l for l in oc.splitlines() if l.startswith(("VIOLATION", "RESULT", "KNOWN-FINDING", "MACHINERY", "  clause/key"))]
        keys = sorted({l.split("clause/key:")[1].split("--")[0].strip() for l in lines if "clause/key:" in l})
        meta.update(check_cmd="VERIF_REPO=<worktree with patch> ./check %s --tier %s" % (pid, tier), check_exit=rcc,
                    check_wall_s=round(time.time() - t0, 1), check_keys=keys,
                    check_result=[l for l in lines if l.startswith(("RESULT", "MACHINERY"))][:2],
                    detected=(rcc == 1 and any(l.startswith("VIOLATION") for l in lines)))
        notes = (mdir / "notes.md").read_text() if (mdir / "notes.md").exists() else ""
        meta["needs_to_manifest"] = notes[:1500]
        dst = ROOT / "seeded" / name
        if confirmed:
            dst.mkdir(parents=True, exist_ok=True)
            shutil.copy(mdir / "patch.diff", dst / "patch.diff")
            shutil.copy(demo, dst / demo.name)
            (dst / "meta.json").write_text(json.dumps(meta, indent=1))
        print(json.dumps({k: meta[k] for k in ("property", "confirmed", "detected", "check_exit", "check_keys", "check_result",
                                               "demo_clean_exit", "demo_patched_exit", "pinned_suite_with_patch")}, indent=1))
    finally:
        sh("git -C /repo worktree remove --force %s" % WT)


if __name__ == "__main__":
    main()
