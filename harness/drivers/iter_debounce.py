"""Driver for the real llama_agents.core.iter_utils.debounced_sorted_prefix under the virtual loop.

A scenario (as enumerated by MC_Debounce.tla) gives integer arrival times and keys of the inner
stream's items and the time at which the inner stream ends; D/M are debounce_seconds /
max_window_seconds.  Time 0 is the consumer's first pull (which creates the Debouncer).  The inner
generator blocks on one gate per element.  For every item the schedule says *how* it becomes ready
at its arrival time t:
  "after"   the clock is advanced to t (timers due at t fire, the loop quiesces), then the gate is released
  "timer"   the gate is released by a loop timer due at t (same loop iteration as other timers due at t)
  "before"  the gate is released at the preceding quiescence point and the clock reaches t before the
            next loop iteration (an I/O completion that lands just ahead of the timer)
`prio` is the order in which a two-element `done` set of asyncio.wait is iterated (wrapped in the
harness, see iter_merge).  Debouncer's default clock argument (bound to the real time.monotonic at
import) is pointed at the virtual clock.
"""
from __future__ import annotations

import asyncio

from harness.env import vloop
from harness.drivers import iter_merge

_LOOP = [None]


def _vnow():
    return _LOOP[0].mono()


class Run:
    def __init__(self, scen, D, M, modes, prio, end_mode="after"):
        self.iu = iter_merge.iter_utils()
        self.iu.Debouncer.__init__.__defaults__ = (0.1, 1, _vnow)
        self.scen = scen
        self.n = len(scen["t"])
        self.D, self.M = D, M
        self.modes = list(modes) + ["after"] * (self.n - len(modes))
        self.end_mode = end_mode
        self.prio = list(prio)
        self.loop = vloop.new_loop()
        _LOOP[0] = self.loop
        iter_merge._CURRENT = self
        self.gates = {}
        self.inner_tasks = set()
        self.out = []
        self.arrived = []          # (item, virtual time relative to t0) as seen by the source body
        self.closed = False
        self.error = None
        self.done_sizes = []

    # asyncio.wait wrapper hook (see iter_merge._AsyncioProxy)
    def order_done(self, done):
        def rank(t):
            who = "inner" if t in self.inner_tasks else "mark"
            return self.prio.index(who)
        lst = sorted(done, key=rank)
        self.done_sizes.append(len(lst))
        return lst

    async def _inner(self):
        for i in range(1, self.n + 1):
            await self._gate(i)
            self.arrived.append((i, self.loop.time() - self.t0))
            yield i
        await self._gate("end")

    async def _gate(self, name):
        self.inner_tasks.add(asyncio.current_task())
        g = self.loop.create_future()
        self.gates[name] = g
        await g

    async def _consume(self):
        key = self.scen["key"]
        try:
            async for x in self.iu.debounced_sorted_prefix(
                    self._inner(), key=lambda i: key[i - 1],
                    debounce_seconds=float(self.D), max_window_seconds=float(self.M)):
                self.out.append(x)
            self.closed = True
        except Exception as e:      # noqa: BLE001
            self.error = repr(e)

    def _release(self, name):
        g = self.gates.get(name)
        if g is not None and not g.done():
            g.set_result(None)

    def run(self):
        loop = self.loop
        snaps = []
        elements = [(self.scen["t"][i - 1], i, self.modes[i - 1]) for i in range(1, self.n + 1)]
        elements.append((self.scen["endT"], "end", self.end_mode))
        horizon = self.scen["endT"] + self.D + self.M + 1
        with vloop.patched_clocks(loop):
            self.t0 = loop.time()
            task = loop.create_task(self._consume())
            loop.quiesce()
            for tau in range(0, horizon + 1):
                here = [e for e in elements if e[0] == tau]
                target = self.t0 + tau
                first = here[0] if here else None
                rest = here
                if first and tau > 0 and first[2] == "before" and first[1] in self.gates and not self.gates[first[1]].done():
                    self._release(first[1])
                    loop._vnow = target          # the clock reaches t before the next loop iteration
                    loop.quiesce()
                    rest = here[1:]
                elif first and tau > 0 and first[2] == "timer" and first[1] in self.gates and not self.gates[first[1]].done():
                    loop.call_at(target, self._release, first[1])
                    loop.advance_to(target)
                    rest = here[1:]
                else:
                    loop.advance_to(target)
                for (_, name, _) in rest:
                    loop.quiesce()
                    self._release(name)
                    loop.quiesce()
                snaps.append(list(self.out))
            if not task.done():
                task.cancel()
                loop.quiesce()
        return snaps

    def close(self):
        iter_merge._CURRENT = None
        vloop.close_loop(self.loop)
        _LOOP[0] = None


def execute(scen, D, M, modes, prio, end_mode="after"):
    """Returns the recorded trace: scenario, per-time-unit snapshots of the output, final status."""
    r = Run(scen, D, M, modes, prio, end_mode)
    try:
        snaps = r.run()
        return {
            "t": list(scen["t"]), "key": list(scen["key"]), "endT": scen["endT"], "D": D, "M": M,
            "modes": r.modes, "prio": r.prio, "end_mode": end_mode,
            "arrived": [[i, int(round(t))] for i, t in r.arrived],
            "snaps": snaps, "out": list(r.out), "closed": bool(r.closed), "error": r.error or "",
            "max_done": max(r.done_sizes) if r.done_sizes else 0,
        }
    finally:
        r.close()
