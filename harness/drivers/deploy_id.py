"""Driver for C32: the real control-plane find_deployment_id on concretised class strings.

The kubernetes client is not installed: `llama_agents.control_plane` is imported through a namespace stub
(its __init__ pulls the whole service stack) and the availability check `validate_deployment_id` is replaced by a
stub that answers "free" (or "in use" a given number of times first).  Everything else is the real code.
"""
from __future__ import annotations

import asyncio
import random
import re

from harness.env import stubimport

stubimport.install(extra_missing=("urllib3",))

_k = {}

# representatives per class: (character, lower-case ascii alphanumeric it contributes or "")
REPS = {
    "L": [(c, c) for c in "abcdefxyz"] + [("q", "q"), ("m", "m")],
    "U": [(c, c.lower()) for c in "ABCDEFXYZ"] + [("K", "k")],          # KELVIN SIGN lower-cases to ascii k
    "D": [(c, c) for c in "0123456789"],
    "O": [(c, "") for c in " ._/\\@+*~!?#%&()[]{}<>=,;:'\"`^|$\t\n\x00\x7f"],
    "H": [("-", "")],
    "N": [(c, "") for c in ["é", "ß", "中", "Ω", "٣", "ａ", "１", "\U0001d7d9",
                              "\U0001f600", "́", " ", "É", "Ж", "—", "²", "ı"]],
}


def _import():
    if not _k:
        import importlib
        stubimport.namespace_stub("llama_agents.control_plane",
                                  stubimport.REPO + "/packages/llama-agents-control-plane/src/llama_agents/control_plane")
        mod = importlib.import_module("llama_agents.control_plane.k8s_client")
        dep = importlib.import_module("llama_agents.core.schema.deployments")
        _k["mod"], _k["dep"] = mod, dep
        _k["loop"] = asyncio.new_event_loop()
    return _k


_NAME = re.compile(r'name = <<(.*?)>>', re.S)
_TOK = re.compile(r'"(\w)"')


def cases_from_dot(path):
    """(name classes tuple, mode, draw) of every state of the dumped graph."""
    from harness.tlc import _dot_unescape, _NODE
    out = []
    seen = set()
    with open(path) as f:
        for ln in f:
            m = _NODE.match(ln)
            if not m or m.group(1) in seen:
                continue
            seen.add(m.group(1))
            lab = _dot_unescape(m.group(2))
            nm = _NAME.search(lab)
            mode = re.search(r'mode = "(\w+)"', lab)
            draw = re.search(r'draw = "(\w+)"', lab)
            if not (nm and mode and draw):
                continue
            out.append((tuple(_TOK.findall(nm.group(1))), mode.group(1), draw.group(1)))
    return out


def draw_seeds(start):
    """Seeds of `random` whose first hex draw is a digit / a letter (two distinct letter seeds)."""
    digit, alpha = [], []
    s = start
    while len(digit) < 1 or len(alpha) < 2:
        random.seed(s)
        c = random.choices("0123456789abcdef", k=5)[0]
        (digit if c.isdigit() else alpha).append(s)
        s += 1
    return {"digit": digit[0], "alpha": alpha[0], "alpha2": alpha[1]}


def concretise(classes, rng):
    chars, alnum = [], []
    for c in classes:
        ch, low = rng.choice(REPS[c])
        chars.append(ch)
        alnum.append(low)
    return "".join(chars), alnum


def call(name, mode, seed):
    k = _import()
    mod = k["mod"]
    n = {"left": 1 if mode == "collide" else 0}

    async def avail(candidate):
        if n["left"] > 0:
            n["left"] -= 1
            return False
        return True
    orig = mod.validate_deployment_id
    mod.validate_deployment_id = avail
    try:
        random.seed(seed)
        return k["loop"].run_until_complete(mod.find_deployment_id(name, force_suffix=(mode == "force")))
    finally:
        mod.validate_deployment_id = orig


def repo_validator_accepts(value):
    """The repository's own DNS-1035 validator (llama_agents.core.schema.deployments), used for cross-checking."""
    try:
        _import()["dep"].validate_dns_1035_label(value)
        return True
    except ValueError:
        return False
