"""Driver for C17: the real WorkflowClient.get_workflow_events over httpx.MockTransport, fed by the real
server-side SSE formatter (_WorkflowAPI._stream_events / format_stream) on a real MemoryWorkflowStore.

Two modes:

* gated (System): the byte stream of every connection is released by the driver, one environment action
  of specs/client/SseClient.tla at a time, at quiescence points of the virtual loop:
      ["arm", k]       the next k connection attempts fail with httpx.ConnectError
      ["start"]        create the client stream and a consumer task iterating it
      ["append"]       the server appends the next event of the run to the store
      ["hb"]           virtual time advances by the heartbeat interval (server emits ": heartbeat")
      ["deliver", p]   bytes of the frame at the head of the wire reach the client up to abstract position p
                       (1 inside first line, 2 after first line, 3 inside data line, 4 after data line,
                        5 after blank line = frame complete)
      ["drop"]         the connection is cut: the response stream raises httpx.ReadError
      ["close"]        the server's clean end of stream reaches the client
  After each action the loop runs to quiescence and the observable state is projected.
* free (run_plan): each connection delivers the server's bytes eagerly and is cut after a given concrete byte
  offset (every offset of the stream, not only the abstract positions).

Abstract <-> concrete: event index i in 1..N has store sequence base+i-1; abstract cursor c means
after_sequence = base+c-1.  `base` filler events precede the run's events so that ids can have several digits.
"""
from __future__ import annotations

import asyncio
import importlib
import types

import httpx

from harness.env import stubimport, vloop

stubimport.install()

HB_INTERVAL = 5.0
_mods = {}


class _HTTPException(Exception):
    def __init__(self, status_code=500, detail=None, headers=None):
        super().__init__(detail)
        self.status_code = status_code
        self.detail = detail


class _StreamingResponse:
    def __init__(self, content, status_code=200, headers=None, media_type=None, background=None):
        self.body_iterator = content
        self.status_code = status_code
        self.media_type = media_type


class _JSONResponse:
    def __init__(self, content=None, status_code=200, **kw):
        self.content = content
        self.status_code = status_code


def _import():
    """Import the real server API module with just enough of starlette faked to call _stream_events."""
    if _mods:
        return _mods
    stubimport.stub_module("starlette.exceptions", HTTPException=_HTTPException)
    stubimport.stub_module("starlette.responses", StreamingResponse=_StreamingResponse, JSONResponse=_JSONResponse)
    _mods["api"] = importlib.import_module("llama_agents.server._api")
    _mods["mem"] = importlib.import_module("llama_agents.server._store.memory_workflow_store")
    _mods["abs"] = importlib.import_module("llama_agents.server._store.abstract_workflow_store")
    _mods["env"] = importlib.import_module("llama_agents.client.protocol.serializable_events")
    _mods["client"] = importlib.import_module("llama_agents.client.client")
    return _mods


class _Params(dict):
    def get(self, k, default=None):
        return dict.get(self, k, default)


class _FakeRequest:
    """What _stream_events reads from a starlette Request."""

    def __init__(self, handler_id, query, headers):
        self.path_params = {"handler_id": handler_id}
        self.query_params = _Params(query)
        self.headers = _Params({k.lower(): v for k, v in headers.items()})


# ------------------------------------------------------------------ frame geometry

def frame_offsets(frame: bytes, rng=None):
    """Concrete byte offsets of the abstract cut positions inside one SSE frame.
    Event frame  b"id: N\\ndata: {...}\\n\\n";  heartbeat frame b": heartbeat\\n\\n" (positions 1, 2, 5 only)."""
    n1 = frame.index(b"\n") + 1                     # end of first line
    out = {0: 0, 2: n1, 5: len(frame)}
    lo, hi = 1, n1 - 1                              # strictly inside the first line (newline not included)
    out[1] = (lo + hi) // 2 if rng is None else rng.randint(lo, hi)
    if frame.startswith(b"id:"):
        n2 = frame.index(b"\n", n1) + 1             # end of data line
        lo, hi = n1 + 1, n2 - 1
        out[3] = (lo + hi) // 2 if rng is None else rng.randint(lo, hi)
        out[4] = n2
        assert n2 + 1 == len(frame), frame
    else:
        assert n1 + 1 == len(frame), frame
    return out


class _Conn:
    """One HTTP connection's response body: frames pumped eagerly from the real server generator, released to
    the client under driver control (gated) or eagerly up to a byte budget (free)."""

    def __init__(self, sysm, body_iterator, request, budget=None, gated=True):
        self.sysm = sysm
        self.body = body_iterator
        self.request = request
        self.frames = []          # complete frames produced by the server, not yet fully delivered
        self.head_off = 0         # bytes of frames[0] already released
        self.head_pos = 0         # abstract position reached in frames[0]
        self.server_eof = False
        self.outbox = asyncio.Queue()
        self.closed = False
        self.dropped = False
        self.gated = gated
        self.budget = budget      # free mode: cut after this many bytes (None = never)
        self.sent = 0
        self.pump = asyncio.ensure_future(self._pump())

    async def _pump(self):
        try:
            async for chunk in self.body:
                data = chunk.encode() if isinstance(chunk, str) else bytes(chunk)
                if self.gated:
                    self.frames.append(data)
                else:
                    await self._free_send(data)
                    if self.dropped:
                        return
            self.server_eof = True
            if not self.gated:
                await self.outbox.put(("eof",))
        except asyncio.CancelledError:
            raise

    async def _free_send(self, data):
        if self.budget is not None and self.sent + len(data) >= self.budget:
            keep = self.budget - self.sent
            if keep:
                for piece in self.sysm.chunk(data[:keep]):
                    await self.outbox.put(("bytes", piece))
            self.sent = self.budget
            self.dropped = True
            await self.outbox.put(("drop",))
            return
        self.sent += len(data)
        for piece in self.sysm.chunk(data):
            await self.outbox.put(("bytes", piece))

    async def aclose_server(self):
        if not self.pump.done():
            self.pump.cancel()
            try:
                await self.pump
            except BaseException:
                pass
        try:
            await self.body.aclose()
        except BaseException:
            pass


class _GatedStream(httpx.AsyncByteStream):
    def __init__(self, conn: _Conn):
        self.conn = conn

    async def __aiter__(self):
        conn = self.conn
        while True:
            item = await conn.outbox.get()
            if item[0] == "bytes":
                yield item[1]
            elif item[0] == "eof":
                return
            else:
                conn.dropped = True
                conn.sysm.drops += 1
                conn.sysm._failure()
                raise httpx.ReadError("connection cut by the harness", request=conn.request)

    async def aclose(self):
        self.conn.closed = True
        await self.conn.aclose_server()


class System:
    def __init__(self, n, hidden=(), base=0, cursor=0, preload=0, max_attempts=3, include_internal=False,
                 chunking="whole", rng=None, heartbeat=HB_INTERVAL, gated=True, budgets=None):
        m = _import()
        self.m = m
        self.n = n
        self.hidden = set(hidden)
        self.base = base
        self.cursor = cursor
        self.max_attempts = max_attempts
        self.include_internal = include_internal
        self.chunking = chunking
        self.rng = rng
        self.gated = gated
        self.budgets = list(budgets or [])      # free mode: byte budget per successful connection, in order
        self.loop = vloop.new_loop()
        self.store = m["mem"].MemoryWorkflowStore()
        self.api = m["api"]._WorkflowAPI(types.SimpleNamespace(store=self.store), sse_heartbeat_interval=heartbeat)
        self.store.handlers["h"] = m["abs"].PersistentHandler(handler_id="h", workflow_name="w", status="running",
                                                                run_id="r")
        self.appended = 0
        self.armed = 0
        self.conn = None
        self.requests = []        # every connection attempt: {after, status}
        self.n200 = 0
        self.drops = 0
        self.consec = 0           # consecutive failures without a successful (200/204) response in between
        self.max_consec = 0
        self.yields = []
        self.cons = "init"
        self.error = ""
        self.last0 = None
        self.stream = None
        self.task = None
        self._reported = (0, 0)
        for _ in range(base):
            self._run(self.store.append_event("r", self._envelope(0)))
        for _ in range(preload):
            self.append()

    # ---------------------------------------------------------------- helpers
    def _run(self, coro):
        t = self.loop.create_task(coro)
        self.loop.quiesce()
        if not t.done():
            raise RuntimeError("harness coroutine did not finish at quiescence")
        return t.result()

    def _envelope(self, i):
        E = self.m["env"].EventEnvelopeWithMetadata
        if i == 0:
            return E(value={"uid": "filler"}, type="Filler", types=[], qualified_name="verif.Filler")
        if i == self.n:
            return E(value={"uid": "e%d" % i, "result": "r"}, type="StopEvent", types=[],
                     qualified_name="workflows.events.StopEvent")
        if i in self.hidden:
            return E(value={"uid": "e%d" % i}, type="StepStateChanged", types=["InternalDispatchEvent"],
                     qualified_name="workflows.events.StepStateChanged")
        return E(value={"uid": "e%d" % i, "text": "payload é中 %d" % i}, type="EvA", types=[],
                 qualified_name="verif.EvA")

    def chunk(self, data: bytes):
        if not data:
            return []
        if self.chunking == "byte":
            return [data[i:i + 1] for i in range(len(data))]
        if self.chunking == "split" and len(data) > 1:
            k = (self.rng.randint(1, len(data) - 1)) if self.rng else len(data) // 2
            return [data[:k], data[k:]]
        return [data]

    def a_seq(self, concrete):
        return int(concrete) - self.base + 1

    def c_seq(self, abstract):
        return self.base + abstract - 1

    # ---------------------------------------------------------------- transport
    async def _handler(self, request: httpx.Request):
        q = dict(request.url.params)
        rec = {"after": self.a_seq(int(q.get("after_sequence", "-1"))), "status": "?"}
        self.requests.append(rec)
        if self.armed > 0:
            self.armed -= 1
            rec["status"] = "fail"
            self._failure()
            raise httpx.ConnectError("connection refused by the harness", request=request)
        req = _FakeRequest("h", q, dict(request.headers))
        try:
            resp = await self.api._stream_events(req)
        except _HTTPException as e:
            rec["status"] = str(e.status_code)
            self.consec = 0
            return httpx.Response(e.status_code, request=request,
                                  content=b"" if e.status_code == 204 else b'{"detail":"x"}')
        rec["status"] = "200"
        self.consec = 0
        budget = None
        if not self.gated:
            budget = self.budgets[self.n200] if self.n200 < len(self.budgets) else None
        self.n200 += 1
        self.conn = _Conn(self, resp.body_iterator, request, budget=budget, gated=self.gated)
        return httpx.Response(200, headers={"content-type": "text/event-stream"}, stream=_GatedStream(self.conn),
                              request=request)

    def _failure(self):
        self.consec += 1
        self.max_consec = max(self.max_consec, self.consec)

    async def _consume(self):
        self.cons = "running"
        try:
            async for ev in self.stream:
                uid = ev.value.get("uid", "?") if isinstance(ev.value, dict) else "?"
                ls = self.stream.last_sequence
                self.yields.append({"ev": int(uid[1:]) if uid[1:].isdigit() else -1,
                                    "seq": self.a_seq(ls) if isinstance(ls, int) else -99})
            self.cons = "done"
        except ConnectionError as e:
            self.cons = "failed"
            self.error = "ConnectionError: %s" % e
        except Exception as e:  # anything else is reported as a failure of the stream, with its type
            self.cons = "failed"
            self.error = "%s: %s" % (type(e).__name__, str(e)[:200])

    # ---------------------------------------------------------------- environment actions
    def start(self):
        hc = httpx.AsyncClient(transport=httpx.MockTransport(self._handler), base_url="http://verif")
        self.hc = hc
        client = self.m["client"].WorkflowClient(httpx_client=hc)

        async def go():
            self.stream = client.get_workflow_events("h", include_internal_events=self.include_internal,
                                                     after_sequence=self.c_seq(self.cursor),
                                                     max_reconnect_attempts=self.max_attempts)
            ls = self.stream.last_sequence
            self.last0 = self.a_seq(ls) if isinstance(ls, int) else -99
            self.task = asyncio.ensure_future(self._consume())
        self.loop.create_task(go())

    def append(self):
        self.appended += 1
        self.loop.create_task(self.store.append_event("r", self._envelope(self.appended)))

    def live(self):
        c = self.conn
        return c is not None and not c.closed and not c.dropped

    def enabled(self):
        out = []
        if self.cons == "init":
            out.append("start")
        if self.armed == 0 and (self.cons == "init" or self.live()):
            out.append("arm")
        if self.appended < self.n:
            out.append("append")
        if self.live():
            c = self.conn
            out.append("drop")
            if c.frames:
                out.append("deliver")
            elif c.server_eof:
                out.append("close")
            if not c.server_eof:
                out.append("hb")
        return out

    def apply(self, cmd):
        name = cmd[0]
        if name == "arm":
            self.armed += int(cmd[1])
        elif name == "start":
            self.start()
        elif name == "append":
            self.append()
        elif name == "hb":
            self.loop.quiesce()
            nt = self.loop.next_timer()
            if nt is None:
                raise RuntimeError("no heartbeat timer pending")
            self.loop.advance_to(nt)
        elif name == "deliver":
            c = self.conn
            p = int(cmd[1])
            offs = frame_offsets(c.frames[0], self.rng)
            if p not in offs or p <= c.head_pos:
                raise RuntimeError("deliver %s not possible at position %s" % (p, c.head_pos))
            off = max(offs[p], c.head_off)
            data = c.frames[0][c.head_off:off]
            for piece in self.chunk(data):
                c.outbox.put_nowait(("bytes", piece))
            c.head_off, c.head_pos = off, p
            if p == 5:
                c.frames.pop(0)
                c.head_off = c.head_pos = 0
        elif name == "drop":
            self.conn.outbox.put_nowait(("drop",))
        elif name == "close":
            self.conn.outbox.put_nowait(("eof",))
        else:
            raise ValueError(name)
        self.loop.quiesce()
        return self.project()

    def project(self):
        r0, y0 = self._reported
        self._reported = (len(self.requests), len(self.yields))
        ls = self.stream.last_sequence if self.stream is not None else None
        c = self.conn
        return {
            "reqs": [dict(r) for r in self.requests[r0:]],
            "yields": [dict(y) for y in self.yields[y0:]],
            "cons": self.cons,
            "last": self.a_seq(ls) if isinstance(ls, int) else self.cursor,
            "log": self.appended,
            "open": bool(self.live()),
            "wire": [self._frame_id(f) for f in c.frames] if self.live() else [],
            "pos": c.head_pos if self.live() else 0,
            "eof": bool(c.server_eof) if self.live() else False,
        }

    def _frame_id(self, f: bytes):
        if f.startswith(b"id:"):
            return self.a_seq(int(f[3:f.index(b"\n")].strip()))
        return 0

    def summary(self):
        """What Obs_C17 judges: only what a user of the client (and the operator of the server) can see."""
        return {
            "cursor": self.cursor, "n": self.n, "log": self.appended,
            "visible": [i for i in range(1, self.appended + 1) if self.include_internal or i not in self.hidden],
            "terminal": self.n if self.appended >= self.n else 0,
            "last0": self.last0 if self.last0 is not None else self.cursor,
            "yields": [dict(y) for y in self.yields],
            "outcome": self.cons, "error": self.error,
            "last_end": self.project_last(),
            "max_attempts": self.max_attempts, "max_consec": self.max_consec,
            "faults": sum(1 for r in self.requests if r["status"] == "fail") + self.drops,
            "reqs": [dict(r) for r in self.requests],
        }

    def project_last(self):
        ls = self.stream.last_sequence if self.stream is not None else None
        return self.a_seq(ls) if isinstance(ls, int) else self.cursor

    def finish(self, max_steps=200):
        """Epilogue without further faults: append what is missing, deliver everything, close."""
        steps = []
        for _ in range(max_steps):
            if self.cons in ("done", "failed"):
                break
            en = self.enabled()
            if "start" in en:
                cmd = ["start"]
            elif "deliver" in en:
                cmd = ["deliver", 5]
            elif "append" in en:
                cmd = ["append"]
            elif "close" in en:
                cmd = ["close"]
            else:
                break
            steps.append({"cmd": cmd, "post": self.apply(cmd)})
        return steps

    def close(self):
        try:
            if self.task is not None and not self.task.done():
                self.task.cancel()
            self.loop.quiesce()
        except Exception:
            pass
        vloop.close_loop(self.loop)


# ---------------------------------------------------------------------- schedule replay (gated)

def run_schedule(cfg, schedule, finish=True):
    """cfg: dict(n, hidden, base, cursor, preload, max_attempts, include_internal, chunking); schedule: list of
    commands.  Commands that are not enabled in the real system are skipped and reported as drift."""
    rng = cfg.get("rng")
    s = System(cfg["n"], hidden=cfg.get("hidden", ()), base=cfg.get("base", 0), cursor=cfg["cursor"],
               preload=cfg.get("preload", 0), max_attempts=cfg.get("max_attempts", 3),
               include_internal=cfg.get("include_internal", False), chunking=cfg.get("chunking", "whole"), rng=rng)
    steps, drift = [], []
    try:
        for cmd in schedule:
            en = s.enabled()
            ok = cmd[0] in en
            if ok and cmd[0] == "deliver":
                offs = frame_offsets(s.conn.frames[0])
                ok = int(cmd[1]) in offs and int(cmd[1]) > s.conn.head_pos
            if not ok:
                drift.append({"at": len(steps), "cmd": list(cmd), "enabled": en})
                break
            steps.append({"cmd": list(cmd), "post": s.apply(cmd)})
        if finish:      # also after a divergence: the run is still completed and judged
            steps += s.finish()
        summ = s.summary()
    finally:
        s.close()
    return {"steps": steps, "drift": drift, "summary": summ}


# ---------------------------------------------------------------------- free-running byte sweep

def run_plan(cfg, budgets, fail_first=0):
    """All events preloaded; successful connection k is cut after budgets[k] bytes of its body (None = no cut);
    the first `fail_first` connection attempts fail outright.  Returns the Obs_C17 summary."""
    s = System(cfg["n"], hidden=cfg.get("hidden", ()), base=cfg.get("base", 0), cursor=cfg["cursor"],
               preload=cfg["n"], max_attempts=cfg.get("max_attempts", 3),
               include_internal=cfg.get("include_internal", False), chunking=cfg.get("chunking", "whole"),
               rng=cfg.get("rng"), gated=False, budgets=budgets)
    try:
        s.armed = fail_first
        s.start()
        s.loop.quiesce()
        summ = s.summary()
        summ["sizes"] = s.n200
    finally:
        s.close()
    return summ


def body_length(cfg, after_abstract):
    """Length in bytes of the complete body the real server streams for a cursor (all events preloaded)."""
    s = System(cfg["n"], hidden=cfg.get("hidden", ()), base=cfg.get("base", 0), cursor=after_abstract,
               preload=cfg["n"], include_internal=cfg.get("include_internal", False), gated=False)
    try:
        s.start()
        s.loop.quiesce()
        return 0 if s.conn is None else s.conn.sent
    finally:
        s.close()
