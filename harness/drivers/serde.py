"""Driver for C18: concretise an abstract serde vector (a state of specs/tables/Serde.tla), push the real object
through the real serialisation path, and project what came back.

A vector is a dict
    cls    class kind ("event", "start", "stop", "input_required", "human_response" = generated/base classes;
           "wf_failed", "step_failed", "timed_out", "cancelled", "idle_released", "step_state", "unhandled", "idle"
           = the library's own classes; "none" = a tick that carries no event)
    typed  list of typed field kinds (generated subclass `<Base>__k1__k2` of harness.drivers._c18_events)
    dyn    list of dynamic field kinds          res  result kind or "na"       exc  exception kind or "na"
    path   serialisation path                   trips 1|2                      rep  representative index
The observation (one projection, `evaluate`) holds, per component, the canonical rendering of the value before and
after (pure ASCII strings `lb/la`, equal iff the values are equal in Python's sense; long texts as a digest), so that
TLC can compare them, plus Python's own `==` as a cross-check of the rendering and `drift` (equal, but bool/int/float
differ: a note at most).
"""
from __future__ import annotations

import hashlib
import json
import re
from datetime import datetime, timezone
from enum import Enum

from harness.env import stubimport

stubimport.install()

_m = {}


def _mods():
    if not _m:
        import importlib

        _m["ev"] = importlib.import_module("workflows.events")
        _m["ser"] = importlib.import_module("workflows.context.serializers")
        _m["ticks"] = importlib.import_module("workflows.runtime.types.ticks")
        _m["results"] = importlib.import_module("workflows.runtime.types.results")
        _m["env"] = importlib.import_module("llama_agents.client.protocol.serializable_events")
        _m["k"] = importlib.import_module("harness.drivers._c18_events")
        _m["pyd"] = importlib.import_module("pydantic")
        _m["S"] = _m["ser"].JsonSerializer()
    return _m


GENERATED = ("event", "start", "stop", "input_required", "human_response")
STOP_LIKE = ("stop", "wf_failed", "timed_out", "cancelled", "idle_released")
EVENT_PATHS = ("json", "json_container", "env_meta_qn", "env_meta_reg", "env_meta_reg_base", "env_client", "env_client_str")
TICK_EVENT_PATHS = ("tick_add", "tick_add_retry", "tick_publish", "tick_step_result", "tick_step_trigger",
                    "tick_step_failed", "tick_step_collect", "tick_step_waiter")
TICK_BARE_PATHS = ("tick_cancel", "tick_idle_release", "tick_timeout", "tick_waiter_timeout", "tick_idle_check")


# ------------------------------------------------------------------ canonical renderings (ASCII only)
def qualname(t):
    return "%s.%s" % (t.__module__, t.__qualname__)


def _s(x):
    return json.dumps(x, ensure_ascii=True)


def canon(x, strict):
    """Canonical text of a value.  strict=False: two values get the same text iff they are equal in Python's sense
    (for the value universe of the grid); strict=True additionally separates bool / int / float."""
    m = _mods()
    BaseModel, Event = m["pyd"].BaseModel, m["ev"].Event
    if x is None:
        return "N"
    if isinstance(x, Enum):
        return "E<%s>.%s" % (qualname(type(x)), x.name)
    if isinstance(x, (bool, int, float)):
        if strict:
            return ("b:" if isinstance(x, bool) else "i:" if isinstance(x, int) else "f:") + repr(x)
        if x != x or x in (float("inf"), float("-inf")):
            return "n:" + repr(x)
        return "n:" + (str(int(x)) if x == int(x) else repr(float(x)))
    if isinstance(x, str):
        return "s:" + _s(x)
    if isinstance(x, datetime):
        if x.tzinfo is None:
            return "dtn:" + x.isoformat()
        return "dta:" + x.astimezone(timezone.utc).isoformat()
    if isinstance(x, list):
        return "[" + ",".join(canon(i, strict) for i in x) + "]"
    if isinstance(x, tuple):
        return "T(" + ",".join(canon(i, strict) for i in x) + ")"
    if isinstance(x, (set, frozenset)):
        return "S{" + ",".join(sorted(canon(i, strict) for i in x)) + "}"
    if isinstance(x, dict):
        return "{" + ",".join(sorted(canon(k, strict) + "=" + canon(v, strict) for k, v in x.items())) + "}"
    if isinstance(x, BaseException):
        return "X<%s>:%s" % (qualname(type(x)), _s(str(x)))
    if isinstance(x, type):
        return "C<%s>" % qualname(x)
    if isinstance(x, Event):
        typed = ",".join("%s=%s" % (f, canon(getattr(x, f), strict)) for f in sorted(type(x).model_fields))
        res = ""
        if isinstance(x, m["ev"].StopEvent):
            res = "|result=" + canon(x._result, strict)
        return "Ev<%s>{%s}|data=%s%s" % (qualname(type(x)), typed, canon(dict(x._data), strict), res)
    if isinstance(x, BaseModel):
        fields = []
        is_waiter = type(x).__name__.startswith("AddWaiter")
        for f in sorted(type(x).model_fields):
            v = getattr(x, f)
            if is_waiter and f in ("requirements", "has_requirements"):
                continue        # documented: requirements are not serialised (judged separately, never demanded)
            fields.append("%s=%s" % (f, canon(v, strict)))
        name = "workflows.runtime.types.results.AddWaiter" if is_waiter else qualname(type(x))
        return "M<%s>{%s}" % (name, ",".join(fields))
    return "O<%s>:%s" % (qualname(type(x)), _s(repr(x)))


def _short(text):
    """Long canonical texts travel as a digest: TLC only compares them."""
    return text if len(text) <= 48 else "#" + hashlib.sha1(text.encode()).hexdigest()[:20]


def _comp(name, kind, before, after):
    try:
        eq = bool(before == after)
    except Exception:
        eq = False
    lb, la = canon(before, False), canon(after, False)
    return {"name": name, "kind": kind, "lb": _short(lb), "la": _short(la), "pyeq": eq,
            "drift": lb == la and canon(before, True) != canon(after, True), "text": [lb[:300], la[:300]]}


# ------------------------------------------------------------------ building the event of a vector
FIXED_TYPED = {
    # class kind -> [(field, value kind used in clause names)]
    "wf_failed": [("step_name", "str"), ("attempts", "int"), ("elapsed_seconds", "float_frac")],
    "step_failed": [("step_name", "str"), ("input_event", "event_ser"), ("attempts", "int"),
                    ("elapsed_seconds", "float_frac"), ("failed_at", "datetime_aware")],
    "timed_out": [("timeout", "float_frac"), ("active_steps", "list_str")],
    "cancelled": [], "idle_released": [], "idle": [],
    "step_state": [("name", "str"), ("step_state", "enum"), ("worker_id", "str"), ("input_event_name", "str"),
                   ("output_event_name", "opt_some")],
    "unhandled": [("event_type", "str"), ("qualified_name", "str"), ("step_name", "opt_some"), ("idle", "bool")],
}


def build_event(v):
    """-> (event, typed [(field, kind)], dyn [(key, kind)], exception or None)"""
    m = _mods()
    K, E = m["k"], m["ev"]
    rep = v["rep"]
    dyn = {"d_" + k: K.untyped_value(k, rep) for k in v["dyn"]}
    kw = dict(dyn)
    exc = None
    cls_kind = v["cls"]
    if cls_kind in GENERATED:
        cls = K.event_class(cls_kind, v["typed"])
        typed = [("f_" + k, k) for k in sorted(v["typed"])]
        for f, k in typed:
            val = K.value_of(K.TYPED_KINDS, k, rep)
            if val is not K.UNSET:
                kw[f] = val
    else:
        typed = list(FIXED_TYPED[cls_kind])
        names = ["s", "", "step_é", "a_rather_long_step_name_0123456789"]
        if cls_kind in ("wf_failed", "step_failed"):
            exc = K.exception_of(v["exc"], rep)
            kw.update(step_name=names[rep % 4], exception=exc, attempts=[1, 3, 0][rep % 3],
                      elapsed_seconds=[0.5, 12.125, 1e-06][rep % 3])
            cls = E.WorkflowFailedEvent
            if cls_kind == "step_failed":
                cls = E.StepFailedEvent
                kw["input_event"] = K.value_of(K.TYPED_KINDS, "event_ser", rep)
                kw["failed_at"] = K.value_of(K.TYPED_KINDS, "datetime_aware", rep)
        elif cls_kind == "timed_out":
            cls = E.WorkflowTimedOutEvent
            kw.update(timeout=[30.5, 0.001, 3600.25][rep % 3], active_steps=[["a", "b"], [], ["é"]][rep % 3])
        elif cls_kind == "cancelled":
            cls = E.WorkflowCancelledEvent
        elif cls_kind == "idle_released":
            cls = E.IdleReleasedEvent
        elif cls_kind == "idle":
            cls = E.WorkflowIdleEvent
        elif cls_kind == "step_state":
            cls = E.StepStateChanged
            kw.update(name=names[rep % 4], step_state=list(E.StepState)[rep % 3], worker_id=str(rep),
                      input_event_name="workflows.events.StartEvent", output_event_name=[None, "x.Y", ""][rep % 3])
            if kw["output_event_name"] is None:
                typed = [(f, "opt_none" if f == "output_event_name" else k) for f, k in typed]
        elif cls_kind == "unhandled":
            cls = E.UnhandledEvent
            kw.update(event_type="Foo", qualified_name="x.Foo", step_name=[None, "st", ""][rep % 3], idle=bool(rep % 2))
            if kw["step_name"] is None:
                typed = [(f, "opt_none" if f == "step_name" else k) for f, k in typed]
        else:
            raise ValueError("unknown class kind %r" % cls_kind)
    if v["res"] != "na":
        kw["result"] = K.untyped_value(v["res"], rep)
    ev = cls(**kw)
    return ev, typed, [("d_" + k, k) for k in sorted(v["dyn"])], exc


# ------------------------------------------------------------------ paths
class Raised(Exception):
    def __init__(self, where, exc):
        super().__init__(where)
        self.where, self.exc = where, exc


def _guard(where, fn, *a, **k):
    try:
        return fn(*a, **k)
    except Exception as e:  # an exception out of the code under test is an observation
        raise Raised(where, e)


def _registry(ev):
    """What a server registers for a workflow: all its event classes, base classes included (distinct short names)."""
    m = _mods()
    E, K = m["ev"], m["k"]
    return [K.Trigger, K.Leaf, K.LeafSub, E.Event, E.StartEvent, E.StopEvent, E.InputRequiredEvent, E.HumanResponseEvent,
            type(ev)]


def _event_trip(path, ev):
    m = _mods()
    S, ENV = m["S"], m["env"]
    if path == "json":
        txt = _guard("serialize", S.serialize, ev)
        return _guard("deserialize", S.deserialize, txt), txt, None, None
    if path == "json_container":
        box = {"k": ev, "l": [ev, 1, "x", None, 0.5], "n": {"m": [ev], "z": None, "e": {}}, "": []}
        txt = _guard("serialize", S.serialize, box)
        out = _guard("deserialize", S.deserialize, txt)
        return out, txt, box, out
    if path == "env_meta_reg_base":
        env = _guard("serialize", ENV.EventEnvelopeWithMetadata.from_event, ev)
        txt = _guard("serialize", env.model_dump_json)
        back = _guard("deserialize", ENV.EventEnvelopeWithMetadata.model_validate_json, txt)
        bases = [c for c in _registry(ev)[:-1] if c is not type(ev)]          # the ancestors and the other classes, not the class
        return _guard("deserialize", back.load_event, bases), txt, None, None
    if path in ("env_meta_qn", "env_meta_reg"):
        env = _guard("serialize", ENV.EventEnvelopeWithMetadata.from_event, ev)
        txt = _guard("serialize", env.model_dump_json)
        back = _guard("deserialize", ENV.EventEnvelopeWithMetadata.model_validate_json, txt)
        if path == "env_meta_qn":
            return _guard("deserialize", back.load_event), txt, None, None
        return _guard("deserialize", back.load_event, _registry(ev)), txt, None, None
    if path in ("env_client", "env_client_str"):
        env = _guard("serialize", ENV.EventEnvelope.from_event, ev)
        txt = _guard("serialize", lambda: json.dumps(env.model_dump()))
        reg = {c.__name__: c for c in _registry(ev)}
        data = txt if path == "env_client_str" else json.loads(txt)
        return _guard("deserialize", ENV.EventEnvelope.parse, data, reg), txt, None, None
    raise ValueError(path)


def build_tick(v, ev, exc2):
    """The tick of a tick path, and a getter that finds the vector's event inside a tick of that shape."""
    m = _mods()
    T, R, K = m["ticks"], m["results"], m["k"]
    rep, path = v["rep"], v["path"]
    trig = K.Trigger(tag="trigger", d_note=["n", rep])
    steps = ["step_a", "s", "étape"]
    if path == "tick_add":
        return T.TickAddEvent(event=ev), lambda t: t.event
    if path == "tick_add_retry":
        return T.TickAddEvent(event=ev, step_name=steps[rep % 3], attempts=[1, 4, 0][rep % 3],
                              first_attempt_at=[1234567890.0, 0.25, 1.7e9 + 0.125][rep % 3], last_exception=exc2,
                              last_failed_at=[1234567891.5, 0.0, 1.7e9 + 1][rep % 3],
                              recovery_counts=[{"on_err": 1}, {}, {"h1": 2, "é": 0}][rep % 3]), lambda t: t.event
    if path == "tick_publish":
        return T.TickPublishEvent(event=ev), lambda t: t.event
    if path == "tick_step_result":
        return (T.TickStepResult(step_name=steps[rep % 3], worker_id=rep, event=trig, result=[R.StepWorkerResult(result=ev)]),
                lambda t: t.result[0].result)
    if path == "tick_step_trigger":
        return (T.TickStepResult(step_name=steps[rep % 3], worker_id=rep, event=ev, result=[R.StepWorkerResult(result=None)]),
                lambda t: t.event)
    if path == "tick_step_failed":
        return (T.TickStepResult(step_name=steps[rep % 3], worker_id=rep, event=ev,
                                 result=[R.StepWorkerFailed(exception=exc2, failed_at=[1.5, 1.7e9, 0.0][rep % 3])]),
                lambda t: t.event)
    if path == "tick_step_collect":
        return (T.TickStepResult(step_name=steps[rep % 3], worker_id=rep, event=trig,
                                 result=[R.AddCollectedEvent(event_id="evt-%d" % rep, event=ev),
                                         R.DeleteCollectedEvent(event_id="evt-0"),
                                         R.StepWorkerResult(result=None)]),
                lambda t: t.result[0].event)
    if path == "tick_step_waiter":
        return (T.TickStepResult(step_name=steps[rep % 3], worker_id=rep, event=trig,
                                 result=[R.AddWaiter(waiter_id="w-%d" % rep, waiter_event=ev,
                                                     requirements=[{}, {"user": "u1"}, {"n": 1}][rep % 3],
                                                     timeout=[None, 2.5, 60.0][rep % 3], event_type=type(ev)),
                                         R.DeleteWaiter(waiter_id="w-old")]),
                lambda t: t.result[0].waiter_event)
    if path == "tick_cancel":
        return T.TickCancelRun(), None
    if path == "tick_idle_release":
        return T.TickIdleRelease(), None
    if path == "tick_idle_check":
        return T.TickIdleCheck(), None
    if path == "tick_timeout":
        return T.TickTimeout(timeout=[30.5, 0.001, 86400.0][rep % 3]), None
    if path == "tick_waiter_timeout":
        return T.TickWaiterTimeout(step_name=steps[rep % 3], waiter_id="w-%d" % rep), None
    raise ValueError(path)


def _mask(x):
    Event = _mods()["ev"].Event
    if isinstance(x, Event):
        return "<event>"
    if isinstance(x, dict):
        return {k: _mask(i) for k, i in x.items()}
    if isinstance(x, list):
        return [_mask(i) for i in x]
    return x


def _pick(box, rep):
    try:
        return (box["k"], box["l"][0], box["n"]["m"][0])[rep % 3]
    except Exception:
        return None


def _tick_trip(tick):
    A = _mods()["ticks"].WorkflowTickAdapter
    data = _guard("serialize", A.dump_python, tick, mode="json")
    txt = _guard("serialize", json.dumps, data)          # what the stores persist
    return _guard("deserialize", A.validate_python, json.loads(txt)), txt


def _tick_fields(t0, t1, skip_main):
    """Field-by-field comparison of two ticks (results of TickStepResult one by one).  The vector's own event is
    judged by the event clauses, so its slot is skipped here."""
    out = []
    for f in sorted(type(t0).model_fields):
        a, b = getattr(t0, f), getattr(t1, f, "<missing>")
        if f == "result" and isinstance(a, list):
            out.append(_comp("result.len", "tick", len(a), len(b) if isinstance(b, list) else -1))
            for i, ra in enumerate(a):
                rb = b[i] if isinstance(b, list) and i < len(b) else "<missing>"
                out.append(_comp("result[%d].class" % i, "tick", type(ra), type(rb)))
                for g in sorted(type(ra).model_fields):
                    slot = "result[%d].%s" % (i, g)
                    if slot == skip_main or (type(ra).__name__.startswith("AddWaiter") and g == "requirements"):
                        continue
                    va, vb = getattr(ra, g), getattr(rb, g, "<missing>")
                    if type(ra).__name__.startswith("AddWaiter") and g == "has_requirements":
                        # "did the waiter have requirements": written as True by the serialiser, dropped by the
                        # validator; requirements are documented as not serialisable -> recorded, never demanded
                        out.append(_comp(slot, "tick_undemanded", bool(va) or bool(ra.requirements), vb))
                        continue
                    out.append(_comp(slot, "tick", va, vb))
            continue
        if f == skip_main:
            continue
        out.append(_comp(f, "tick", a, b))
    return out


_MAIN_SLOT = {"tick_add": "event", "tick_add_retry": "event", "tick_publish": "event", "tick_step_result": "result[0].result",
              "tick_step_trigger": "event", "tick_step_failed": "event", "tick_step_collect": "result[0].event",
              "tick_step_waiter": "result[0].waiter_event"}


# ------------------------------------------------------------------ the projection
def evaluate(v):
    """Run vector v on the real code; return the record the observer judges (all strings ASCII)."""
    m = _mods()
    K = m["k"]
    rec = {"v": {"cls": v["cls"], "typed": sorted(v["typed"]), "dyn": sorted(v["dyn"]), "res": v["res"], "exc": v["exc"],
                 "path": v["path"], "trips": v["trips"], "rep": v["rep"]},
           "raised": "", "raised_detail": "", "cls_before": "", "cls_after": "", "typed": [], "dyn": [], "dyn_missing": [],
           "dyn_extra": [], "res": [], "exc": [], "tick": [], "tick_cls_before": "", "tick_cls_after": "",
           "wire_stable": True, "wire": ""}
    ev = typed = dyn = exc = None
    if v["cls"] != "none":
        ev, typed, dyn, exc = build_event(v)
        rec["cls_before"] = qualname(type(ev))
    path = v["path"]
    is_tick = path.startswith("tick_")
    exc2 = None
    if path in ("tick_add_retry", "tick_step_failed"):
        exc2 = K.exception_of(v["exc"], v["rep"] + 1)
    after = None
    t0 = t1 = None
    wires = []
    try:
        if not is_tick:
            cur = ev
            for _ in range(v["trips"]):
                cur, txt, box0, box1 = _event_trip(path, cur)
                wires.append(txt)
                if box0 is not None:
                    # the event sits at three positions of the container; rep picks the one that is judged, the
                    # container around the events must come back as it was
                    rec["tick"] = [_comp("container", "tick", _mask(box0), _mask(box1))]
                    cur = _pick(box1, v["rep"])
            after = cur
        else:
            t0, getter = build_tick(v, ev, exc2)
            t1 = t0
            for _ in range(v["trips"]):
                t1, txt = _tick_trip(t1)
                wires.append(txt)
            rec["tick_cls_before"], rec["tick_cls_after"] = qualname(type(t0)), qualname(type(t1))
            if type(t0) is type(t1):
                rec["tick"] = _tick_fields(t0, t1, _MAIN_SLOT.get(path))
                if getter is not None:
                    after = getter(t1)
    except Raised as r:
        rec["raised"] = "%s:%s" % (r.where, type(r.exc).__name__)
        rec["raised_detail"] = ("%s: %s" % (type(r.exc).__name__, r.exc))[:300]
        return rec
    rec["wire_stable"] = len(set(wires)) == 1
    rec["wire"] = wires[0][:400]
    # exceptions carried by the tick itself
    if t0 is not None and type(t0) is type(t1):
        if path == "tick_add_retry":
            rec["exc"].append(_exc("tick.last_exception", v["exc"], t0.last_exception, t1.last_exception))
        if path == "tick_step_failed":
            rec["exc"].append(_exc("tick.result[0].exception", v["exc"], t0.result[0].exception,
                                   getattr(t1.result[0], "exception", None)))
        # exception-valued tick fields are judged by the exception clauses only
        rec["tick"] = [c for c in rec["tick"] if c["name"] not in ("last_exception", "result[0].exception")]
    if ev is None:
        return rec
    if after is None or not isinstance(after, m["ev"].Event):
        rec["cls_after"] = "<%s>" % type(after).__name__
        return rec
    rec["cls_after"] = qualname(type(after))
    for f, k in typed:
        rec["typed"].append(_comp(f, k, getattr(ev, f), _typed_after(after, f)))
    d0, d1 = dict(ev._data), dict(after._data)
    for key, k in dyn:
        if key in d1:
            rec["dyn"].append(_comp(key, k, d0[key], d1[key]))
        else:
            rec["dyn_missing"].append(k)
    rec["dyn_extra"] = sorted(str(k) for k in d1 if k not in d0)
    if v["res"] != "na":
        rec["res"].append(_comp("result", v["res"], ev.result, getattr(after, "result", "<no result>")))
    if exc is not None:
        rec["exc"].append(_exc("event.exception", v["exc"], exc, _typed_after(after, "exception")))
    return rec


def _typed_after(after, f):
    if f in type(after).model_fields:
        return getattr(after, f)
    return "<missing field>"


def _exc(where, kind, before, after):
    return {"where": where, "kind": kind,
            "type_before": qualname(type(before)), "type_after": qualname(type(after)),
            "msg_before": _s(str(before)), "msg_after": _s(str(after)) if isinstance(after, BaseException) else "<not an exception>",
            "cause_before": before.__cause__ is not None, "cause_after": getattr(after, "__cause__", None) is not None}


# ------------------------------------------------------------------ reading TLC's state dump
_STR = re.compile(r'(cls|res|exc|path) = \\"([a-z0-9_]*)\\"')
_SET = re.compile(r'(typed|dyn) = \{([^}]*)\}')
_INT = re.compile(r'(trips|rep) = (\d+)')
_ITEM = re.compile(r'\\"([a-z0-9_]+)\\"')


def vectors_from_dot(path):
    """The vector of every state of the dumped graph, in file order (one state = one vector)."""
    out, seen = [], set()
    with open(path) as f:
        for ln in f:
            head = ln.split("[label=")[0]
            if "[label=" not in ln or " -> " in head or head in seen:
                continue
            seen.add(head)
            v = {k: val for k, val in _STR.findall(ln)}
            for k, body in _SET.findall(ln):
                v[k] = sorted(_ITEM.findall(body))
            for k, n in _INT.findall(ln):
                v[k] = int(n)
            if len(v) == 8:
                out.append(v)
    return out
