"""Driver for C34: the real dev_cli version functions on concretised grid points.

An abstract grid point is a pair of versions over small numbers (enumerated by TLC from Versions.tla).  It is
concretised with a strictly monotone map on numbers (so that order and "which component grew" are preserved,
while multi-digit numbers and the 9 -> 10 boundary are exercised) and one of several PEP 440-equivalent spellings
of the input.  The observation is just the functions' return values.
"""
from __future__ import annotations

import re

from harness.env import stubimport

stubimport.install()

_fn = {}


def _import():
    if not _fn:
        import importlib
        cs = importlib.import_module("dev_cli.changesets")
        vs = importlib.import_module("dev_cli.versioning")
        _fn["p2s"], _fn["s2p"], _fn["cls"] = cs.pep440_to_semver, cs.semver_to_pep440, vs.detect_change_type
    return _fn


# strictly monotone maps on component values / pre-release numbers
COMP_MAPS = [lambda x: x, lambda x: [0, 9, 10, 11, 12][x], lambda x: [1, 2, 20, 100, 101][x]]
NUM_MAPS = [lambda x: x, lambda x: [0, 9, 10, 11][x], lambda x: [1, 10, 11, 12][x]]
N_MAPS = len(COMP_MAPS)

_ALT = {"a": ["alpha", "A"], "b": ["beta", "B"], "rc": ["c", "pre", "preview", "RC"]}
N_SPELLINGS = 7

_STATE = re.compile(r'(new|old) = \[maj \|-> (\d+), min \|-> (\d+), pat \|-> (\d+), pre \|-> \\"(\w+)\\", n \|-> (\d+)\]')


def cases_from_dot(path):
    """(old, new) abstract versions of every state of the dumped graph, in file order."""
    out = []
    seen = set()
    with open(path) as f:
        for ln in f:
            head = ln.split("[label=")[0]
            if "[label=" not in ln or " -> " in head:
                continue
            if head in seen:
                continue
            seen.add(head)
            d = {}
            for m in _STATE.finditer(ln):
                d[m.group(1)] = {"maj": int(m.group(2)), "min": int(m.group(3)), "pat": int(m.group(4)),
                                 "pre": m.group(5), "n": int(m.group(6))}
            if len(d) == 2:
                out.append((d["old"], d["new"]))
    return out


def concretise(v, m):
    cm, nm = COMP_MAPS[m], NUM_MAPS[m]
    return {"maj": cm(v["maj"]), "min": cm(v["min"]), "pat": cm(v["pat"]), "pre": v["pre"],
            "n": nm(v["n"]) if v["pre"] != "none" else 0}


def pep440(v):
    rel = "%d.%d.%d" % (v["maj"], v["min"], v["pat"])
    return rel if v["pre"] == "none" else "%s%s%d" % (rel, v["pre"], v["n"])


def semver(v):
    rel = "%d.%d.%d" % (v["maj"], v["min"], v["pat"])
    return rel if v["pre"] == "none" else "%s-%s.%d" % (rel, v["pre"], v["n"])


def spell(v, k, rng):
    """A PEP 440 spelling of v that normalizes to pep440(v)."""
    rel = "%d.%d.%d" % (v["maj"], v["min"], v["pat"])
    pre, n = v["pre"], v["n"]
    k = k % N_SPELLINGS
    if k == 0:
        return pep440(v)
    if k == 1:
        return ("v" + pep440(v)).upper() if rng.random() < 0.5 else "v" + pep440(v)
    if k == 2:
        return "  " + pep440(v) + rng.choice(["\n", " ", "\t"])
    if k == 3:
        z = "0%d.00%d.0%d" % (v["maj"], v["min"], v["pat"])
        return z if pre == "none" else "%s%s0%d" % (z, pre, n)
    if pre == "none":
        return [rel, "0!" + rel, "v" + rel][k % 3]
    if k == 4:
        s1, s2 = rng.choice([".", "-", "_"]), rng.choice([".", "-", "_", ""])
        return "%s%s%s%s%d" % (rel, s1, pre, s2, n)
    if k == 5:
        return "%s%s%d" % (rel, rng.choice(_ALT[pre]), n)
    if n == 0:
        return rel + pre                      # implicit pre-release number
    return "%s%s%s%d" % (rel, rng.choice(["", "."]), rng.choice(_ALT[pre]), n)


def evaluate(old_a, new_a, m, k, rng):
    f = _import()
    old, new = concretise(old_a, m), concretise(new_a, m)
    pep_in = spell(new, k, rng)
    rec = {"old": old, "new": new, "pep_in": pep_in, "pep_norm": pep440(new), "sem_in": semver(new), "map": m}

    def call(fn, *a):
        try:
            r = fn(*a)
            return r if isinstance(r, str) else "!" + repr(r)
        except Exception as e:  # an exception is an observable result too
            return "!raised %s" % type(e).__name__
    rec["sem_out"] = call(f["p2s"], pep_in)
    rec["pep_back"] = call(f["s2p"], rec["sem_out"])
    rec["pep_out"] = call(f["s2p"], rec["sem_in"])
    rec["sem_back"] = call(f["p2s"], rec["pep_out"])
    old_sp = spell(old, k + 1, rng)
    rec["old_in"] = old_sp
    rec["cls"] = [call(f["cls"], pep440(new), pep440(old)), call(f["cls"], semver(new), semver(old)),
                  call(f["cls"], pep_in, old_sp),
                  # release tuples of different lengths: PEP 440 reads "1.0" and "1" as 1.0.0 (trailing zeros dropped)
                  call(f["cls"], pep440(new), short(old)), call(f["cls"], short(new), pep440(old))]
    # releases with more or fewer than three components (PEP 440 allows any number): the round trip keeps the VERSION
    # (compared with `packaging`: "1.2.3.4-rc.1" and "1.2.3.4rc1" denote the same version)
    from packaging.version import Version
    pre = "" if new["pre"] == "none" else "%s%d" % (new["pre"], new["n"])
    others = ["%d.%d.%d.%d%s" % (new["maj"], new["min"], new["pat"], new["n"] + 1, pre), short(new)]
    rt = []
    for x in others:
        back = call(f["s2p"], call(f["p2s"], x))
        try:
            rt.append(1 if Version(back) == Version(x) else 0)
        except Exception:  # noqa: BLE001
            rt.append(0)
    rec["rt_other"] = rt
    rec["rt_other_in"] = others
    return rec


def short(v):
    """The PEP 440 spelling of v with the trailing zero release components left out (same version)."""
    rel = [v["maj"], v["min"], v["pat"]]
    while len(rel) > 1 and rel[-1] == 0:
        rel.pop()
    s = ".".join(str(x) for x in rel)
    return s if v["pre"] == "none" else "%s%s%d" % (s, v["pre"], v["n"])


def equivalent_spelling(s, norm):
    """Machinery sanity: the spelled input denotes the same PEP 440 version as the normalized spelling."""
    from packaging.version import Version
    return str(Version(s)) == norm
