"""Driver for the real llama_agents.server._store.sqlite.migrate.run_migrations on real SQLite files.

* start states are built on disk: fresh, a database that an older release left at migration k
  (built by the real run_migrations over a package holding only the first k real SQL files), and a
  legacy PRAGMA user_version=k database (schema of the first k scripts, no schema_migrations table),
  in two styles: scripts applied one after the other, or one consolidated CREATE TABLE per table
  (what the repository's own tests use);
* `run` calls the real run_migrations the way SqliteWorkflowStore does (new connection per call, or one
  persistent connection for all calls);
* `kill_points` runs it once and copies the database file + WAL aside right before every SQL statement
  (sqlite3's statement trace callback): each copy is what the disk holds if the process is killed at
  that point; `restore` puts such a copy in place.  `crash` does the real thing for a sample: a forked
  child killed (os._exit, nothing is closed or flushed by Python) right before its n-th statement;
* `project` is the single abstraction function: normalised schema objects (structure, not DDL text),
  the schema_migrations rows of package "server", PRAGMA user_version, plus the model-level reading
  (which migration versions' objects are present).
"""
from __future__ import annotations

import importlib
import os
import re
import shutil
import sqlite3
import sys
from pathlib import Path

from harness.env import stubimport

stubimport.install()

PKG = "llama_agents.server._store.sqlite.migrations"
_VERSION = re.compile(r"--\s*migration:\s*(\d+)")      # the harness's own reading of the file header


_LIGHT = False


def light_import():
    """Bypass llama_agents.server.__init__ (it imports the whole server stack, seconds of import time and
    irrelevant to migrate.py); only possible before the package is first imported."""
    global _LIGHT
    if "llama_agents.server" not in sys.modules:
        stubimport.namespace_stub("llama_agents.server", os.path.join(
            stubimport.REPO, "packages/llama-agents-server/src/llama_agents/server"))
        _LIGHT = True


def _migrate_mod():
    return importlib.import_module("llama_agents.server._store.sqlite.migrate")


def store_class():
    if _LIGHT:
        raise RuntimeError("SqliteWorkflowStore is not importable after light_import()")
    return importlib.import_module("llama_agents.server._store.sqlite.sqlite_workflow_store").SqliteWorkflowStore


def migration_files():
    """[(version, file name, sql text)] in file-name order, read by the harness (not by the code under test)."""
    pkg = importlib.import_module(PKG)
    d = Path(list(pkg.__path__)[0])
    out = []
    for f in sorted(d.glob("*.sql"), key=lambda p: p.name):
        txt = f.read_text()
        first = txt.splitlines()[0] if txt else ""
        m = _VERSION.search(first)
        out.append((int(m.group(1)) if m else 0, f.name, txt))
    return out


RELEASED_DIR = Path(__file__).resolve().parent.parent / "data" / "c28_released"


def released_files():
    """[(version, file name, sql text)] of the migration files AS RELEASED (verbatim copies kept with the
    harness, see harness/data/c28_released/README.md) -- what databases in the field were built from."""
    out = []
    for f in sorted(RELEASED_DIR.glob("*.sql"), key=lambda p: p.name):
        txt = f.read_text()
        m = _VERSION.search(txt.splitlines()[0] if txt else "")
        out.append((int(m.group(1)) if m else 0, f.name, txt))
    return out


# ------------------------------------------------------------------ projection

def _norm_sql(s):
    return re.sub(r"\s+", " ", s or "").strip()


def schema_objects(conn):
    """Normalised schema: one string per object, structure only (column order kept)."""
    objs = []
    rows = conn.execute("SELECT type, name, tbl_name, sql FROM sqlite_master ORDER BY type, name").fetchall()
    for typ, name, tbl, sql in rows:
        if typ == "table":
            cols = []
            for cid, cname, ctype, notnull, dflt, pk, hidden in conn.execute("PRAGMA table_xinfo(%s)" % _q(name)):
                c = "%s %s" % (cname, (ctype or "").upper())
                if notnull:
                    c += " NOTNULL"
                if dflt is not None:
                    c += " DEFAULT " + _norm_sql(str(dflt))
                if pk:
                    c += " PK%d" % pk
                if hidden:
                    c += " HIDDEN%d" % hidden
                cols.append(c)
            flags = ""
            up = (sql or "").upper()
            if "AUTOINCREMENT" in up:
                flags += " AUTOINCREMENT"
            if "WITHOUT ROWID" in up:
                flags += " WITHOUT_ROWID"
            fks = sorted("%s->%s.%s" % (r[3], r[2], r[4]) for r in conn.execute("PRAGMA foreign_key_list(%s)" % _q(name)))
            objs.append("table %s (%s)%s%s" % (name, ", ".join(cols), flags, (" FK[" + ",".join(fks) + "]") if fks else ""))
        elif typ == "index":
            info = conn.execute("PRAGMA index_xinfo(%s)" % _q(name)).fetchall()
            cols = ["%s%s" % (r[2] if r[2] is not None else "<expr>", " DESC" if r[3] else "") for r in info if r[5]]
            il = [r for r in conn.execute("PRAGMA index_list(%s)" % _q(tbl)) if r[1] == name]
            uniq = il[0][2] if il else 0
            origin = il[0][3] if il else "?"
            partial = il[0][4] if il else 0
            objs.append("index %s on %s (%s)%s origin=%s%s" % (
                name if origin == "c" else "<auto:%s>" % origin, tbl, ", ".join(cols), " UNIQUE" if uniq else "",
                origin, (" WHERE " + _norm_sql(sql.split("WHERE", 1)[1])) if partial and sql and "WHERE" in sql else ""))
        else:
            objs.append("%s %s on %s: %s" % (typ, name, tbl, _norm_sql(sql)))
    return sorted(objs)


def _q(name):
    return '"' + name.replace('"', '""') + '"'


def atoms(objs):
    """Fine-grained schema facts used for the model-level reading (table, column, index)."""
    out = set()
    for o in objs:
        m = re.match(r"^table (\S+) \((.*?)\)( AUTOINCREMENT)?", o)
        if m:
            out.add("table:" + m.group(1))
            for c in m.group(2).split(", "):
                out.add("col:%s:%s" % (m.group(1), c))
        else:
            out.add(o)
    return out


class Reference:
    """What each real migration script adds, measured by applying the real scripts to scratch databases."""

    def __init__(self, workdir):
        self.files = migration_files()
        self.versions = [v for v, _, _ in self.files]
        self.n = len(self.files)
        self.schemas = []          # schema objects after scripts 1..k, k = 0..n
        self.delta = {}            # version -> atoms it adds
        self.idem = []             # versions whose script can be applied twice
        p = Path(workdir) / "ref.sqlite"
        if p.exists():
            p.unlink()
        conn = sqlite3.connect(str(p))
        try:
            self.schemas.append(schema_objects(conn))
            for v, name, sql in self.files:
                conn.executescript(sql)
                conn.commit()
                self.schemas.append(schema_objects(conn))
                self.delta[v] = atoms(self.schemas[-1]) - atoms(self.schemas[-2])
                try:
                    conn.executescript("BEGIN;\n" + sql)
                    conn.execute("ROLLBACK")
                    self.idem.append(v)
                except sqlite3.Error:
                    conn.execute("ROLLBACK")
        finally:
            conn.close()
            p.unlink()

    def features(self, objs):
        a = atoms(objs)
        return [v for v in self.versions if self.delta[v] and self.delta[v] <= a]


def project(path, ref: Reference):
    conn = sqlite3.connect(str(path))
    conn.execute("PRAGMA synchronous=OFF")
    try:
        objs = schema_objects(conn)
        has_sm = any(o.startswith("table schema_migrations ") for o in objs)
        rows, rowids = [], []
        if has_sm:
            try:
                for rid, ver, at in conn.execute(
                        "SELECT rowid, version, applied_at FROM schema_migrations WHERE package='server' ORDER BY version, rowid"):
                    rows.append(int(ver))
                    rowids.append("%s@%s" % (rid, at))
            except sqlite3.Error as e:     # a mutant may have changed the table's shape
                rowids.append("unreadable: %s" % e)
        uv = int(conn.execute("PRAGMA user_version").fetchone()[0])
        cookie = int(conn.execute("PRAGMA schema_version").fetchone()[0])
        app_objs = [o for o in objs if not o.startswith("table schema_migrations ")
                    and not o.startswith("index <auto:pk> on schema_migrations")]
        return {"schema": objs, "rows": rows, "rowmeta": rowids, "uv": uv, "cookie": cookie, "has_sm": has_sm,
                "feat": ref.features(app_objs)}
    finally:
        conn.close()


# ------------------------------------------------------------------ start states

def _prefix_package(workdir, ref: Reference, k, files=None, tag="prefix"):
    """An importable package holding the first k migration files (what release k shipped)."""
    name = "verif_mig_%s_%d" % (tag, k)
    d = Path(workdir) / "pkgs" / name
    if not d.exists():
        d.mkdir(parents=True)
        (d / "__init__.py").write_text("")
        for v, fname, sql in (files if files is not None else ref.files)[:k]:
            (d / fname).write_text(sql)
    root = str(Path(workdir) / "pkgs")
    if root not in sys.path:
        sys.path.insert(0, root)
    importlib.invalidate_caches()
    return name


def _consolidated_ddl(objs):
    """CREATE statements rebuilt from the normalised structure (one statement per table / index)."""
    out = []
    for o in objs:
        m = re.match(r"^table (\S+) \((.*?)\)( AUTOINCREMENT)?$", o)
        if m and m.group(1) != "sqlite_sequence":
            cols = []
            for c in m.group(2).split(", "):
                parts = c.split(" ")
                cname, ctype, rest = parts[0], parts[1], " ".join(parts[2:])
                s = "%s %s" % (cname, ctype)
                if re.search(r"PK\d", rest):
                    s += " PRIMARY KEY" + (" AUTOINCREMENT" if m.group(3) else "")
                if "NOTNULL" in rest:
                    s += " NOT NULL"
                d = re.search(r"DEFAULT (.*?)( PK\d| HIDDEN\d|$)", rest)
                if d:
                    s += " DEFAULT " + d.group(1)
                cols.append(s)
            out.append("CREATE TABLE %s (%s);" % (m.group(1), ", ".join(cols)))
    for o in objs:
        m = re.match(r"^index (\S+) on (\S+) \((.*?)\)( UNIQUE)? origin=c$", o)
        if m:
            out.append("CREATE %sINDEX %s ON %s (%s);" % ("UNIQUE " if m.group(4) else "", m.group(1), m.group(2), m.group(3)))
    return "\n".join(out)


def build_start(path, workdir, ref: Reference, kind, k=0, style="scripts"):
    """kind: fresh | prefix (recorded in schema_migrations by the real code) | legacy (user_version=k), both from
    the working tree's migration files; rel_prefix | rel_legacy: the same two shapes built from the first k
    migration files AS RELEASED (harness/data/c28_released) -- a database an earlier release left behind."""
    path = Path(path)
    files = ref.files
    if kind in ("rel_prefix", "rel_legacy"):
        files = released_files()
        kind = kind[4:]
        tag = "released"
    else:
        tag = "prefix"
    for suffix in ("", "-wal", "-shm", "-journal"):
        q = Path(str(path) + suffix)
        if q.exists():
            q.unlink()
    if kind == "fresh":
        sqlite3.connect(str(path)).close()
        return
    conn = sqlite3.connect(str(path))
    try:
        if kind == "prefix":
            try:
                # what release k left behind: the real migrator over the first k real SQL files
                _migrate_mod().run_migrations(conn, sources=[("server", _prefix_package(workdir, ref, k, files, tag))])
                conn.commit()
            except Exception:  # noqa: BLE001 -- a broken migrator must not break the construction of start states
                conn.close()
                for suffix in ("", "-wal", "-shm", "-journal"):
                    q = Path(str(path) + suffix)
                    if q.exists():
                        q.unlink()
                conn = sqlite3.connect(str(path))
                conn.executescript(_migrate_mod()._SCHEMA_MIGRATIONS_DDL)
                for v, fname, sql in files[:k]:
                    conn.executescript(sql)
                    conn.execute("INSERT INTO schema_migrations (package, version) VALUES ('server', ?)", (v,))
                conn.commit()
        elif kind == "legacy":
            if style == "scripts" or tag == "released":
                for v, fname, sql in files[:k]:
                    conn.executescript(sql)
            else:
                conn.executescript(_consolidated_ddl(ref.schemas[k]))
            conn.execute("PRAGMA user_version=%d" % k)
            conn.commit()
        else:
            raise ValueError(kind)
    finally:
        conn.close()


# ------------------------------------------------------------------ operations

def _exc_kind(e):
    return "error:%s:%s" % (type(e).__name__, str(e)[:80])


class Db:
    """One database file and the connections the caller keeps."""

    def __init__(self, path, mode="newconn"):
        self.path = str(path)
        self.mode = mode
        self.conn = None
        self.conn2 = None

    def _connect(self, sync_off=True):
        conn = sqlite3.connect(self.path, timeout=30.0)
        if sync_off:
            # harness-side connection parameter: no fsync at commit/checkpoint.  Kills are process kills
            # (the page cache survives), so durability of what was written does not depend on it.
            conn.execute("PRAGMA synchronous=OFF")
        return conn

    def run(self):
        """One real run_migrations call; returns (result, number of rows the call changed)."""
        import logging
        logging.getLogger("llama_agents.server._store.sqlite.migrate").setLevel(logging.CRITICAL)
        rm = _migrate_mod().run_migrations
        if self.mode == "sameconn":
            if self.conn is None:
                self.conn = self._connect()
            conn = self.conn
        elif self.mode == "twoconn":
            # two long-lived connections opened (schema cache primed) before the first run, used alternately
            if self.conn is None:
                self.conn = self._connect()
                self.conn2 = self._connect()
                for c in (self.conn, self.conn2):
                    c.execute("SELECT count(*) FROM sqlite_master").fetchone()
                self.turn = 0
            conn = (self.conn, self.conn2)[self.turn % 2]
            self.turn += 1
        elif self.mode == "store":
            # the public entry point: SqliteWorkflowStore.run_migrations(db_path) opens its own connection
            try:
                store_class().run_migrations(self.path)
                return "ok", 0
            except Exception as e:  # noqa: BLE001
                return _exc_kind(e), 0
        else:
            conn = self._connect()
        before = conn.total_changes
        try:
            try:
                rm(conn)
                conn.commit()
                res = "ok"
            except Exception as e:  # noqa: BLE001 -- recorded, judged by the observer
                res = _exc_kind(e)
                try:
                    conn.rollback()
                except sqlite3.Error:
                    pass
            changes = conn.total_changes - before
        finally:
            if self.mode == "newconn":
                conn.close()
        return res, changes

    def crash(self, n):
        """Run run_migrations in a forked child killed right before its n-th (0-based) SQL statement.
        Returns ("crashed", statement text) or ("completed", result) if the run had fewer statements."""
        self.close()
        r, w = os.pipe()
        pid = os.fork()
        if pid == 0:
            code = 3
            try:
                os.close(r)
                import logging
                logging.disable(logging.CRITICAL)
                conn = self._connect(sync_off=False)
                k = [0]

                def cb(stmt):
                    if k[0] == n:
                        os.write(w, ("S" + stmt.strip()[:200]).encode())
                        os._exit(9)
                    k[0] += 1

                conn.set_trace_callback(cb)
                try:
                    _migrate_mod().run_migrations(conn)
                    conn.commit()
                    os.write(w, b"Cok")
                except Exception as e:  # noqa: BLE001
                    os.write(w, ("C" + _exc_kind(e)).encode())
                conn.close()
                code = 0
            finally:
                os._exit(code)
        os.close(w)
        data = b""
        while True:
            chunk = os.read(r, 4096)
            if not chunk:
                break
            data += chunk
        os.close(r)
        _, st = os.waitpid(pid, 0)
        txt = data.decode(errors="replace")
        if txt.startswith("S"):
            return "crashed", txt[1:]
        if txt.startswith("C"):
            return "completed", txt[1:]
        raise RuntimeError("crash child ended unexpectedly (status %s, %r)" % (st, txt))

    def statements(self):
        """SQL statements of one complete run (on a copy of the file, so the database is untouched)."""
        return [st for _, st, _ in self.kill_points(keep=False)][:-1]

    def kill_points(self, snapdir=None, keep=True):
        """Run the real run_migrations once on a copy of the file and, right before each SQL statement
        (sqlite3 statement trace), copy the database file and its WAL aside: that copy is what the disk
        holds if the process is killed at this point (nothing the killed process kept in memory survives,
        everything it wrote to the files does).  Returns [(n, statement, snapshot path or None)], with one
        extra entry after the last statement (killed after the last commit)."""
        self.close()
        tmp = self.path + ".kp"
        _copy_db(self.path, tmp)
        snapdir = snapdir or (self.path + ".snaps")
        if keep:
            shutil.rmtree(snapdir, ignore_errors=True)
            os.makedirs(snapdir)
        out = []
        conn = sqlite3.connect(tmp, timeout=30.0)
        conn.execute("PRAGMA synchronous=OFF")

        def cb(stmt):
            n = len(out)
            sp = None
            if keep:
                sp = os.path.join(snapdir, "k%03d.sqlite" % n)
                _copy_db(tmp, sp)
            out.append((n, stmt.strip(), sp))

        conn.set_trace_callback(cb)
        import logging
        logging.getLogger("llama_agents.server._store.sqlite.migrate").setLevel(logging.CRITICAL)
        try:
            _migrate_mod().run_migrations(conn)
            conn.commit()
        except Exception:  # noqa: BLE001 -- a failing run still has kill points
            try:
                conn.rollback()
            except sqlite3.Error:
                pass
        conn.set_trace_callback(None)
        sp = None
        if keep:
            sp = os.path.join(snapdir, "k%03d.sqlite" % len(out))
            _copy_db(tmp, sp)
        out.append((len(out), "<after last statement>", sp))
        conn.close()
        _rm_db(tmp)
        return out

    def restore(self, snapshot):
        """Make the database file what a kill left behind (a snapshot taken by kill_points)."""
        self.close()
        _copy_db(snapshot, self.path)

    def close(self):
        for c in (self.conn, self.conn2):
            if c is not None:
                c.close()
        self.conn = self.conn2 = None


def _copy_db(src, dst):
    _rm_db(dst)
    # checkpoint-free copy: main file plus WAL if present (no connection is open at this point)
    for suffix in ("", "-wal"):
        if os.path.exists(src + suffix):
            shutil.copyfile(src + suffix, dst + suffix)


def _rm_db(p):
    for suffix in ("", "-wal", "-shm", "-journal"):
        if os.path.exists(p + suffix):
            os.unlink(p + suffix)


copy_db = _copy_db
rm_db = _rm_db


# ------------------------------------------------------------------ several migration sources in one call

def two_source_cases(workdir, ref: Reference):
    """run_migrations(conn, sources=[server, dbos]) -- what the DBOS runtime on SQLite calls -- from a fresh database, from
    every server prefix recorded in schema_migrations, and from every legacy user_version database.  Versions are PER
    PACKAGE: the second source's version 1 is pending whatever the first source has recorded.
    -> records {start, final (schema objects), ref (the fresh database's), rows ([pkg, version, count]), want_rows, rerun_same}"""
    from harness.env import stubimport
    workdir = Path(workdir)
    dsrc = Path(stubimport.REPO) / "packages/llama-agents-dbos/src/llama_agents/dbos/_store/sqlite/migrations"
    dfiles = sorted(p for p in dsrc.glob("*.sql"))
    if not dfiles:
        return []
    name = "verif_mig_dbos"
    d = workdir / "pkgs" / name
    if not d.exists():
        d.mkdir(parents=True)
        (d / "__init__.py").write_text("")
        for p in dfiles:
            (d / p.name).write_text(p.read_text())
    root = str(workdir / "pkgs")
    if root not in sys.path:
        sys.path.insert(0, root)
    importlib.invalidate_caches()
    server_pkg = _prefix_package(workdir, ref, ref.n)
    sources = [("server", server_pkg), ("dbos", name)]
    want_rows = sorted([["server", int(v), 1] for v in ref.versions] + [["dbos", int(re.match(r"(\d+)", p.name).group(1)), 1] for p in dfiles])

    def run_once(path):
        conn = sqlite3.connect(str(path))
        try:
            _migrate_mod().run_migrations(conn, sources=list(sources))
            conn.commit()
            return ""
        except Exception as e:  # noqa: BLE001
            return type(e).__name__ + ": " + str(e)[:120]
        finally:
            conn.close()

    def look(path):
        conn = sqlite3.connect(str(path))
        try:
            objs = schema_objects(conn)
            rows = []
            try:
                rows = [[str(p), int(v), int(c)] for p, v, c in conn.execute(
                    "SELECT package, version, COUNT(*) FROM schema_migrations GROUP BY package, version ORDER BY package, version")]
            except sqlite3.Error as e:
                rows = [["unreadable: %s" % e, 0, 0]]
            return objs, sorted(rows)
        finally:
            conn.close()

    out = []
    refp = workdir / "two_src_ref.sqlite"
    build_start(refp, workdir, ref, "fresh")
    ref_err = run_once(refp)
    ref_objs, _ = look(refp)
    starts = [("fresh", 0)] + [("prefix", k) for k in range(1, ref.n + 1)] + [("legacy", k) for k in range(1, ref.n + 1)]
    for (kind, k) in starts:
        p = workdir / ("two_src_%s_%d.sqlite" % (kind, k))
        build_start(p, workdir, ref, kind, k)
        err1 = run_once(p)
        objs1, rows1 = look(p)
        err2 = run_once(p)
        objs2, rows2 = look(p)
        out.append({"start": "%s:%d" % (kind, k), "err": err1 or err2 or ref_err, "final": objs1, "ref": ref_objs,
                    "rows": rows1, "want_rows": want_rows, "rerun_same": bool(objs1 == objs2 and rows1 == rows2)})
        for suffix in ("", "-wal", "-shm", "-journal"):
            q = Path(str(p) + suffix)
            if q.exists():
                q.unlink()
    return out
