"""Fixed, importable event classes for the C23 graph compiler (abstract class name -> real class)."""
from __future__ import annotations

from workflows.events import (
    Event,
    HumanResponseEvent,
    InputRequiredEvent,
    StartEvent,
    StepFailedEvent,
    StopEvent,
)


class Start0(StartEvent):
    pass


class Start1(StartEvent):
    pass


class Stop0(StopEvent):
    pass


class Stop1(StopEvent):
    pass


class Ask(InputRequiredEvent):
    pass


class Ask2(Ask):
    pass


class Resp(HumanResponseEvent):
    pass


class Resp2(Resp):
    pass


class EvA(Event):
    pass


class EvB(Event):
    pass


class EvC(Event):
    pass


CLASSES = {
    "Start": StartEvent, "Start0": Start0, "Start1": Start1,
    "Stop": StopEvent, "Stop0": Stop0, "Stop1": Stop1,
    "IR": InputRequiredEvent, "Ask": Ask, "Ask2": Ask2,
    "HR": HumanResponseEvent, "Resp": Resp, "Resp2": Resp2,
    "Failed": StepFailedEvent,
    "A": EvA, "B": EvB, "C": EvC,
}
