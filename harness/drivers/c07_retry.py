"""C07 driver: build abstract condition / strategy trees with the REAL constructors and operators of
workflows.retry_policy, evaluate them on concretised inputs, return integers/booleans only.

Abstract trees come from specs/tables/MC_RetryAlgebra.tla / MC_WaitStrategies.tla (TLC output parsed by
harness.tlaval): dicts with op, sargs/iargs, kids.  One projection per kind:
  retry/stop -> 0 False, 1 True, 2 raised, 3 non-bool
  wait       -> [ok, floor(1000 v), ceil(1000 v), finite, same-seed-twice-equal]
"""
from __future__ import annotations

import functools
import math
import operator
import random
import re
from datetime import timedelta
from fractions import Fraction

from harness.env import stubimport

stubimport.install()

from workflows import retry_policy as rp  # noqa: E402


# ------------------------------------------------------------------ exceptions
class BX(BaseException):
    pass


class CU(ValueError):
    pass


EXC = {"BE": BaseException, "EX": Exception, "BX": BX, "VE": ValueError, "CU": CU, "LE": LookupError,
       "IE": IndexError, "OS": OSError, "TO": TimeoutError}
LITS = {"lit": "please retry", "empty": ""}
PATTERNS = {"http5": r"HTTP 5\d\d", "starts_please": r"^please", "anything": ""}
# representatives of each message class (str(error)); every representative must have exactly the
# literal/pattern profile of its class -- checked by self_check()
MSG_REPS = {
    "empty": [""],
    "lit": ["please retry"],
    "lit_more": ["please retry now", "please retry\n"],
    "http5": ["HTTP 503", "HTTP 5٠٣ unavailable"],
    "http5_mid": ["error: HTTP 502 bad gateway", "é xHTTP 599"],
    "other": ["HTTP 404", "Please Retry", "HTTP 5x3 ☃"],
}
PRED = {
    "msg_nonempty": lambda e: str(e) != "",
    "is_os": lambda e: isinstance(e, OSError),
}


def self_check():
    for cls, reps in MSG_REPS.items():
        for r in reps:
            prof = (r == LITS["lit"], r == "", bool(re.search(PATTERNS["http5"], r)), bool(re.search(PATTERNS["starts_please"], r)))
            want = {"empty": (False, True, False, False), "lit": (True, False, False, True),
                    "lit_more": (False, False, False, True), "http5": (False, False, True, False),
                    "http5_mid": (False, False, True, False), "other": (False, False, False, False)}[cls]
            assert prof == want, (cls, r, prof)


def make_exception(x, rep):
    e = EXC[x["cls"]](MSG_REPS[x["msg"]][rep])
    cur = e
    for c in x["causes"]:
        nxt = EXC[c]("cause")
        cur.__cause__ = nxt
        cur = nxt
    if x["ctx"] != "none":
        e.__context__ = EXC[x["ctx"]]("implicit context")     # must be ignored
        cur.__context__ = EXC[x["ctx"]]("implicit context")
    return e


def retry_inputs(abstract):
    """abstract inputs -> list of (abstract+rep dict, exception object), one per representative."""
    out = []
    for x in abstract:
        for rep in range(len(MSG_REPS[x["msg"]])):
            d = dict(x, causes=list(x["causes"]), rep=rep)
            out.append((d, make_exception(x, rep)))
    return out


def stop_inputs(abstract):
    out = []
    for y in abstract:
        out.append((dict(y, kw=1), y))
        if y["sl"] == 0:
            out.append((dict(y, kw=0), y))        # upcoming_sleep left to its default
    return out


# ------------------------------------------------------------------ builders
def _types(sargs, variant):
    cs = tuple(EXC[c] for c in sargs)
    if len(cs) == 1 and variant == 0:
        return cs[0]
    return cs


def variants_of(t):
    op = t["op"]
    if op in ("type", "not_type", "unless_type", "cause"):
        return [0, 1] if len(t["sargs"]) == 1 else [0]
    if op in ("msg_re", "not_msg_re"):
        return [0, 1]
    if op in ("after_delay", "before_delay", "fixed", "random"):
        return [0, 1]
    if op == "exp":
        return [0, 1] + ([2] if list(t["iargs"]) == [2, 4, 120, 0] else [])
    if op == "incr":
        return [0, 1] + ([2] if list(t["iargs"]) == [0, 200, INFH] else [])
    if op == "expjit":
        return [0] + ([2] if list(t["iargs"]) == [2, 4, 120, 2] else [])
    if op == "randexp":
        return [0, 1, 3] + ([2] if list(t["iargs"]) == [2, 4, 120, 0] else [])
    return [0]


INFH = 7812500


def _sec(h, variant=0):
    if h == INFH:
        return float("inf")
    if variant == 1:
        return timedelta(milliseconds=500 * h)
    return h // 2 if h % 2 == 0 else h / 2


def build(t, kids, variant=0):
    """t: abstract node (op, sargs, iargs); kids: already built real objects."""
    op, s, a = t["op"], list(t.get("sargs", ())), list(t.get("iargs", ()))
    # ---- retry
    if op == "always":
        return rp.retry_always()
    if op == "never":
        return rp.retry_never()
    if op in ("type", "not_type", "unless_type", "cause"):
        ctor = {"type": rp.retry_if_exception_type, "not_type": rp.retry_if_not_exception_type,
                "unless_type": rp.retry_unless_exception_type, "cause": rp.retry_if_exception_cause_type}[op]
        return ctor() if not s else ctor(_types(s, variant))
    if op in ("msg_eq", "not_msg_eq"):
        ctor = rp.retry_if_exception_message if op == "msg_eq" else rp.retry_if_not_exception_message
        return ctor(message=LITS[s[0]])
    if op in ("msg_re", "not_msg_re"):
        ctor = rp.retry_if_exception_message if op == "msg_re" else rp.retry_if_not_exception_message
        pat = PATTERNS[s[0]]
        return ctor(match=re.compile(pat) if variant == 1 else pat)
    if op == "pred":
        return rp.retry_if_exception(PRED[s[0]])
    if op == "bare":
        return PRED[s[0]]
    # ---- stop
    if op == "s_never":
        return rp.stop_never()
    if op == "after_attempt":
        return rp.stop_after_attempt(a[0])
    if op == "after_delay":
        return rp.stop_after_delay(_sec(a[0], variant))
    if op == "before_delay":
        return rp.stop_before_delay(_sec(a[0], variant))
    if op == "s_bare":
        n = a[0]
        return lambda attempts, elapsed_time, *, upcoming_sleep=0.0: attempts >= n and upcoming_sleep > 0
    # ---- wait
    if op == "fixed":
        return rp.wait_fixed(_sec(a[0], variant))
    if op == "none":
        return rp.wait_none()
    if op == "wbare":
        c = a[0] / 2
        return lambda attempts, *, seed=None: c
    if op == "exp":
        if variant == 2:
            return rp.wait_exponential()
        return rp.wait_exponential(multiplier=_sec(a[0]), exp_base=_sec(a[1]), max=_sec(a[2], variant), min=_sec(a[3], variant))
    if op == "incr":
        if variant == 2:
            return rp.wait_incrementing()
        return rp.wait_incrementing(start=_sec(a[0], variant), increment=_sec(a[1], variant), max=_sec(a[2], variant))
    if op == "random":
        return rp.wait_random(_sec(a[0], variant), _sec(a[1], variant))
    if op == "expjit":
        if variant == 2:
            return rp.wait_exponential_jitter()
        return rp.wait_exponential_jitter(initial=_sec(a[0]), exp_base=_sec(a[1]), max=_sec(a[2]), jitter=_sec(a[3]))
    if op == "randexp":
        if variant == 2:
            return rp.wait_random_exponential()
        f = rp.wait_full_jitter if variant == 3 else rp.wait_random_exponential
        return f(multiplier=_sec(a[0]), exp_base=_sec(a[1]), max=_sec(a[2], variant), min=_sec(a[3], variant))
    # ---- combinators
    kind = t["_kind"]
    if op == "any":
        return (rp.retry_any if kind == "retry" else rp.stop_any)(*kids)
    if op == "all":
        return (rp.retry_all if kind == "retry" else rp.stop_all)(*kids)
    if op == "or":
        return functools.reduce(operator.or_, kids)
    if op == "and":
        return functools.reduce(operator.and_, kids)
    if op == "combine":
        return rp.wait_combine(*kids)
    if op == "plus":
        return functools.reduce(operator.add, kids)
    if op == "sum":
        return sum(kids)
    if op == "chain":
        return rp.wait_chain(*kids)
    raise ValueError("unknown op " + op)


# ------------------------------------------------------------------ projections
def eval_bool(obj, kind, inputs):
    out = []
    for d, x in inputs:
        try:
            if kind == "retry":
                v = obj(x)
            elif d["kw"]:
                v = obj(x["att"], x["el"] / 2, upcoming_sleep=x["sl"] / 2)
            else:
                v = obj(x["att"], x["el"] / 2)
            out.append(1 if v is True else 0 if v is False else 3)
        except Exception:
            out.append(2)
    return out


def eval_wait(obj, inputs, reseed):
    """inputs: list of dict(k, seed); returns (vals, first exception name)."""
    out, exc = [], "-"
    random.seed(reseed)
    for d in inputs:
        k, seed = d["k"], d["seed"]
        try:
            if seed == -1:
                v, v2 = obj(k), obj(k)
            else:
                v, v2 = obj(k, seed=seed), obj(k, seed=seed)
        except Exception as e:
            if exc == "-":
                exc = type(e).__name__
            out.append([0, 0, 0, 0, 0])
            continue
        fin = isinstance(v, (int, float)) and not isinstance(v, bool) and math.isfinite(v)
        if not fin or abs(v) > 2_000_000:
            out.append([1, 0, 0, 0, 0])
            continue
        f = Fraction(v) * 1000
        out.append([1, math.floor(f), math.ceil(f), 1, 1 if v == v2 else 0])
    return out, exc
