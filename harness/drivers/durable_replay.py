"""Driver for C27 (reduced claim): the real InternalDBOSAdapter.wait_for_next_task + TaskJournal + SqliteJournalCrud
on a SQLite file, with fabricated asyncio tasks on the virtual loop.

DBOS itself is not installed.  `dbos` is served by the stub importer (names only); the one behaviour the adapter
needs from it on this path is `dbos._context.get_local_dbos_context().function_id` (read at the replay->fresh
transition for the orphan purge), which is a minimal fake here.  The harness plays the part of the control loop
(one wait_for_next_task call per iteration, following a `plan` of which task keys become pending at which iteration)
and of DBOS recovery (axiom: after a crash the workflow function is re-run from the start; a new adapter object is
created on the same journal table).

Environment actions (those of specs/dbos/DurableReplay.tla), applied at quiescence points:
    ["complete", key]   the task with that key finishes
    ["tick"]            the wait's timeout elapses
    ["crash"]           the process dies: loop and tasks are cancelled, the adapter is dropped
    ["restart"]         recovery: new adapter on the same SQLite file, control loop from iteration 0
"""
from __future__ import annotations

import asyncio
import importlib
import os
import sqlite3
import types

from harness.env import stubimport, vloop

stubimport.install()

_m = {}
CTX = types.SimpleNamespace(function_id=7)
TIMEOUT = 10.0
ORPHAN_FID = 999
PULL_KEYS = {"p"}


def _import():
    if not _m:
        stubimport.stub_module("dbos._context", get_local_dbos_context=lambda: CTX)
        _m["rt"] = importlib.import_module("llama_agents.dbos.runtime")
        _m["nt"] = importlib.import_module("workflows.runtime.types.named_task")
    return _m


def make_db(path):
    """Journal table from the repository's own migration; a stand-in for DBOS's operation_outputs system table."""
    if os.path.exists(path):
        os.remove(path)
    sql = open(os.path.join(stubimport.REPO, "packages/llama-agents-dbos/src/llama_agents/dbos/_store/sqlite/"
                            "migrations/0001_init.sql")).read()
    c = sqlite3.connect(path)
    c.executescript(sql)
    c.execute("CREATE TABLE operation_outputs (workflow_uuid TEXT, function_id INTEGER, output TEXT)")
    c.commit()
    c.close()


def akey(k):
    """abstract key -> NamedTask key"""
    return "__pull__:0" if k in PULL_KEYS else "%s:0" % k


class System:
    def __init__(self, plan, db_path, run_id="run1"):
        m = _import()
        self.rt, self.nt = m["rt"], m["nt"]
        self.plan = [sorted(s) for s in plan]
        self.db = db_path
        self.run_id = run_id
        make_db(db_path)
        self.loop = vloop.new_loop()
        self.up = False
        self.incarnations = []
        self.errors = []
        self._boot()

    # ---------------------------------------------------------------- process
    def _boot(self):
        self.adapter = self.rt.InternalDBOSAdapter(self.run_id, engine=None, db_path=self.db)
        self.gates = {}
        self.tasks = {}          # abstract key -> live asyncio task
        self.finished = set()
        self.phase = "call"
        self.inc = {"start": self.journal(), "returned": [], "done_flags": [], "none_returns": 0}
        self.incarnations.append(self.inc)
        self.up = True
        self.main = self.loop.create_task(self._control_loop())
        self.loop.quiesce()

    async def _body(self, k, gate):
        return await gate

    async def _control_loop(self):
        nt = self.nt
        running = []
        it = sp = 0
        last = "-"
        try:
            while True:
                pending = []
                if sp == it and it < len(self.plan):
                    for x in self.plan[it]:
                        k = last if x == "same" else x
                        gate = self.loop.create_future()
                        self.gates[k] = gate
                        coro = self._body(k, gate)
                        if k in PULL_KEYS:
                            pending.append(nt.PendingPull(0, coro))
                        else:
                            pending.append(nt.PendingWorker(k, 0, coro))
                    sp = it + 1
                self.phase = "wait"
                res = await self.adapter.wait_for_next_task(running, pending, TIMEOUT)
                self.phase = "call"
                if len(res.started) != len(pending):
                    self.errors.append("adapter started %d of %d pending" % (len(res.started), len(pending)))
                for s in res.started:
                    self.tasks[s.key] = s.task
                running = running + list(res.started)
                if res.completed is None:
                    if not running:
                        break
                    self.inc["none_returns"] += 1
                    continue
                key = nt.get_key(running, res.completed)
                ak = next(k for k in self.gates if akey(k) == key)
                self.inc["returned"].append(ak)
                self.inc["done_flags"].append(bool(res.completed.done()))
                running = [r for r in running if r.task is not res.completed]
                self.tasks.pop(key, None)
                self.gates.pop(ak, None)
                self.finished.discard(ak)
                it += 1
                last = ak
            self.phase = "end"
        except asyncio.CancelledError:
            raise
        except Exception as e:  # surfaced to the check as a machinery problem
            self.errors.append("%s: %s" % (type(e).__name__, e))
            self.phase = "error"

    # ---------------------------------------------------------------- observation
    def journal(self):
        c = sqlite3.connect(self.db)
        try:
            rows = c.execute("SELECT seq_num, task_key FROM workflow_journal WHERE run_id = ? ORDER BY seq_num, id",
                             (self.run_id,)).fetchall()
        finally:
            c.close()
        out = []
        for seq, key in rows:
            out.append(key.split(":")[0] if not key.startswith("__pull__") else "p")
        self._seqs = [r[0] for r in rows]
        return out

    def orphan(self):
        c = sqlite3.connect(self.db)
        try:
            n = c.execute("SELECT COUNT(*) FROM operation_outputs WHERE workflow_uuid = ? AND function_id > ?",
                          (self.run_id, CTX.function_id)).fetchone()[0]
        finally:
            c.close()
        return n > 0

    def live(self):
        return sorted(k for k in self.gates) if self.up else []

    def done(self):
        return sorted(k for k in self.gates if k in self.finished) if self.up else []

    def project(self):
        j = self.journal()
        return {"up": self.up, "phase": self.phase if self.up else "call", "live": self.live(), "done": self.done(),
                "journal": j, "seq_contiguous": self._seqs == list(range(len(self._seqs))),
                "returned": list(self.inc["returned"]), "start": list(self.inc["start"]), "orphan": self.orphan()}

    # ---------------------------------------------------------------- environment actions
    def enabled(self):
        out = []
        if not self.up:
            return [["restart"]]
        for k in self.live():
            if k not in self.finished:
                out.append(["complete", k])
        if self.phase == "wait":
            out.append(["tick"])
        if self.phase != "end":
            out.append(["crash"])
        return out

    def apply(self, cmd):
        name = cmd[0]
        if name == "complete":
            k = cmd[1]
            self.finished.add(k)
            self.gates[k].set_result("result-of-" + k)
        elif name == "tick":
            self.loop.advance(TIMEOUT)
        elif name == "crash":
            self.main.cancel()
            for t in list(self.tasks.values()):
                t.cancel()
            self.loop.quiesce()
            for t in [t for t in asyncio.all_tasks(self.loop) if not t.done()]:
                t.cancel()
            self.loop.quiesce()
            self.up = False
            self.adapter = None
            c = sqlite3.connect(self.db)       # what a dead incarnation can leave behind in DBOS's table
            c.execute("INSERT INTO operation_outputs (workflow_uuid, function_id, output) VALUES (?, ?, ?)",
                      (self.run_id, ORPHAN_FID, "stale"))
            c.commit()
            c.close()
        elif name == "restart":
            self._boot()
        else:
            raise ValueError(name)
        self.loop.quiesce()
        return self.project()

    def finish(self, order="reverse", max_steps=100):
        """Epilogue: recover if down, then complete whatever is live (adversarially: reverse key order) to the end."""
        steps = []
        for _ in range(max_steps):
            if self.up and self.phase in ("end", "error"):
                break
            if not self.up:
                cmd = ["restart"]
            else:
                cand = [k for k in self.live() if k not in self.finished]
                if not cand:
                    break
                cmd = ["complete", sorted(cand, reverse=(order == "reverse"))[0]]
            steps.append({"cmd": cmd, "post": self.apply(cmd)})
        return steps

    def summary(self):
        return {"incarnations": [{"start": i["start"], "returned": i["returned"], "done_flags": i["done_flags"]}
                                 for i in self.incarnations],
                "journal": self.journal(), "ended": bool(self.up and self.phase == "end")}

    def close(self):
        try:
            for t in [t for t in asyncio.all_tasks(self.loop) if not t.done()]:
                t.cancel()
            self.loop.quiesce()
        except Exception:
            pass
        vloop.close_loop(self.loop)


def run_schedule(plan, schedule, db_path, finish=True):
    s = System(plan, db_path)
    steps, drift = [], []
    try:
        init = s.project()
        for cmd in schedule:
            if list(cmd) not in s.enabled():
                drift.append({"at": len(steps), "cmd": list(cmd), "enabled": s.enabled()})
                break
            steps.append({"cmd": list(cmd), "post": s.apply(cmd)})
        if finish:      # also after a divergence: the run is still completed and judged
            steps += s.finish()
        summ = s.summary()
        errors = list(s.errors)
    finally:
        s.close()
    return {"init": init, "steps": steps, "drift": drift, "summary": summ, "errors": errors}
