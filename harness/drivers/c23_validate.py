"""C23 driver: compile an abstract step graph to a REAL Workflow subclass and observe validate().

Abstract graph (as enumerated by specs/config/MC_Validate.tla):
    steps: list of (name, acc[list of class names], ret[list, [] = "-> None"], role, for, sskip)
    wskip: list of workflow-level skip_graph_checks
Observation (one projection, used for every vector):
    accepted (constructor AND validate() returned), flag (validate()'s return value),
    family   (which error the public path raised first, classified from the real message),
    direct   (same for a direct call of representation.validate._validate_workflow on the step configs)
"""
from __future__ import annotations

import types
from typing import Optional, Union

from harness.env import stubimport

stubimport.install()

from workflows import Workflow, step  # noqa: E402
from workflows.decorators import catch_error  # noqa: E402
from workflows.errors import WorkflowConfigurationError, WorkflowValidationError  # noqa: E402
from workflows.representation.validate import _validate_workflow  # noqa: E402

from harness.drivers._c23_events import CLASSES  # noqa: E402


def _annotation(classes, pipe, optional):
    cs = [CLASSES[c] for c in classes]
    if optional:
        cs = cs + [type(None)]
    if len(cs) == 1:
        return cs[0]
    if pipe:
        a = cs[0]
        for c in cs[1:]:
            a = a | c          # types.UnionType
        return a
    return Union[tuple(cs)]


def make_step(name, acc, ret, role="step", for_steps=None, wild=False, sskip=(), variant=0, free_for=None):
    if free_for is not None:
        async def fn(ev):  # free-function step, registered with @step(workflow=W)
            return None
        fn.__qualname__ = name
    else:
        async def fn(self, ev):  # body never runs: validation is static
            return None
        fn.__qualname__ = "W." + name
    fn.__name__ = name
    pipe = bool(variant & 2)
    optional = bool(variant & 1) and len(ret) > 0
    fn.__annotations__ = {
        "ev": _annotation(sorted(acc), pipe, False),
        "return": (None if not ret else _annotation(sorted(ret), pipe, optional)),
    }
    if role == "catch_error":
        if wild:
            return catch_error(fn)
        return catch_error(for_steps=sorted(for_steps), max_recoveries=1)(fn)
    if free_for is not None:
        return step(workflow=free_for, skip_graph_checks=sorted(sskip) or None)(fn)
    if sskip:
        return step(skip_graph_checks=sorted(sskip))(fn)
    return step(fn)


def classify(exc: BaseException) -> str:
    """Error family, read from what the real code raised (class + message)."""
    msg = str(exc)
    if isinstance(exc, WorkflowConfigurationError):
        if "has no configured steps" in msg:
            return "no_steps"
        if "At least one Event of type StartEvent" in msg:
            return "no_start"
        if "Only one type of StartEvent" in msg:
            return "multi_start"
        if "At least one Event of type StopEvent" in msg:
            return "no_stop"
        if "Only one type of StopEvent" in msg:
            return "multi_stop"
        return "config_other"
    if isinstance(exc, WorkflowValidationError):
        if "cannot accept StopEvent" in msg:
            return "accept_stop"
        if "consumed but never produced" in msg:
            return "consumed_unproduced"
        if msg.startswith("The following events are produced but never consumed"):
            return "produced_unconsumed"
        if "Graph validation failed" in msg:
            return "graph"
        if "@catch_error" in msg:
            return "handler"
        return "validation_other"
    return "exc:" + type(exc).__name__


def graph_checks(exc) -> list:
    msg = str(exc)
    return [c for c in ("reachability", "terminal_event", "dead_end") if "[%s]" % c in msg]


def observe(steps, wskip, variant=0):
    """steps: list of dicts(name, acc, ret, role, for, wild, sskip). Returns the observation dict."""
    out = {"accepted": 0, "flag": 0, "family": "ok", "direct": "ok", "dflag": 0, "where": "-"}
    try:
        # variant bit 2: the last regular step is a free function attached with @step(workflow=W)
        regs = [s["name"] for s in steps if s.get("role", "step") == "step"]
        free = regs[-1] if (variant & 4 and regs) else None
        ns = {s["name"]: make_step(s["name"], s["acc"], s["ret"], s.get("role", "step"), s.get("for", ()),
                                   s.get("wild", False), s.get("sskip", ()), variant)
              for s in steps if s["name"] != free}
        W = types.new_class("W", (Workflow,), {}, lambda d: d.update(ns))
        for s in steps:
            if s["name"] == free:
                make_step(s["name"], s["acc"], s["ret"], "step", (), False, s.get("sskip", ()), variant, free_for=W)
    except Exception as e:  # decorator/class definition refused the vector: outside the graph space
        out.update(family="define:" + type(e).__name__, direct="define", where="define")
        return out
    # public path: constructor, then validate()
    try:
        w = W(skip_graph_checks=set(wskip) if wskip else None)
        try:
            flag = w.validate()
            out.update(accepted=1, flag=1 if flag is True else (0 if flag is False else 2))
        except Exception as e:
            out.update(family=classify(e), where="validate")
    except Exception as e:
        out.update(family=classify(e), where="ctor")
    # the drawn representation of the same class (representation/build.py), in the abstract class names
    try:
        from workflows.representation.build import get_workflow_representation
        inv = {c.__name__: k for k, c in CLASSES.items()}
        gr = get_workflow_representation(W)
        kind = lambda n: {"WorkflowStepNode": "step", "WorkflowEventNode": "event", "WorkflowExternalNode": "external"}.get(
            type(n).__name__, type(n).__name__)
        nm = lambda x: inv.get(x, x)
        nodes = sorted([nm(n.id), kind(n)] for n in gr.nodes)
        cnt = {}
        for e in gr.edges:
            k = (nm(e.source), nm(e.target))
            cnt[k] = cnt.get(k, 0) + 1
        out["repr"] = {"ok": 1, "nodes": nodes, "edges": sorted([a, b, n] for (a, b), n in cnt.items()),
                       "dup_ids": int(len({n.id for n in gr.nodes}) != len(gr.nodes))}
    except Exception as e:
        out["repr"] = {"ok": 0, "nodes": [], "edges": [], "dup_ids": 0, "err": type(e).__name__}
    # the mechanism named by the property anchors, called directly on the same step configs
    try:
        cfgs = {name: f._step_config for name, f in W._get_steps_from_class().items()}
        r = _validate_workflow(cfgs, "W", set(wskip))
        out.update(dflag=1 if r.uses_hitl else 0)
    except Exception as e:
        out.update(direct=classify(e))
    return out


def steps_of(inst, reg, hs):
    """Decode TLC's vector (indices into the printed shape tables) into the step list."""
    steps = []
    for i, k in enumerate(reg):
        sh = inst["shapes"][k - 1]
        steps.append({"name": "s%d" % (i + 1), "acc": sh["acc"], "ret": sh["ret"], "role": "step",
                      "sskip": sh["sskip"]})
    for i, k in enumerate(hs):
        sh = inst["hshapes"][k - 1]
        wild = list(sh["for"]) == ["*"]
        steps.append({"name": "h%d" % (i + 1), "acc": ["Failed"], "ret": sh["ret"], "role": "catch_error",
                      "wild": wild, "for": [] if wild else sh["for"]})
    return steps
