"""Case generators for the server-family properties C14, C15, C26, C36 on the real in-process server stack."""
from __future__ import annotations

import os

from harness.drivers import engine as en
from harness.drivers import server as sv
from harness.programs import scenarios as sc


def _engine_flags(s):
    """What the engine holds right now (read for cause features / release preconditions)."""
    pend_retry = pend_wto = False
    queued = running = 0
    for r in en._RUNNERS.values():
        for (_a, _s, tk) in r.scheduled_wakeups:
            n = tk.__class__.__name__
            pend_retry |= n == "TickAddEvent"
            pend_wto |= n == "TickWaiterTimeout"
        for w in r.state.workers.values():
            queued += len(w.queue)
            running += len(w.in_progress)
    return {"pending_retry": bool(pend_retry), "pending_waiter_timeout": bool(pend_wto), "queued": queued, "running": running,
            "live_bodies": sum(s.rig.live.values())}


def _watch_release(s, hid, until_ms, step_ms=500):
    """Advance virtual time in small steps, recording when the run is released from memory and what the engine
    held at the last quiescence point before the release."""
    released_at = -1
    before = _engine_flags(s)
    while s.now_ms() < until_ms:
        prev = _engine_flags(s)
        was_live = s.live_loops(hid)
        nt = s.loop.next_timer()
        if nt is None:
            break
        tgt = min(en.ms(nt - s.t0), until_ms)
        s.advance_to_ms(tgt)
        s.drain()
        if was_live and not s.live_loops(hid) and s.handler_row(hid)["status"] == "running" and released_at < 0:
            released_at = s.now_ms()
            before = prev
    return released_at, before


def _watch_release_busy(s, hid, until_ms):
    """Advance time WITHOUT letting the open step bodies finish; report when the run's loop disappears."""
    released_at = -1
    flags = _engine_flags(s)
    while s.now_ms() < until_ms:
        was_live = s.live_loops(hid)
        nt = s.loop.next_timer()
        if nt is None:
            break
        s.advance_to_ms(min(en.ms(nt - s.t0), until_ms))
        if was_live and not s.live_loops(hid) and released_at < 0:
            released_at = s.now_ms()
    return released_at, flags


# ------------------------------------------------------------------------------------------------ C14

def c14_cases(workdir, quick=True):
    out = []
    n = 0
    # (a wait with timeout 0 is due at once: the step must get its TimeoutError, not wait forever)
    grid = [("retry", sc.retry_then_stop(5), 5000), ("waiter", sc.wait_timeout_then_stop(5), 5000),
            ("waiter", sc.wait_timeout_then_stop(0), 0)]
    for (kind, prog, delay_ms) in grid:
        for idle_timeout in ((2.0, 20.0) if quick else (1.0, 2.0, 4.9, 5.0, 20.0)):
            db = os.path.join(str(workdir), "c14_%d.db" % n)
            n += 1
            s = sv.ServerSystem(prog, db_path=db, idle_timeout=idle_timeout)
            try:
                s.launch()
                s.start_handler("h1")
                s.drain()
                flags0 = _engine_flags(s)
                idle_announced = any(r["e"] == "pub" and r["p"]["k"] == "idle" for r in s.trace)
                released_at, before = _watch_release(s, "h1", 60000)
                s.run_to_end(90000)
                row = s.handler_row("h1")
                out.append({"e": "case", "via": "idle_release", "kind": kind, "idle_timeout_ms": int(idle_timeout * 1000),
                            "delay_ms": delay_ms, "released": released_at >= 0, "released_at": released_at,
                            "timer_pending_at_release": bool(before["pending_retry"] or before["pending_waiter_timeout"]),
                            "idle_announced_with_timer_pending": bool(idle_announced and (flags0["pending_retry"] or flags0["pending_waiter_timeout"])),
                            "retried": any(r["e"] == "step_start" and r["retry"] >= 1 for r in s.trace),
                            "timed_out": any(r["e"] == "wait_timeout" for r in s.trace),
                            "status": row["status"], "result": row["result"], "run": 1, "seq": n, "t": 0})
            finally:
                s.close()
        # restart while the timer is pending: crash after each persisted tick of the pre-timer phase
        db = os.path.join(str(workdir), "c14_ref_%s.db" % kind)
        s = sv.ServerSystem(prog, db_path=db, idle_timeout=1000.0)
        try:
            s.launch()
            s.start_handler("h1")
            s.drain()
            nt = s.nticks
        finally:
            s.close()
        for k in range(max(1, nt - (1 if quick else 3)), nt + 1):
            db = os.path.join(str(workdir), "c14_crash_%s_%d.db" % (kind, k))
            s = sv.ServerSystem(prog, db_path=db, idle_timeout=1000.0, crash_after_tick=k)
            try:
                s.launch()
                s.start_handler("h1")
                s.drain()
                flags = _engine_flags(s)
                hs = dict(s.handlers)
                crashed = s.crashed
            finally:
                s.close()
            if not crashed:
                continue
            s2 = sv.ServerSystem(prog, db_path=db, idle_timeout=1000.0, run_no_base=1)
            try:
                s2.handlers = hs
                s2.launch()
                s2.run_to_end(60000)
                row = s2.handler_row("h1")
                if row["status"] == "running" and row["idle"]:
                    s2.send("h1", "D", "wake", 0)
                    s2.run_to_end(60000)
                    row = s2.handler_row("h1")
                out.append({"e": "case", "via": "restart", "kind": kind, "idle_timeout_ms": 1000000, "delay_ms": delay_ms,
                            "released": True, "released_at": 0,
                            "timer_pending_at_release": bool(flags["pending_retry"] or flags["pending_waiter_timeout"]),
                            "idle_announced_with_timer_pending": False,
                            "retried": any(r["e"] == "step_start" and r["retry"] >= 1 for r in s2.trace),
                            "timed_out": any(r["e"] == "wait_timeout" for r in s2.trace),
                            "status": row["status"], "result": row["result"], "run": 1, "seq": 100 + k, "t": 0})
            finally:
                s2.close()
    # a stale deferred-release timer from an EARLIER idle period fires while a waiter timeout is pending and the current
    # idle period is still younger than idle_timeout (10 s > waiter timeout 8 s): nothing may be lost
    prog = sc.two_waits_timeout(8)
    db = os.path.join(str(workdir), "c14_stale.db")
    s = sv.ServerSystem(prog, db_path=db, idle_timeout=10.0)
    try:
        s.launch()
        s.start_handler("h1")
        s.drain()                              # idle period 1 starts at t=0 (timer at 10 s)
        s.advance_to_ms(6000)
        s.send("h1", "Resp", "x0", 0)          # a continues, b waits with timeout 8 s (fires at 14 s); idle period 2 from 6 s
        s.drain()
        flags = _engine_flags(s)
        released_at, before = _watch_release(s, "h1", 15500)
        s.run_to_end(90000)
        row = s.handler_row("h1")
        out.append({"e": "case", "via": "stale_idle_timer", "kind": "waiter", "idle_timeout_ms": 10000, "delay_ms": 8000,
                    "released": released_at >= 0, "released_at": released_at,
                    "timer_pending_at_release": bool(before["pending_waiter_timeout"] or flags["pending_waiter_timeout"]),
                    "idle_announced_with_timer_pending": True,
                    "retried": False, "timed_out": any(r["e"] == "wait_timeout" for r in s.trace),
                    "status": row["status"], "result": row["result"], "run": 1, "seq": 500, "t": 0})
    finally:
        s.close()
    # two idle periods in a row that the run ends by itself (retry delays of 6 s, no client event in between): each is
    # shorter than idle_timeout (10 s), together they are longer -- the deferred release armed in the first period must
    # stand down, and the second retry must still happen
    prog = sc.retry_then_stop(6, fail_until=2, retry_max=4)
    db = os.path.join(str(workdir), "c14_consecutive.db")
    s = sv.ServerSystem(prog, db_path=db, idle_timeout=10.0)
    try:
        s.launch()
        s.start_handler("h1")
        s.drain()
        flags = _engine_flags(s)
        released_at, before = _watch_release(s, "h1", 30000)
        s.run_to_end(90000)
        row = s.handler_row("h1")
        out.append({"e": "case", "via": "consecutive_idle_periods", "kind": "retry", "idle_timeout_ms": 10000, "delay_ms": 6000,
                    "released": released_at >= 0, "released_at": released_at,
                    "timer_pending_at_release": bool(before["pending_retry"] or flags["pending_retry"]),
                    "idle_announced_with_timer_pending": True,
                    "retried": any(r["e"] == "step_start" and r["retry"] >= 2 for r in s.trace), "timed_out": False,
                    "status": row["status"], "result": row["result"], "run": 1, "seq": 501, "t": 0})
    finally:
        s.close()
    return out


# ------------------------------------------------------------------------------------------------ C15

def c15_cases(workdir, quick=True):
    """Outcomes x transient store-write fault sequences (<= len(backoff))."""
    out = []
    n = 0
    pr = sc.pipeline(retry_max=2, delay=0, fail_until=99)
    pr["steps"]["b"]["retry"] = {"raising": True, "max": 2, "wait": ["fixed", 0]}
    progs = [("result", sc.pipeline(timeout=50), "completed", None),
             ("step_failure", sc.pipeline(fail_until=99, timeout=50), "failed", None),
             ("retry_then_failure", sc.pipeline(retry_max=2, delay=1, fail_until=99, timeout=50), "failed", None),
             ("timeout", sc.pipeline(timeout=3), "failed", "timeout"),
             ("cancel", sc.pipeline(timeout=50), "cancelled", "cancel"),
             ("junk_return", sc.junk(), "failed", None),
             ("retry_policy_raises", pr, "failed", None)]
    for (label, prog, expect, how) in progs:
        for faults in ((0, 1, 2) if quick else (0, 1, 2)):
            for store_kind in (("sqlite",) if quick else ("sqlite", "memory")):
                db = os.path.join(str(workdir), "c15_%d.db" % n) if store_kind == "sqlite" else None
                n += 1
                s = sv.ServerSystem(prog, db_path=db, idle_timeout=1000.0, status_faults=faults, backoff=(0.5, 3.0))
                try:
                    s.launch()
                    s.start_handler("h1")
                    if how == "cancel":
                        s.release(s.rig.open_gates()[0])
                        s.cancel("h1")
                    elif how == "timeout":
                        s.advance_to_ms(3000)
                    s.run_to_end(40000)
                    writes = [{"status": r["status"], "ok": bool(r["ok"])} for r in s.trace if r["e"] == "status_write"]
                    row = s.handler_row("h1")
                    out.append({"e": "case", "label": label, "expect": expect, "faults": faults, "store": store_kind,
                                "status": row["status"], "has_result": row["has_result"], "result": row["result"],
                                "has_error": row["error"] != "", "run_ended": s.live_loops("h1") == 0, "writes": writes,
                                "run": 1, "seq": n, "t": 0})
                finally:
                    s.close()
    # the store fails transiently exactly when the run's TERMINAL EVENT is recorded (append_event has no retry): whatever
    # that does to the stream, the handler row must still say how the run ended
    for (label, prog, expect, how) in (("result", sc.pipeline(timeout=50), "completed", None),
                                       ("step_failure", sc.pipeline(fail_until=99, timeout=50), "failed", None),
                                       ("cancel", sc.pipeline(timeout=50), "cancelled", "cancel")):
        db = os.path.join(str(workdir), "c15_evfault_%s.db" % label)
        s = sv.ServerSystem(prog, db_path=db, idle_timeout=1000.0, backoff=(0.5, 3.0))
        try:
            s.event_faults = 1
            s.launch()
            s.start_handler("h1")
            if how == "cancel":
                s.release(s.rig.open_gates()[0])
                s.cancel("h1")
            s.run_to_end(40000)
            writes = [{"status": r["status"], "ok": bool(r["ok"])} for r in s.trace if r["e"] == "status_write"]
            row = s.handler_row("h1")
            out.append({"e": "case", "label": label + "/terminal_event_write_fault", "expect": expect, "faults": 0, "store": "sqlite",
                        "status": row["status"], "has_result": row["has_result"], "result": row["result"],
                        "has_error": row["error"] != "", "run_ended": s.live_loops("h1") == 0, "writes": writes,
                        "run": 1, "seq": 980, "t": 0})
        finally:
            s.close()
    # the FIRST write of the handler row fails transiently: start_workflow sits in its back-off while whatever has already
    # been scheduled runs; the row must still end up matching the run's outcome
    for (label, prog, expect) in (("result", sc.pipeline(timeout=50), "completed"),
                                  ("step_failure", sc.pipeline(fail_until=99, timeout=50), "failed")):
        db = os.path.join(str(workdir), "c15_init_%s.db" % label)
        s = sv.ServerSystem(prog, db_path=db, idle_timeout=1000.0, initial_faults=1, backoff=(0.5, 3.0))
        try:
            s.launch()
            s.start_handler("h1")
            s.run_to_end(40000)
            writes = [{"status": r["status"], "ok": bool(r["ok"])} for r in s.trace if r["e"] == "status_write"]
            row = s.handler_row("h1")
            out.append({"e": "case", "label": label + "/initial_write_fault", "expect": expect, "faults": 1, "store": "sqlite",
                        "status": row["status"], "has_result": row["has_result"], "result": row["result"],
                        "has_error": row["error"] != "", "run_ended": s.live_loops("h1") == 0, "writes": writes,
                        "run": 1, "seq": 900, "t": 0})
        finally:
            s.close()
    # found by model checking ServerStack.tla (a counterexample to Act_TerminalIsFinal / Inv_StatusMatchesOutcome on the
    # as-coded variant): the run idles (waiting for input), its own workflow timeout ends it, the terminal status write fails
    # once and sleeps its back-off -- and the deferred idle release, whose idle_since nobody cleared, fires inside that sleep
    for (label, wf_timeout, idle_timeout) in (("timeout_after_idle/release_inside_write_backoff", 9.8, 10.0),
                                              ("timeout_after_idle/release_after_write_backoff", 9.0, 10.0)):
        prog = sc.waiter(None)
        prog["timeout"] = wf_timeout
        db = os.path.join(str(workdir), "c15_rel_%s.db" % label.split("/")[1])
        s = sv.ServerSystem(prog, db_path=db, idle_timeout=idle_timeout, status_faults=1, backoff=(0.5, 3.0))
        try:
            s.launch()
            s.start_handler("h1")
            s.run_to_end(60000)
            writes = [{"status": r["status"], "ok": bool(r["ok"])} for r in s.trace if r["e"] == "status_write"]
            failed_at = [r["seq"] for r in s.trace if r["e"] == "status_write" and not r["ok"]]
            done_at = [r["seq"] for r in s.trace if r["e"] == "status_write" and r["ok"] and r["status"] in ("completed", "failed", "cancelled")]
            aborts = [r["seq"] for r in s.trace if r["e"] == "abort"]
            row = s.handler_row("h1")
            out.append({"e": "case", "label": label, "expect": "failed", "faults": 1, "store": "sqlite",
                        "status": row["status"], "has_result": row["has_result"], "result": row["result"],
                        "has_error": row["error"] != "", "run_ended": s.live_loops("h1") == 0, "writes": writes,
                        "aborted_during_terminal_write": bool(failed_at and any(a > failed_at[0] for a in aborts)
                                                              and not any(d < min(aborts or [1 << 30]) for d in done_at)),
                        "run": 1, "seq": 950, "t": 0})
        finally:
            s.close()
    # a cancel that arrives after the run was released for idleness: the decorator base class hands cancel() to the INNER
    # adapter, which no longer exists for a released run (ServerStack.tla: CancelDirect is not enabled, nothing reloads)
    prog = sc.waiter(None)
    db = os.path.join(str(workdir), "c15_cancel_released.db")
    s = sv.ServerSystem(prog, db_path=db, idle_timeout=10.0, backoff=(0.5, 3.0))
    try:
        s.launch()
        s.start_handler("h1")
        s.run_to_end(15000)                    # idle at 0, released at 10 s
        released = not s.active("h1")
        t = s.cancel("h1")
        s.run_to_end(40000)
        ack = t.result() if t.done() and t.exception() is None else None
        writes = [{"status": r["status"], "ok": bool(r["ok"])} for r in s.trace if r["e"] == "status_write"]
        row = s.handler_row("h1")
        out.append({"e": "case", "label": "cancel_after_idle_release", "expect": "cancelled", "faults": 0, "store": "sqlite",
                    "status": row["status"], "has_result": row["has_result"], "result": row["result"],
                    "has_error": row["error"] != "", "run_ended": s.live_loops("h1") == 0 and ack == "cancelled", "writes": writes,
                    "cancel_of_released_run": bool(released and ack == "cancelled"),
                    "run": 1, "seq": 960, "t": 0})
    finally:
        s.close()
    # a request passes the service's terminal check while the run is still working, the run ends by itself, and only then
    # the request reaches the runtime (ServerStack.tla: SendCheck ... TermWriteOk ... SendLock, SendClear, SendForward)
    for (label, prog, expect) in (("late_event_after_completion", sc.pipeline(timeout=50), "completed"),
                                  ("late_event_after_failure", sc.pipeline(fail_until=99, timeout=50), "failed")):
        db = os.path.join(str(workdir), "c15_%s.db" % label)
        s = sv.ServerSystem(prog, db_path=db, idle_timeout=1000.0, backoff=(0.5, 3.0))
        try:
            s.launch()
            s.start_handler("h1")
            hd = s.send_checked("h1")
            s.run_to_end(20000)
            before = s.handler_row("h1")["status"]
            if hd is not None:
                s.send_after_check(hd, "Resp", "x1")
            s.run_to_end(s.now_ms() + 20000)
            writes = [{"status": r["status"], "ok": bool(r["ok"])} for r in s.trace if r["e"] == "status_write"]
            row = s.handler_row("h1")
            out.append({"e": "case", "label": label, "expect": expect if before == expect else "?" + before, "faults": 0,
                        "store": "sqlite", "status": row["status"], "has_result": row["has_result"], "result": row["result"],
                        "has_error": row["error"] != "", "run_ended": s.live_loops("h1") == 0, "writes": writes,
                        "run": 1, "seq": 970, "t": 0})
        finally:
            s.close()
    # a later run in the SAME server process: earlier transient failures must not have used up its retry budget
    db = os.path.join(str(workdir), "c15_second.db")
    s = sv.ServerSystem(sc.pipeline(timeout=50), db_path=db, idle_timeout=1000.0, status_faults=2, backoff=(0.5, 3.0))
    try:
        s.launch()
        s.start_handler("h1")
        s.run_to_end(40000)
        s.status_faults = 1
        s.start_handler("h2", "s1")
        s.run_to_end(s.now_ms() + 40000)
        writes = [{"status": r["status"], "ok": bool(r["ok"])} for r in s.trace if r["e"] == "status_write"]
        row = s.handler_row("h2")
        out.append({"e": "case", "label": "second_run_after_earlier_faults", "expect": "completed", "faults": 1, "store": "sqlite",
                    "status": row["status"], "has_result": row["has_result"], "result": row["result"],
                    "has_error": row["error"] != "", "run_ended": s.live_loops("h2") == 0, "writes": writes[-3:],
                    "run": 1, "seq": 900, "t": 0})
    finally:
        s.close()
    return out


# ------------------------------------------------------------------------------------------------ C26 / C36

def idle_cases(workdir, quick=True):
    """Idle release / on-demand reload histories on the in-process stack."""
    out = []
    n = 0
    IDLE = 10.0

    def final(s, label, extra):
        row = s.handler_row("h1")
        rec = {"e": "case", "label": label, "status": row["status"], "result": row["result"], "idle_row": row["idle"],
               "live_loops": s.live_loops("h1"), "run": 1, "seq": len(out), "t": 0,
               "loops_started": sum(1 for r in s.trace if r["e"] == "run_started"),
               "resp_returned": sorted(r["got_uid"] for r in s.trace if r["e"] == "wait_ret"),
               "sends_ok": sorted({r["uid"] for r in s.trace if r["e"] == "send_ext" and r["ok"]}),
               "sends_failed": sorted({r["uid"] for r in s.trace if r["e"] == "send_ext" and not r["ok"]}
                                      - {r["uid"] for r in s.trace if r["e"] == "send_ext" and r["ok"]}),
               "max_live_loops": max([r["n"] for r in s.trace if r["e"] == "loops"] + [0])}
        rec.update(extra)
        rec.setdefault("idle_at_ms", 0)
        rec.setdefault("inputs_processed", [])
        rec.setdefault("expect_inputs", [])
        return rec

    def mk(prog, idle=None):
        nonlocal n
        db = os.path.join(str(workdir), "idle_%d.db" % n)
        n += 1
        s = sv.ServerSystem(prog, db_path=db, idle_timeout=IDLE if idle is None else idle)
        s.launch()
        s.start_handler("h1")
        s.drain()
        return s

    # 1. idle longer than the timeout -> released; next event reloads; run continues to the same result
    for gap_ms in ((4000, 10000, 15000) if quick else (1000, 4000, 9999, 10000, 10001, 15000, 30000)):
        s = mk(sc.resumable_wait())
        try:
            released_at, before = _watch_release(s, "h1", gap_ms)
            released = not s.live_loops("h1") and s.handler_row("h1")["status"] == "running"
            idle_row = s.handler_row("h1")["idle"]
            s.send("h1", "Resp", "x0", 1)
            s.run_to_end(s.now_ms() + 40000)
            out.append(final(s, "wait_gap", {"gap_ms": gap_ms, "idle_timeout_ms": int(IDLE * 1000), "released": bool(released),
                                             "released_at": released_at, "idle_row_before_send": bool(idle_row),
                                             "busy_at_release": bool(before["live_bodies"] or before["queued"] or before["running"] or before["pending_retry"]),
                                             "expect_result": "done", "expect_resp": ["x0"]}))
        finally:
            s.close()
    # 1a'. a store with real I/O: the idle timer fires, the release task has READ the row and holds the reload lock while the
    #      reply is in flight -- a client event arrives in that window (ServerStack.tla: ReleaseRead ... SendCheck ... ReleaseAct,
    #      SendLock); the event must still be processed to completion
    s = mk(sc.resumable_wait())
    try:
        s.hold_release_read = True
        s.advance_to_ms(int(IDLE * 1000) + 500)
        held = getattr(s, "release_gate", None) is not None and not s.release_gate.done()
        t = s.send("h1", "Resp", "x0", 1)
        s.open_release_gate()
        s.run_to_end(s.now_ms() + 40000)
        if not any(r["e"] == "send_ext" and r["uid"] == "x0" and r["ok"] for r in s.trace):
            s.settle_send(t, "h1", "Resp", "x0")
        out.append(final(s, "send_during_release_read", {"gap_ms": int(IDLE * 1000) + 500, "idle_timeout_ms": int(IDLE * 1000),
                                                        "released": False, "released_at": -1, "idle_row_before_send": True,
                                                        "busy_at_release": False, "read_was_held": bool(held),
                                                        "expect_result": "done", "expect_resp": ["x0"]}))
    finally:
        s.close()
    # 1b. a non-integral idle_timeout
    for (idle, gap_ms) in ((1.5, 1000), (1.5, 2500), (0.4, 1000)):
        s = mk(sc.resumable_wait(), idle)
        try:
            released_at, before = _watch_release(s, "h1", gap_ms, step_ms=100)
            released = not s.live_loops("h1") and s.handler_row("h1")["status"] == "running"
            idle_row = s.handler_row("h1")["idle"]
            s.send("h1", "Resp", "x0", 1)
            s.run_to_end(s.now_ms() + 40000)
            out.append(final(s, "wait_gap", {"gap_ms": gap_ms, "idle_timeout_ms": int(idle * 1000), "released": bool(released),
                                             "released_at": released_at, "idle_row_before_send": bool(idle_row),
                                             "busy_at_release": False, "expect_result": "done", "expect_resp": ["x0"]}))
        finally:
            s.close()
    # 1c. the deferred-release timer of an EARLIER idle period must not release a run whose current idle period is younger
    s = mk(sc.two_waits())
    try:
        s.advance_to_ms(6000)
        s.send("h1", "Resp", "x0", 0)
        s.drain()                                  # idle again from t = 6 s; the first period's timer fires at 10 s
        released_at, before = _watch_release(s, "h1", 20000)
        rel = not s.live_loops("h1")
        idle_row = s.handler_row("h1")["idle"]
        s.send("h1", "Resp", "x1", 1)
        s.run_to_end(s.now_ms() + 40000)
        out.append(final(s, "wait_gap", {"gap_ms": 14000, "idle_timeout_ms": int(IDLE * 1000), "released": bool(rel),
                                         "released_at": released_at, "idle_at_ms": 6000, "idle_row_before_send": bool(idle_row),
                                         "busy_at_release": False, "expect_result": "done", "expect_resp": ["x0", "x1"]}))
    finally:
        s.close()
    # 2. two idle periods, each released and reloaded
    s = mk(sc.two_waits())
    try:
        r1, b1 = _watch_release(s, "h1", 15000)
        s.send("h1", "Resp", "x0", 0)
        s.drain()
        r2, b2 = _watch_release(s, "h1", s.now_ms() + 15000)
        rel2 = not s.live_loops("h1")
        s.send("h1", "Resp", "x1", 1)
        s.run_to_end(s.now_ms() + 40000)
        out.append(final(s, "two_cycles", {"gap_ms": 15000, "idle_timeout_ms": int(IDLE * 1000), "released": bool(r1 >= 0 and rel2),
                                           "released_at": r1, "idle_row_before_send": True,
                                           "busy_at_release": bool(b1["live_bodies"] or b1["queued"] or b1["running"] or b2["live_bodies"] or b2["queued"] or b2["running"]),
                                           "expect_result": "done", "expect_resp": ["x0", "x1"]}))
    finally:
        s.close()
    # 2b. the garbage collector as part of the environment: after a reload nobody but the runtime refers to the run (the
    #     reload drops the handler that workflow.run() returns); while the reloaded run waits for its next event -- no timer
    #     pending -- a cyclic GC pass runs; the next event must still find the run and be processed
    s = mk(sc.two_waits())
    try:
        import gc
        r1, b1 = _watch_release(s, "h1", 15000)
        s.send("h1", "Resp", "x0", 0)
        s.drain()
        en._RUNNERS.clear()                       # the harness's own registry of live runners must not be what keeps it alive
        gc.collect()
        s.send("h1", "Resp", "x1", 1)
        s.run_to_end(s.now_ms() + 40000)
        out.append(final(s, "reload_then_gc", {"gap_ms": 15000, "idle_timeout_ms": int(IDLE * 1000), "released": bool(r1 >= 0),
                                               "released_at": r1, "idle_row_before_send": True,
                                               "busy_at_release": bool(b1["live_bodies"] or b1["queued"] or b1["running"]),
                                               "expect_result": "done", "expect_resp": ["x0", "x1"]}))
    finally:
        s.close()
    # 3. two senders at once to a released run: one reload, one live loop, both events processed
    s = mk(sc.idle_acceptor())
    try:
        EV = __import__("harness.programs.events", fromlist=["x"]).TYPES
        r1, b1 = _watch_release(s, "h1", 15000)
        t1 = s.server._service.send_event("h1", EV["Hum"](uid="u0", k=0))
        t2 = s.server._service.send_event("h1", EV["Hum"](uid="u1", k=1))
        box = []
        s.loop.call_soon(lambda: box.extend([s.loop.create_task(t1), s.loop.create_task(t2)]))
        s.loop.quiesce()
        for (u, t) in zip(("u0", "u1"), box):
            ok = t.done() and t.exception() is None
            s.log({"e": "send_ext", "hid": "h1", "ty": "Hum", "uid": u, "ok": ok, "err": ""})
        s.log({"e": "loops", "n": sum(1 for q in s.basic._queues.values() if hasattr(q, "complete") and not q.complete.done())})
        s.drain()
        s.send("h1", "Resp", "x0", 0)
        s.run_to_end(s.now_ms() + 40000)
        rec = final(s, "two_senders", {"gap_ms": 15000, "idle_timeout_ms": int(IDLE * 1000), "released": r1 >= 0,
                                       "released_at": r1, "idle_row_before_send": True, "busy_at_release": False,
                                       "expect_result": "done", "expect_resp": ["x0"]})
        rec["inputs_processed"] = sorted({r["uid"] for r in s.trace if r["e"] == "step_start" and r["step"] == "b"})
        rec["expect_inputs"] = ["u0", "u1"]
        out.append(rec)
    finally:
        s.close()
    # 4. a send scheduled at the very instant the deferred release fires (before / after it in callback order)
    for order in ("send_first", "release_first"):
        s = mk(sc.resumable_wait())
        try:
            ev = __import__("harness.programs.events", fromlist=["x"]).TYPES["Resp"](uid="x0", k=1)
            deadline = s.loop.next_timer()
            box = []
            when = deadline - (1e-4 if order == "send_first" else -1e-4)
            s.loop.call_at(when, lambda: box.append(s.loop.create_task(s.server._service.send_event("h1", ev))))
            s.advance_to_ms(en.ms(deadline - s.t0) + 1)
            ok = bool(box) and box[0].done() and box[0].exception() is None
            s.log({"e": "send_ext", "hid": "h1", "ty": "Resp", "uid": "x0", "ok": ok, "err": ""})
            s.log({"e": "loops", "n": sum(1 for q in s.basic._queues.values() if hasattr(q, "complete") and not q.complete.done())})
            s.run_to_end(s.now_ms() + 40000)
            out.append(final(s, "send_races_release_" + order, {"gap_ms": 10000, "idle_timeout_ms": int(IDLE * 1000), "released": False,
                                                               "released_at": -1, "idle_row_before_send": True, "busy_at_release": False,
                                                               "expect_result": "done", "expect_resp": ["x0"]}))
        finally:
            s.close()
    # 4b. an event arrives BEFORE the idle timeout; the step it wakes is still running when the old deferred-release
    #     timer fires: the busy run must not be released
    s = mk(sc.two_waits())
    try:
        s.advance_to_ms(4000)
        s.send("h1", "Resp", "x0", 0)          # wakes a; its replay now sits at its gate (a running step body)
        released_at, before = _watch_release_busy(s, "h1", 14000)
        rel = released_at >= 0
        s.drain()
        s.send("h1", "Resp", "x1", 1)
        s.run_to_end(s.now_ms() + 40000)
        out.append(final(s, "busy_after_early_send", {"gap_ms": 4000, "idle_timeout_ms": int(IDLE * 1000), "released": rel,
                                                      "released_at": released_at, "idle_row_before_send": True,
                                                      "busy_at_release": bool(rel), "expect_result": "done",
                                                      "expect_resp": ["x0", "x1"]}))
    finally:
        s.close()
    # 5. idle announced while a retry is waiting out its delay (> idle_timeout): the busy run is released
    s = mk(sc.retry_then_stop(25))
    try:
        released_at, before = _watch_release(s, "h1", 60000)
        s.run_to_end(90000)
        out.append(final(s, "retry_longer_than_idle_timeout",
                         {"gap_ms": 25000, "idle_timeout_ms": int(IDLE * 1000), "released": released_at >= 0,
                          "released_at": released_at, "idle_row_before_send": True,
                          "busy_at_release": bool(before["live_bodies"] or before["queued"] or before["running"] or before["pending_retry"]),
                          "expect_result": "done", "expect_resp": []}))
    finally:
        s.close()
    return out
