"""Driver for resource injection (workflows.resource.ResourceManager through step_function.partial)
on the real engine under the virtual loop.

A program (as enumerated by MC_Resources.tla) gives, for resources a,b,c: the factory dependencies,
cache flags, which factories are async (gated by the driver) and, for every invocation p, the list of
resource parameters of the step it runs.  It is compiled to a real Workflow class: factories fa/fb/fc
whose parameters are `Annotated[Obj, Resource(f, cache=...)]`, a `boot` step routing the start event to
step s_k, and steps s_k taking their resources as Annotated parameters.  Every invocation is one run of
the SAME workflow instance (one ResourceManager); commands (environment actions of Resources.tla):
["begin", p] = workflow.run(pid=p), ["release", p] = let the async factory p is suspended in return.
One command per quiescence point.  Objects are numbered in creation order, as in the spec.

`same_run=True` builds the other shape named in the design: ONE run whose start event is accepted by all
steps at once (two steps accepting the same event), begun by a single ["begin_all"] command; the engine starts
the steps in name order, so `same_run="rev"` names them the other way round (the invocations are started last-first).
"""
from __future__ import annotations

import asyncio

from harness.env import stubimport, vloop

stubimport.install()

import logging

# the engine logs every failed step worker with a traceback; failures are expected and recorded here
logging.getLogger("workflows.runtime.control_loop").setLevel(logging.CRITICAL)

_NS_CACHE = {}


class Obj:
    def __init__(self, k, name):
        self.k, self.name = k, name


class _Hook:
    """What the generated module calls; forwards to the System that is running."""
    cur = None

    async def afactory(self, name, deps):
        return await self.cur.factory(name, deps, True)

    def factory(self, name, deps):
        return self.cur.factory_sync(name, deps)

    def body(self, pid, values):
        self.cur.body(pid, values)


def step_name_of(procs, p, same_run):
    k = list(procs).index(p) + 1
    return "s%d" % (len(procs) + 1 - k if same_run == "rev" else k)


def _compile(prog, procs, same_run):
    key = repr((sorted(prog["deps"].items()), sorted(prog["cache"].items()), sorted(prog["asyncf"].items()),
                sorted(prog["params"].items()), tuple(procs), same_run))
    if key in _NS_CACHE:
        return _NS_CACHE[key]
    names = sorted(prog["deps"])
    src = ["from typing import Annotated, Union",
           "from workflows import Workflow, step",
           "from workflows.events import Event, StartEvent, StopEvent",
           "from workflows.resource import Resource",
           ""]
    for n in names:
        args = ", ".join('%s: "Annotated[Obj, Resource(f%s, cache=%s)]"' % (d, d, prog["cache"][d])
                         for d in prog["deps"][n])
        tup = "(" + "".join(d + ", " for d in prog["deps"][n]) + ")"
        if prog["asyncf"][n]:
            src += ["async def f%s(%s):" % (n, args), "    return await HOOK.afactory(%r, %s)" % (n, tup), ""]
        else:
            src += ["def f%s(%s):" % (n, args), "    return HOOK.factory(%r, %s)" % (n, tup), ""]
    if same_run:
        src += ["class Go(StartEvent):", "    tag: str = ''", ""]
        src += ["class RW(Workflow):"]
        for k, p in enumerate(procs, 1):
            pars = "".join(", x%d: Annotated[Obj, Resource(f%s, cache=%s)]" % (j, n, prog["cache"][n])
                           for j, n in enumerate(prog["params"][p]))
            vals = "[" + ", ".join("x%d" % j for j in range(len(prog["params"][p]))) + "]"
            src += ["    @step", "    async def %s(self, ev: Go%s) -> StopEvent:" % (step_name_of(procs, p, same_run), pars),
                    "        HOOK.body(%r, %s)" % (p, vals), "        await HOOK.cur.hold(%r)" % p,
                    "        return StopEvent(result=%r)" % p, ""]
    else:
        src += ["class Go(StartEvent):", "    pid: str", ""]
        for k, p in enumerate(procs, 1):
            src += ["class E%d(Event):" % k, "    pid: str", ""]
        src += ["ROUTE = {%s}" % ", ".join("%r: E%d" % (p, k) for k, p in enumerate(procs, 1)), ""]
        union = "Union[" + ", ".join("E%d" % k for k in range(1, len(procs) + 1)) + "]"
        src += ["class RW(Workflow):", "    @step", "    async def boot(self, ev: Go) -> %s:" % union,
                "        return ROUTE[ev.pid](pid=ev.pid)", ""]
        for k, p in enumerate(procs, 1):
            pars = "".join(", x%d: Annotated[Obj, Resource(f%s, cache=%s)]" % (j, n, prog["cache"][n])
                           for j, n in enumerate(prog["params"][p]))
            vals = "[" + ", ".join("x%d" % j for j in range(len(prog["params"][p]))) + "]"
            src += ["    @step", "    async def s%d(self, ev: E%d%s) -> StopEvent:" % (k, k, pars),
                    "        HOOK.body(ev.pid, %s)" % vals, "        return StopEvent(result=ev.pid)", ""]
    ns = {"HOOK": _Hook(), "Obj": Obj, "__name__": "harness_generated_resources"}
    exec(compile("\n".join(src), "<resources-program>", "exec"), ns)
    _NS_CACHE[key] = ns
    return ns


class System:
    def __init__(self, prog, procs, same_run=False):
        self.prog, self.procs, self.same_run = prog, list(procs), same_run
        self.names = sorted(prog["deps"])
        self.ns = _compile(prog, self.procs, same_run)
        self.loop = vloop.new_loop()
        self._clk = vloop.patched_clocks(self.loop)
        self._clk.__enter__()
        self.ns["HOOK"].cur = self
        from workflows.plugins.basic import BasicRuntime
        self.wf = self.ns["RW"](timeout=None, runtime=BasicRuntime())
        self.rm = self.wf._resource_manager
        self.handlers = {}
        self.begun = []
        self.current_begin = None
        self.task_proc = {}
        self.objs = []            # {"name", "task", "deps"}
        self.obj_by_id = {}
        self.gate_of_task = {}    # task -> (k, future)
        self.injected = {}
        self.holds = {}
        self.anomalies = []
        self.overlap = {p: False for p in self.procs}
        self.suspended_during_cmd = False

    # ------------------------------------------------------------------ called from the generated code
    def _new_obj(self, name, deps):
        t = asyncio.current_task()
        if t not in self.task_proc:
            # the worker task's coroutine (control_loop._run_worker) closes over the command naming its step,
            # and step s<k> belongs to invocation k; read for attribution only.  Fallback: the invocation begun
            # by the command being applied.
            try:
                step_name = t.get_coro().cr_frame.f_locals["command"].step_name
                who = {step_name_of(self.procs, q, self.same_run): q for q in self.procs}[step_name]
            except Exception:
                who = self.current_begin
            if who is None:
                self.anomalies.append("factory %s called from a task that cannot be attributed" % name)
            self.task_proc[t] = who
        k = len(self.objs) + 1
        o = Obj(k, name)
        self.objs.append({"name": name, "task": t, "deps": [getattr(d, "k", 0) for d in deps]})
        self.obj_by_id[id(o)] = o
        return t, k, o

    def factory_sync(self, name, deps):
        if name in getattr(self, "fail_once", ()):
            # a factory that raises on its own (a connection that cannot be made yet), once
            self.fail_once = [x for x in self.fail_once if x != name]
            raise RuntimeError("factory %s is not available yet" % name)
        return self._new_obj(name, deps)[2]

    async def factory(self, name, deps, _async):
        t, k, o = self._new_obj(name, deps)
        g = self.loop.create_future()
        self.gate_of_task[t] = (k, g)
        self.suspended_during_cmd = True
        try:
            await g
        finally:
            self.gate_of_task.pop(t, None)
        return o

    def body(self, pid, values):
        t = asyncio.current_task()
        prev = self.task_proc.get(t)
        if prev not in (None, pid):
            self.anomalies.append("task attributed to %s ran the body of %s" % (prev, pid))
        self.task_proc[t] = pid
        self.injected[pid] = [getattr(v, "k", 0) for v in values]

    async def hold(self, pid):
        g = self.loop.create_future()
        self.holds[pid] = g
        await g

    # ------------------------------------------------------------------ projection
    def _task_of(self, p):
        for t, q in self.task_proc.items():
            if q == p:
                return t
        return None

    def status(self, p):
        if p not in self.begun:
            return "idle"
        if p in self.injected:
            return "done"
        h = self.handlers.get("*" if self.same_run else p)
        t = self._task_of(p)
        if t is not None and t in self.gate_of_task:
            return "blocked"
        if h is not None and h._result_task.done():
            if self.same_run:
                return "aborted"           # the one run ended (see run_error) before this step body ran
            if h._result_task.cancelled():
                return "aborted"
            e = h._result_task.exception()
            if e is None:
                return "lost"
            return "error" if self._is_cycle(e) else "failed"
        return "waiting"          # begun, not suspended in a factory, not finished: waits for someone else

    @staticmethod
    def _is_cycle(e):
        return isinstance(e, ValueError) and "Circular resource dependency" in str(e)

    def run_error(self):
        """same_run mode: how the single run ended, if it did."""
        h = self.handlers.get("*")
        if h is None or not h._result_task.done() or h._result_task.cancelled():
            return ""
        e = h._result_task.exception()
        if e is None:
            return ""
        return "cycle" if self._is_cycle(e) else "other"

    def enabled(self):
        out = []
        if self.same_run:
            if not self.begun:
                out.append(["begin_all"])
        else:
            out += [["begin", p] for p in self.procs if p not in self.begun]
        out += [["release", p] for p in self.procs if self.status(p) == "blocked"]
        return out

    def _run(self, key, **kw):
        self.handlers[key] = self.wf.run(**kw)

    def apply(self, cmd):
        self.suspended_during_cmd = False
        active = [q for q in self.procs if self.status(q) == "blocked"]
        if cmd[0] == "begin":
            p = cmd[1]
            self.begun.append(p)
            self.current_begin = p
            if active:
                self.overlap[p] = True
                for q in active:
                    self.overlap[q] = True
            self.loop.call_soon(lambda: self._run(p, pid=p))
        elif cmd[0] == "begin_all":
            self.begun += self.procs
            self.current_begin = None
            self.loop.call_soon(lambda: self._run("*", tag="x"))
        elif cmd[0] == "release":
            p = cmd[1]
            others = [q for q in active if q != p]
            if others:
                self.overlap[p] = True
                for q in others:
                    self.overlap[q] = True
            t = self._task_of(p)
            self.gate_of_task[t][1].set_result(None)
        else:
            raise ValueError(cmd)
        self.loop.quiesce()
        if cmd[0] == "begin_all" and len(self.procs) > 1 and self.suspended_during_cmd:
            # somebody suspended inside an async factory with its resolution scope open while the steps of the same event
            # ran: the invocations overlapped (when nobody ever suspends they run one after the other)
            for p in self.procs:
                self.overlap[p] = True
        self.current_begin = None
        return self.project()

    def project(self):
        rm = self.rm

        def kof(v):
            return getattr(v, "k", -1)
        st = {p: self.status(p) for p in self.procs}
        return {
            "status": st,
            "inj": {p: list(self.injected.get(p, [])) for p in self.procs},
            "objs": [{"name": o["name"], "by": self.task_proc.get(o["task"]) or "?", "deps": list(o["deps"])}
                     for o in self.objs],
            "resolving": list(rm._resolving),
            "depth": int(rm._resolution_depth),
            "rc": {n: kof(rm._resolution_cache["f" + n]) if ("f" + n) in rm._resolution_cache else 0 for n in self.names},
            "res": {n: kof(rm.resources["f" + n]) if ("f" + n) in rm.resources else 0 for n in self.names},
            "overlap": dict(self.overlap),
            "run_error": self.run_error(),
            "anomalies": len(self.anomalies),
        }

    def close(self):
        try:
            for g in list(self.holds.values()):
                if not g.done():
                    g.set_result(None)
            for h in self.handlers.values():
                if not h._result_task.done():
                    h._result_task.cancel()
            self.loop.quiesce()
        except BaseException:
            pass
        self.ns["HOOK"].cur = None
        self._clk.__exit__(None, None, None)
        vloop.close_loop(self.loop)


def _strip(name):
    return name[1:] if name.startswith("f") else name


def run_schedule(prog, procs, schedule, same_run=False, filter_enabled=True):
    s = System(prog, procs, same_run)
    try:
        tr = []
        for cmd in schedule:
            if filter_enabled and list(cmd) not in s.enabled():
                continue
            post = s.apply(list(cmd))
            post["resolving"] = [_strip(x) for x in post["resolving"]]
            tr.append({"cmd": list(cmd), "post": post})
        return tr, list(s.anomalies)
    finally:
        s.close()


def explore(prog, procs, same_run=False, max_traces=None):
    """Every sequence of enabled commands (DFS, pruned on the projected state; the workflow instance
    is re-created and the path re-executed for every node)."""
    seen = set()
    traces = []

    def rec(schedule):
        if max_traces is not None and len(traces) >= max_traces:
            return
        s = System(prog, procs, same_run)
        try:
            tr = []
            for cmd in schedule:
                post = s.apply(list(cmd))
                post["resolving"] = [_strip(x) for x in post["resolving"]]
                tr.append({"cmd": list(cmd), "post": post})
            en = s.enabled()
            anomalies = list(s.anomalies)
        finally:
            s.close()
        key = repr(tr[-1]["post"]) if tr else ""
        if tr and key in seen:
            traces.append((tr, anomalies))
            return
        seen.add(key)
        if not en:
            if tr:
                traces.append((tr, anomalies))
            return
        for c in en:
            rec(schedule + [c])

    rec([])
    return traces


def factory_failure_cases():
    """A factory raises on its own (no cycle) while an invocation resolves its resources; a LATER invocation on the same
    workflow instance resolves the same resources.  -> records {label, first, second, second_fresh}"""
    out = []
    base = {"deps": {"a": [], "b": ["a"], "c": []}, "asyncf": {"a": False, "b": False, "c": False}}
    for failing in ("a", "b"):
        for cache_a in (True, False):
            for cache_b in (True, False):
                prog = dict(base, cache={"a": cache_a, "b": cache_b, "c": True}, params={"p1": ["b"], "p2": ["b"], "p3": ["a"]})
                s = System(prog, ["p1", "p2", "p3"])
                try:
                    s.fail_once = [failing]
                    s.apply(["begin", "p1"])
                    first = s.status("p1")
                    made_before = len(s.objs) if hasattr(s, "objs") else 0
                    s.apply(["begin", "p2"])
                    s.apply(["begin", "p3"])
                    out.append({"label": "factory %s raises once, cache a=%s b=%s" % (failing, cache_a, cache_b),
                                "first": first, "second": s.status("p2"), "third": s.status("p3")})
                finally:
                    s.close()
    return out
