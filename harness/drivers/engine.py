"""Driver for the real workflow engine (llama-index-workflows on BasicRuntime) under the virtual loop.

The driver is synchronous and acts only at quiescence points; observation is taken at public
extension points (a Runtime subclass returning a recording internal adapter) and in the
harness-owned step bodies (DESIGN.md 3.6).  One projection per abstract domain, shared by
recording and replay.
"""
from __future__ import annotations

import asyncio
import json

from harness.env import stubimport, vloop

stubimport.install()

import workflows.runtime.control_loop as CL  # noqa: E402
from workflows import Context  # noqa: E402
from workflows.errors import WorkflowCancelledByUser, WorkflowTimeoutError  # noqa: E402
from workflows.events import (Event, InternalDispatchEvent, StepFailedEvent, StepStateChanged, StopEvent,  # noqa: E402
                              UnhandledEvent, WorkflowCancelledEvent, WorkflowFailedEvent, WorkflowIdleEvent,
                              WorkflowTimedOutEvent)
from workflows.plugins.basic import BasicRuntime, InternalAsyncioAdapter  # noqa: E402
from workflows.runtime.types import ticks as T  # noqa: E402
from workflows.runtime.types.results import (AddCollectedEvent, AddWaiter, DeleteCollectedEvent, DeleteWaiter,  # noqa: E402
                                             StepWorkerFailed, StepWorkerResult)
from harness.programs import events as E  # noqa: E402
from harness.programs.compile import Rig, compile_program  # noqa: E402

# ---------------------------------------------------------------------------- projections


def ms(x):
    return int(round(float(x) * 1000))


_TYNAMES = {}


def _tyname(x):
    """Normalise the engine's renderings of an event type (class __name__, str(type), None) to abstract names."""
    if not _TYNAMES:
        for n, c in E.TYPES.items():
            _TYNAMES[c.__name__] = n
            _TYNAMES[str(c)] = n
        _TYNAMES["None"] = "-"
        _TYNAMES[str(type(None))] = "None"
        _TYNAMES[str(int)] = "Junk"
    return _TYNAMES.get(str(x), str(x))


def ev_k(ev):
    try:
        return int(getattr(ev, "k", 0) or 0)
    except Exception:
        return 0


def p_event(ev):
    if ev is None:
        return {"ty": "None", "uid": ""}
    return {"ty": E.ty_of(ev), "uid": E.uid_of(ev)}


def p_pub(ev):
    """Projection of an event on the published stream."""
    if isinstance(ev, StepStateChanged):
        return {"k": "state", "state": ev.step_state.name, "step": ev.name, "wid": str(ev.worker_id),
                "in": _tyname(ev.input_event_name), "out": _tyname(ev.output_event_name)}
    if isinstance(ev, WorkflowFailedEvent):
        return {"k": "failed", "step": ev.step_name, "exc": type(ev.exception).__name__ if getattr(ev, "exception", None) is not None else str(getattr(ev, "exception_type", "")),
                "attempts": int(ev.attempts), "elapsed_ms": ms(ev.elapsed_seconds)}
    if isinstance(ev, WorkflowCancelledEvent):
        return {"k": "cancelled"}
    if isinstance(ev, WorkflowTimedOutEvent):
        return {"k": "timedout", "active": sorted(ev.active_steps)}
    if isinstance(ev, WorkflowIdleEvent):
        return {"k": "idle"}
    if isinstance(ev, UnhandledEvent):
        return {"k": "unhandled", "ty": _tyname(ev.event_type), "target": ev.step_name or "*",
                "idle": bool(ev.idle)}
    if isinstance(ev, StopEvent):
        return {"k": "stop", "uid": E.uid_of(ev), "ty": E.ty_of(ev)}
    return {"k": "ev", "ty": E.ty_of(ev), "uid": E.uid_of(ev)}


def is_terminal_pub(p):
    return p["k"] in ("stop", "failed", "cancelled", "timedout")


def p_rc(rc):
    return {str(k): int(v) for k, v in sorted((rc or {}).items())}


def p_result(r):
    if isinstance(r, StepWorkerResult):
        v = r.result
        if v is None:
            return {"r": "ret", "ty": "None", "uid": ""}
        if isinstance(v, Event):
            return {"r": "ret", "ty": E.ty_of(v), "uid": E.uid_of(v)}
        return {"r": "ret", "ty": "Junk", "uid": ""}
    if isinstance(r, StepWorkerFailed):
        return {"r": "failed", "exc": type(r.exception).__name__, "at_ms": ms(r.failed_at)}
    if isinstance(r, AddCollectedEvent):
        return {"r": "addc", "buf": r.event_id, "ty": E.ty_of(r.event), "uid": E.uid_of(r.event)}
    if isinstance(r, DeleteCollectedEvent):
        return {"r": "delc", "buf": r.event_id}
    if isinstance(r, AddWaiter):
        return {"r": "addw", "wid": r.waiter_id, "ty": E.NAMES.get(r.event_type, r.event_type.__name__),
                "reqs": {str(k): str(v) for k, v in sorted(r.requirements.items())},
                "timeout_ms": -1 if r.timeout is None else ms(r.timeout),
                "wev": "" if r.waiter_event is None else E.uid_of(r.waiter_event)}
    if isinstance(r, DeleteWaiter):
        return {"r": "delw", "wid": r.waiter_id}
    return {"r": "unknown:" + type(r).__name__}


def p_tick(t):
    if isinstance(t, T.TickAddEvent):
        return {"k": "add", "ty": E.ty_of(t.event), "uid": E.uid_of(t.event), "evk": ev_k(t.event),
                "target": t.step_name or "*",
                "att": -1 if t.attempts is None else int(t.attempts),
                "first": -1 if t.first_attempt_at is None else ms(t.first_attempt_at),
                "last_exc": "none" if t.last_exception is None else type(t.last_exception).__name__,
                "rc": p_rc(t.recovery_counts)}
    if isinstance(t, T.TickStepResult):
        return {"k": "result", "step": t.step_name, "wid": int(t.worker_id), "ty": E.ty_of(t.event),
                "uid": E.uid_of(t.event), "evk": ev_k(t.event), "res": [p_result(r) for r in t.result]}
    if isinstance(t, T.TickCancelRun):
        return {"k": "cancel"}
    if isinstance(t, T.TickPublishEvent):
        return {"k": "publish", "ty": E.ty_of(t.event), "uid": E.uid_of(t.event)}
    if isinstance(t, T.TickTimeout):
        return {"k": "timeout"}
    if isinstance(t, T.TickWaiterTimeout):
        return {"k": "wtimeout", "step": t.step_name, "wid": t.waiter_id}
    if isinstance(t, T.TickIdleCheck):
        return {"k": "idlecheck"}
    if isinstance(t, T.TickIdleRelease):
        return {"k": "idlerelease"}
    return {"k": "unknown:" + type(t).__name__}


def p_waiter(w):
    return {"id": w.waiter_id, "uid": E.uid_of(w.event), "ev_ty": E.ty_of(w.event),
            "want": E.NAMES.get(w.waiting_for_event, str(w.waiting_for_event)),
            "has_reqs": bool(w.has_requirements),
            "reqs": {str(k): str(v) for k, v in sorted((w.requirements or {}).items())},
            "resolved": "" if w.resolved_event is None else E.uid_of(w.resolved_event),
            "is_resolved": w.resolved_event is not None,
            "timed_out": bool(getattr(w, "timed_out", False))}


def p_attempt(a):
    return {"uid": E.uid_of(a.event), "ty": E.ty_of(a.event), "att": -1 if a.attempts is None else int(a.attempts),
            "first": -1 if a.first_attempt_at is None else ms(a.first_attempt_at), "rc": p_rc(a.recovery_counts),
            "last_exc": "none" if a.last_exception is None else type(a.last_exception).__name__}


def p_state(bs, with_time=False):
    out = {"running": bool(bs.is_running), "steps": {}}
    for name in sorted(bs.workers):
        w = bs.workers[name]
        out["steps"][name] = {
            "queue": [p_attempt(a) for a in w.queue],
            "ip": [{"uid": E.uid_of(x.event), "ty": E.ty_of(x.event), "wid": int(x.worker_id), "att": int(x.attempts),
                    "first": ms(x.first_attempt_at), "rc": p_rc(x.recovery_counts),
                    "last_exc": "none" if x.last_exception is None else type(x.last_exception).__name__,
                    "snap_coll": {b: [p_event(e) for e in evs] for b, evs in sorted(x.shared_state.collected_events.items())},
                    "snap_waiters": [p_waiter(v) for v in x.shared_state.collected_waiters]}
                   for x in w.in_progress],
            "coll": {b: [p_event(e) for e in evs] for b, evs in sorted(w.collected_events.items())},
            "waiters": [p_waiter(v) for v in w.collected_waiters],
        }
    return out


# ---------------------------------------------------------------------------- recording runtime

_RUNNERS = {}


class _RecordingRunner(CL._ControlLoopRunner):
    def __init__(self, *a, **k):
        super().__init__(*a, **k)
        _RUNNERS[self.adapter.run_id] = self


# control_loop() looks the class up in its module globals at call time: the real control_loop and the
# real runner code run; the subclass only registers the instance so the harness can read runner.state.
CL._ControlLoopRunner = _RecordingRunner


class RecordingAdapter(InternalAsyncioAdapter):
    def __init__(self, queues, rec):
        super().__init__(queues)
        self._rec = rec

    async def on_tick(self, tick):
        await super().on_tick(tick)
        self._rec.on_tick(self, tick)

    async def write_to_event_stream(self, event):
        self._rec.log({"e": "pub", "p": p_pub(event), "live": self._rec.live_now()})
        await super().write_to_event_stream(event)

    async def get_now(self):
        v = await super().get_now()
        self._rec.last_now = v           # the clock value the runner hands to the reducer
        return v

    async def send_event(self, tick):
        self._rec.log({"e": "send_int", "tick": p_tick(tick)})
        await super().send_event(tick)

    async def wait_for_next_task(self, running, pending, timeout):
        def key(t):
            if hasattr(t, "step_name"):
                return "w:%s:%s" % (t.step_name, t.worker_id)
            return "pull"
        res = await super().wait_for_next_task(running, pending, timeout)
        done = "timeout"
        if res.completed is not None:
            done = "?"
            for nt in list(running) + list(res.started):
                if nt.task is res.completed:
                    done = key(nt)
        self._rec.log({"e": "wait", "running": [key(t) for t in running], "pending": [key(t) for t in pending],
                       "timeout_ms": -1 if timeout is None else ms(timeout), "done": done})
        return res


class RecordingRuntime(BasicRuntime):
    def __init__(self, rec):
        super().__init__()
        self._rec = rec

    def get_internal_adapter(self, workflow):
        inner = super().get_internal_adapter(workflow)
        return RecordingAdapter(inner._queues, self._rec)


# ---------------------------------------------------------------------------- the system under test


class EngineSystem:
    """One workflow program + one (or, after resume, several) runs of it on the real engine."""

    def __init__(self, prog: dict, observe_c11: bool = True, start: float = 1000.0):
        self.prog = prog
        self.loop = vloop.new_loop(start=start, wall_epoch=100000.0)   # ms values stay below 2^31 for TLC
        self._clocks = vloop.patched_clocks(self.loop)
        self._clocks.__enter__()
        self.t0 = self.loop.time()
        self.rig = Rig()
        self.rig.loop = self.loop
        self.rig.log = self.log
        self.rig.wid_of = self._wid_of
        self.trace = []
        self.seq = 0
        self.observe_c11 = observe_c11
        self.second_consumer = bool(prog.get("second_consumer"))     # the driver may attach another stream consumer mid-run
        self.consumers2 = self.consumers2_done = 0
        self.runtime = RecordingRuntime(self)
        self.W = compile_program(prog, self.rig)
        self.wf = self.W(timeout=prog.get("timeout"), disable_validation=not prog.get("validation", True),
                         num_concurrent_runs=prog.get("num_concurrent_runs"), runtime=self.runtime)
        self.handler = None
        self.outcome = None
        self.stream_done = False
        self.cancelled = False
        self.run_no = 0
        self.consumer = None
        self.waiter = None
        self.ext_sent = 0
        self.slept = 0
        self.jumps = 0
        import time as _tm
        self.t0_mono = self.loop.time() if True else _tm.time()

    # ---- time
    def now_ms(self):
        return ms(self.loop.time() - self.t0)

    def log(self, rec):
        if getattr(self, "_muted", False):
            return
        ct = getattr(self, "_cur_tick", None)
        if ct is not None:
            if rec.get("e") == "pub":
                ct["pubs"].append(rec["p"])       # command publishes follow their tick with no suspension
            elif rec.get("e") != "tick":
                self._cur_tick = None
        rec["seq"] = self.seq
        rec["t"] = self.now_ms()
        rec["run"] = self.run_no
        self.seq += 1
        self.trace.append(rec)

    def _to_loop_time(self, at):
        """The runner's wake-up times are in the adapter's clock (epoch seconds since fix a2fea11, the monotonic clock
        before): convert to the event loop's clock."""
        off = self.loop.wall() - self.loop.time()
        return at - off if abs(at - self.loop.wall()) < abs(at - self.loop.time()) else at

    def live_now(self):
        return {s: int(self.rig.live.get(s, 0)) for s in sorted(self.prog["steps"])}

    def _wid_of(self, step, ev):
        """Worker slot of the running invocation that holds this very event object (-1 if not found)."""
        for r in _RUNNERS.values():
            w = r.state.workers.get(step)
            for ip in (w.in_progress if w is not None else ()):
                if ip.event is ev:
                    return ip.worker_id
        return -1

    def queued_now(self):
        out = {s: 0 for s in sorted(self.prog["steps"])}
        for r in _RUNNERS.values():
            for s, w in r.state.workers.items():
                out[s] = len(w.queue)
        return out

    # ---- recording hooks
    def on_tick(self, adapter, tick):
        import time as _t
        rec = {"e": "tick", "tick": p_tick(tick), "now": ms(getattr(self, "last_now", _t.monotonic())), "pubs": []}
        self._cur_tick = rec
        runner = _RUNNERS.get(adapter.run_id)
        if runner is not None:
            rec["state"] = p_state(runner.state)
            rec["wakeups"] = sorted([[ms(at - self.t0), p_tick(tk)["k"]] for (at, _s, tk) in runner.scheduled_wakeups])
            rec["buffer"] = [p_tick(x)["k"] for x in runner.tick_buffer]
            # the timer heap in the adapter's own clock (the clock whose value is handed to the reducer as `now`)
            rec["wake_abs"] = sorted([[ms(at), p_tick(tk)["k"]] for (at, _s, tk) in runner.scheduled_wakeups])
            if self.observe_c11:
                try:
                    rebuilt = CL.rebuild_state_from_ticks(adapter.init_state, list(adapter.replay()))
                    rec["rebuilt"] = p_state(rebuilt)
                except Exception as ex:  # noqa: BLE001
                    rec["rebuilt"] = {"error": type(ex).__name__ + ": " + str(ex)[:200]}
        self.log(rec)

    # ---- life cycle
    def start(self, uid="s0", ctx=None):
        self.run_no += 1
        if self.run_no > 1:
            self.rig.live = {}         # bodies of an earlier run that are still parked at their gates are not this run's
        self.outcome = None
        self.stream_done = False
        self.consumers2 = 0            # further consumers attached while the run was live ...
        self.consumers2_done = 0       # ... and how many of them have terminated (by the end of the stream or an error)

        async def consume(h):
            try:
                async for ev in h.stream_events(expose_internal=True):
                    self.log({"e": "stream", "p": p_pub(ev)})
            except asyncio.CancelledError:
                raise                      # harness shutdown: the consumer did not terminate by itself
            except Exception as ex:  # noqa: BLE001
                self.log({"e": "stream_error", "err": type(ex).__name__})
            self.stream_done = True
            self.log({"e": "stream_end"})

        async def wait(h):
            try:
                r = await h
                self.outcome = {"kind": "result", "detail": str(r)}
            except WorkflowCancelledByUser:
                self.outcome = {"kind": "cancelled", "detail": ""}
            except WorkflowTimeoutError as ex:
                self.outcome = {"kind": "timedout", "detail": str(ex)[:200]}
            except asyncio.CancelledError:
                self.outcome = {"kind": "aborted", "detail": ""}
                raise
            except Exception as ex:  # noqa: BLE001
                self.outcome = {"kind": "failed", "detail": type(ex).__name__}
            self.log({"e": "outcome", **self.outcome})

        def go():
            if ctx is None:
                self.handler = self.wf.run(start_event=E.TYPES["Start"](uid=uid))
            elif getattr(self, "_reuse_with_start", False):
                # the SAME context object used for a follow-up run after its run has ended (is_running false: a start event)
                self.handler = self.wf.run(ctx=ctx, start_event=E.TYPES["Start"](uid=uid))
            else:
                self.handler = self.wf.run(ctx=ctx)
            if getattr(self, "snap_at_start", False):
                # serialised right after run(ctx=...) returned, before the control loop has executed anything
                try:
                    self.early_snap = json.loads(json.dumps(self.handler.ctx.to_dict()))
                except Exception as ex:  # noqa: BLE001
                    self.early_snap = None
                    self.log({"e": "early_snapshot_error", "err": type(ex).__name__})
            self.consumer = self.loop.create_task(consume(self.handler))
            self.waiter = self.loop.create_task(wait(self.handler))

        self.log({"e": "cmd", "cmd": ["start", uid]})
        self.loop.call_soon(go)
        self.loop.quiesce()
        try:
            import time as _t
            self.log({"e": "run_init", "state": p_state(self.handler._external_adapter.init_state),
                      "now": ms(getattr(self, "last_now", _t.time()))})
        except Exception as ex:  # noqa: BLE001
            self.log({"e": "run_init_error", "err": type(ex).__name__})

    # ---- what the driver may do now
    def enabled(self, ext_menu=(), allow_cancel=True, max_ext=3, batch=False, sleep_ms=0):
        out = []
        og = self.rig.open_gates()
        for k in og:
            out.append(["release", k[0], k[1], k[2], k[3]])
        if batch:
            # two bodies resumed in the same loop iteration (no quiescence point in between)
            for i in range(len(og)):
                for j in range(len(og)):
                    if i != j and len(out) < 40:
                        out.append(["release2"] + list(og[i]) + list(og[j]))
        if batch and self.outcome is None and self.prog.get("timeout") is not None and self.jumps < 1:
            # a body finishes, then the loop is held up until the workflow timeout has elapsed, then it runs again
            deadline = None
            for r in _RUNNERS.values():
                for (at, _s, tk) in r.scheduled_wakeups:
                    if isinstance(tk, T.TickTimeout):
                        deadline = at
            if deadline is not None:
                for k in og[:3]:
                    out.append(["release_freeze", k[0], k[1], k[2], k[3], ms(self._to_loop_time(deadline) - self.t0)])
        if sleep_ms and og and self.outcome is None and self.slept < 3:
            out.append(["sleep", sleep_ms])      # a step body takes time
        if self.outcome is None and self.handler is not None:
            if getattr(self, "second_consumer", False) and self.consumers2 < 1:
                out.append(["consume2"])      # another task starts reading handler.stream_events() while the run is live
            if self.ext_sent < max_ext:
                for (ty, target) in ext_menu:
                    k = 1 if ty.endswith("1") else 0
                    out.append(["send", ty.rstrip("1"), "x%d" % self.ext_sent, target or "*", k])
            if allow_cancel and not self.cancelled:
                out.append(["cancel"])
            nt = self.loop.next_timer()
            if nt is not None:
                kind = "other"
                for r in _RUNNERS.values():
                    for (at, _s, tk) in r.scheduled_wakeups:
                        if abs(self._to_loop_time(at) - nt) < 1e-6:
                            kind = p_tick(tk)["k"]
                out.append(["advance", ms(nt - self.t0), kind])
        return out

    def apply(self, cmd):
        self.log({"e": "cmd", "cmd": list(cmd)})
        name = cmd[0]
        if name == "release":
            key = (cmd[1], cmd[2], cmd[3], cmd[4])
            f = self.rig.gates.get(key)
            if f is not None and not f.done():
                f.set_result(None)
            self.loop.quiesce()
        elif name == "release2":
            for key in (tuple(cmd[1:5]), tuple(cmd[5:9])):
                f = self.rig.gates.get(key)
                if f is not None and not f.done():
                    f.set_result(None)
            self.loop.quiesce()
        elif name == "release_freeze":
            self.jumps += 1
            f = self.rig.gates.get(tuple(cmd[1:5]))
            if f is not None and not f.done():
                f.set_result(None)
            self.loop.run_iterations(2)            # the body runs to its end; the control loop has not resumed yet
            self.loop.jump_to(self.t0 + cmd[5] / 1000.0 + 0.001)
            self.loop.quiesce()
        elif name == "sleep":
            self.slept += 1
            self.loop.advance_to(self.loop.time() + cmd[1] / 1000.0)
        elif name == "send":
            ev = E.TYPES[cmd[1]](uid=cmd[2], k=int(cmd[4]) if len(cmd) > 4 else 0)
            target = None if cmd[3] == "*" else cmd[3]
            self.ext_sent += 1

            def do():
                try:
                    self.handler.ctx.send_event(ev, step=target)
                    self.log({"e": "send_ext", "ty": cmd[1], "uid": cmd[2], "target": cmd[3], "ok": True})
                except Exception as ex:  # noqa: BLE001
                    self.log({"e": "send_ext", "ty": cmd[1], "uid": cmd[2], "target": cmd[3], "ok": False,
                              "err": type(ex).__name__})
            self.loop.call_soon(do)
            self.loop.quiesce()
        elif name == "cancel":
            self.cancelled = True

            def do():
                self.loop.create_task(self.handler.cancel_run())
            self.loop.call_soon(do)
            self.loop.quiesce()
        elif name == "advance":
            self.loop.advance_to(self.t0 + cmd[1] / 1000.0)
        elif name == "consume2":
            self.consumers2 += 1

            async def consume2(h):
                try:
                    async for _ev in h.stream_events(expose_internal=True):
                        pass
                except asyncio.CancelledError:
                    raise
                except Exception as ex:  # noqa: BLE001   ("stream already consumed" is a fine way to terminate)
                    self.log({"e": "stream2_error", "err": type(ex).__name__})
                self.consumers2_done += 1
                self.log({"e": "stream2_end"})
            h = self.handler
            self.loop.call_soon(lambda: self.loop.create_task(consume2(h)))
            self.loop.quiesce()
        else:
            raise ValueError(cmd)
        self.log({"e": "quiet", "live": self.live_now(), "queued": self.queued_now(),
                  "open": [list(k) for k in self.rig.open_gates()],
                  "done": self.outcome is not None, "stream_done": self.stream_done,
                  "consumers2": self.consumers2, "consumers2_done": self.consumers2_done})
        self.inspect()

    # ---- the public inspection path of a live handler (C11): ctx.to_dict() / ctx.running_steps()
    def inspect(self):
        """One record per quiescence point: what the handler's context says about the run (to_dict read back into a state,
        running_steps) next to the same rendering of the live runner state.  The SAME context object is inspected every
        time, as a caller polling a handler would."""
        if not self.observe_c11 or self.handler is None:
            return
        from workflows.context.context_types import SerializedContext
        from workflows.context.serializers import JsonSerializer
        from workflows.runtime.types.internal_state import BrokerState
        runner = next(iter(_RUNNERS.values()), None)
        if runner is None:
            return
        ser = JsonSerializer()

        def via_dict(d):
            return p_state(BrokerState.from_serialized(SerializedContext.from_dict_auto(d), self.wf, ser))
        rec = {"e": "inspect", "err": "", "said": {}, "live": {}, "steps_said": [], "steps_live": []}
        try:
            rec["live"] = via_dict(json.loads(json.dumps(runner.state.to_serialized(ser).model_dump(mode="python"))))
            rec["steps_live"] = sorted(n for n, w in runner.state.workers.items() if w.in_progress)
            rec["said"] = via_dict(json.loads(json.dumps(self.handler.ctx.to_dict())))
            co = self.handler.ctx.running_steps()
            try:
                co.send(None)
                co.close()
                rec["err"] = "running_steps suspended"
            except StopIteration as st:
                rec["steps_said"] = sorted(st.value)
        except Exception as ex:  # noqa: BLE001
            rec["err"] = type(ex).__name__ + ": " + str(ex)[:160]
        self.log(rec)

    # ---- snapshots (C12/C31)
    def snapshot(self):
        d = self.handler.ctx.to_dict()
        return json.loads(json.dumps(d))

    def store_dict(self):
        try:
            st = self.handler.ctx.store
            return json.loads(json.dumps(st.to_dict(self.handler.ctx._face._serializer)))
        except Exception as ex:  # noqa: BLE001
            return {"error": type(ex).__name__}

    def abandon_run(self):
        """The process that executed the current run is gone: its control loop, step bodies, timers and consumers are
        dropped without a trace (nothing of it may act in the run resumed from the snapshot)."""
        self._muted = True
        try:
            for t in asyncio.all_tasks(self.loop):
                t.cancel()
            self.loop.quiesce()
            _RUNNERS.clear()
        finally:
            self._muted = False
            self._cur_tick = None

    def reuse(self, uid="s1"):
        """workflow.run(ctx=<the context of the run that has just ended>, start_event=...): a follow-up run on the same context.
        Whatever the ended run left in the state (work that was still in flight when another step ended the run) is part of
        the new run's initial state."""
        ctx = self.handler.ctx
        for k in list(self.rig.gates):
            g = self.rig.gates[k]
            if not g.done():
                g.cancel()                 # bodies of the ended run that are still parked
        self.loop.quiesce()
        self.rig.gates.clear()
        self.rig.gate_order.clear()
        _RUNNERS.clear()
        self.cancelled = False
        self._reuse_with_start = True
        try:
            self.start(uid, ctx=ctx)
        finally:
            self._reuse_with_start = False
        self.log({"e": "quiet", "live": self.live_now(), "queued": self.queued_now(),
                  "open": [list(k) for k in self.rig.open_gates()],
                  "done": self.outcome is not None, "stream_done": self.stream_done,
                  "consumers2": self.consumers2, "consumers2_done": self.consumers2_done})
        self.inspect()

    def resume_from(self, snap: dict):
        self.abandon_run()
        ctx = Context.from_dict(self.wf, snap)
        self.rig.gates.clear()
        self.rig.gate_order.clear()
        self.cancelled = False
        self.start(ctx=ctx)
        # the resumed run has started what the snapshot held: a quiescence point like the one after every command
        self.log({"e": "quiet", "live": self.live_now(), "queued": self.queued_now(),
                  "open": [list(k) for k in self.rig.open_gates()],
                  "done": self.outcome is not None, "stream_done": self.stream_done,
                  "consumers2": self.consumers2, "consumers2_done": self.consumers2_done})
        # ... and an inspection point: possibly BEFORE the resumed run has recorded its first tick
        self.inspect()

    def drain(self, max_rounds=200):
        """Release every open gate until none is left (no time advance, no external input)."""
        n = 0
        while self.outcome is None and n < max_rounds:
            g = self.rig.open_gates()
            if not g:
                break
            self.apply(["release", g[0][0], g[0][1], g[0][2], g[0][3]])
            n += 1
        # what is left in the collect buffers of the live run: list of [step, buffer id, [event types]]
        left = []
        for r_ in _RUNNERS.values():
            for sname, w in sorted(r_.state.workers.items()):
                for b, evs in sorted(w.collected_events.items()):
                    left.append([sname, b, [E.ty_of(e) for e in evs]])
        self.log({"e": "drained", "live_run": self.outcome is None, "open": len(self.rig.open_gates()), "left": left})

    def state_key(self):
        last = None
        for r in reversed(self.trace):
            if r["e"] == "tick" and "state" in r:
                last = r
                break
        st = json.dumps([last["state"], last["wakeups"], last["buffer"]], sort_keys=True) if last else ""
        return (st, tuple(self.rig.open_gates()), self.ext_sent, self.cancelled, self.outcome is not None,
                self.now_ms(), self.slept)

    def close(self):
        try:
            for k in self.rig.open_gates():
                self.rig.gates[k].cancel()
            vloop.close_loop(self.loop)
        finally:
            self._clocks.__exit__(None, None, None)
            _RUNNERS.clear()


def run_schedule(prog, schedule, start_uid="s0"):
    s = EngineSystem(prog)
    try:
        s.start(start_uid)
        for cmd in schedule:
            s.apply(cmd)
        return s.trace
    finally:
        s.close()
