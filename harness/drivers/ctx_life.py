"""Driver for CtxLife.tla: the public life cycle of a Context / WorkflowHandler pair on the real engine under the
virtual loop.  One workflow with one gated step `a` (StartEvent -> StopEvent) that counts its executions in the state
store; the driver decides how a run ends (finish / fail / cancel / timeout).  Every operation returns the CLASS of what the
caller saw (a value kind or the exception class name) and the projection of the abstract state afterwards."""
from __future__ import annotations

import asyncio
import json

from harness.env import stubimport, vloop

stubimport.install()

TIMEOUT = 50.0


def _mk_class(ref):
    from workflows import Context, Workflow, step
    from workflows.events import StartEvent, StopEvent

    class OneStep(Workflow):
        @step
        async def a(self, ctx: Context, ev: StartEvent) -> StopEvent:
            s = ref[0]
            n = int(await ctx.store.get("n", default=0)) + 1
            await ctx.store.set("n", n)
            s.executions += 1
            g = s.loop.create_future()
            s.gate = g
            try:
                await g
            finally:
                if s.gate is g:
                    s.gate = None
            return StopEvent(result="r%d" % n)

    return OneStep


class System:
    def __init__(self):
        self.loop = vloop.new_loop()
        self._clk = vloop.patched_clocks(self.loop)
        self._clk.__enter__()
        self.ref = [self]
        self.wf = _mk_class(self.ref)(timeout=TIMEOUT)
        from workflows import Context
        self.Context = Context
        self.ctx = Context(self.wf)
        self.handler = None
        self.gate = None
        self.executions = 0
        self.snap = None
        self.streams = 0

    # ---- helpers
    def _call(self, fn):
        """Run fn() (sync or returning a coroutine) inside the loop; -> (kind, value)"""
        box = {}

        async def go():
            try:
                r = fn()
                if asyncio.iscoroutine(r):
                    r = await r
                box["v"] = r
            except BaseException as ex:  # noqa: BLE001
                box["e"] = ex
        t = self.loop.create_task(go())
        self.loop.quiesce()
        if not t.done():
            t.cancel()
            self.loop.quiesce()
            return ("pending", None)
        if "e" in box:
            return (type(box["e"]).__name__, box["e"])
        return ("ok", box.get("v"))

    def run_state(self):
        h = self.handler
        if h is None:
            return "none"
        t = h._result_task if hasattr(h, "_result_task") else None
        if t is None or not t.done():
            return "live"
        if t.cancelled():
            return "aborted"
        ex = t.exception()
        if ex is None:
            return "result"
        n = type(ex).__name__
        return {"WorkflowCancelledByUser": "cancelled", "WorkflowTimeoutError": "timedout"}.get(n, "failed")

    # ---- operations
    def op(self, name):
        k, v = getattr(self, "op_" + name)()
        return {"op": name, "res": k if k != "ok" else self._val(name, v), "post": self.project()}

    def _val(self, name, v):
        if name == "running_steps":
            return "steps:" + ",".join(sorted(v))
        if name == "is_running":
            return "true" if v else "false"
        if name in ("result",):
            return "value"
        if name == "stream":
            return "stream:" + v
        return "ok"

    def op_run(self):
        def f():
            self.handler = self.wf.run(ctx=self.ctx)
            return None
        return self._call(f)

    def op_finish(self):
        if self.gate is None or self.gate.done():
            return ("noop", None)
        self.gate.set_result(None)
        self.loop.quiesce()
        return ("ok", None)

    def op_fail(self):
        if self.gate is None or self.gate.done():
            return ("noop", None)
        self.gate.set_exception(ValueError("boom"))
        self.loop.quiesce()
        return ("ok", None)

    def op_cancel(self):
        if self.handler is None:
            return ("noop", None)
        return self._call(lambda: self.handler.cancel_run())

    def op_timeout(self):
        if self.run_state() != "live":
            return ("noop", None)
        self.loop.advance_to(self.loop.time() + TIMEOUT + 1)
        self.loop.quiesce()
        return ("ok", None)

    def op_to_dict(self):
        def f():
            self.snap = json.loads(json.dumps(self.ctx.to_dict()))
            return None
        return self._call(f)

    def op_from_dict(self):
        if self.snap is None:
            return ("noop", None)

        def f():
            self.ctx = self.Context.from_dict(self.wf, self.snap)
            self.handler = None
            return None
        return self._call(f)

    def op_running_steps(self):
        return self._call(lambda: self.ctx.running_steps())

    def op_is_running(self):
        return self._call(lambda: self.ctx.is_running)

    def op_send(self):
        from harness.programs import events as E  # noqa: F401
        from workflows.events import HumanResponseEvent
        return self._call(lambda: self.ctx.send_event(HumanResponseEvent(response="x")))

    def op_result(self):
        if self.handler is None:
            return ("noop", None)
        if self.run_state() == "live":
            return ("live", None)

        async def f():
            return await self.handler
        return self._call(f)

    def op_step_api(self):
        from workflows.events import HumanResponseEvent
        return self._call(lambda: self.ctx.wait_for_event(HumanResponseEvent))

    def op_stream(self):
        if self.handler is None:
            return ("noop", None)
        if self.run_state() == "live":
            return ("live", None)

        async def f():
            n = 0
            last = "-"
            async for ev in self.handler.stream_events():
                n += 1
                last = type(ev).__name__
            return "%s" % last
        return self._call(f)

    def project(self):
        store_n = -1
        try:
            k, v = self._call(lambda: self.ctx.store.get("n", default=0))
            store_n = int(v) if k == "ok" else -1
        except Exception:  # noqa: BLE001
            pass
        face = type(self.ctx._face).__name__
        return {"face": {"PreContext": "pre", "ExternalContext": "ext"}.get(face, face), "run": self.run_state(),
                "store": store_n, "executions": self.executions, "gate": self.gate is not None and not self.gate.done()}

    def close(self):
        try:
            for t in asyncio.all_tasks(self.loop):
                t.cancel()
            self.loop.quiesce()
        except BaseException:  # noqa: BLE001
            pass
        self._clk.__exit__(None, None, None)
        vloop.close_loop(self.loop)


def run_sequence(ops):
    s = System()
    try:
        return [s.op(o) for o in ops]
    finally:
        s.close()
