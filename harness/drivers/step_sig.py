"""Driver for StepSig.tla: build a real function with the given signature shape and observe what
workflows.utils.inspect_signature / validate_step_signature and the public @step decorator make of it."""
from __future__ import annotations

from typing import Annotated, Optional, Union

from harness.env import stubimport

stubimport.install()

from pydantic import BaseModel  # noqa: E402
from workflows import Context, step  # noqa: E402
from workflows.errors import WorkflowValidationError  # noqa: E402
from workflows.events import Event  # noqa: E402
from workflows.resource import Resource  # noqa: E402
from workflows.utils import inspect_signature, validate_step_signature  # noqa: E402


class A(Event):
    pass


class B(Event):
    pass


class MyState(BaseModel):
    n: int = 0


def _factory() -> int:
    return 1


def _ann(kind, variant):
    if kind == "ctx":
        return Context
    if kind == "ctx_typed":
        return Context[MyState]
    if kind == "ev":
        return A
    if kind == "ev_opt":
        return Optional[A] if variant % 2 else (A | None)
    if kind == "ev_union":
        return Union[A, B] if variant % 2 else (A | B)
    if kind == "ev_mixed":
        return Union[A, int] if variant % 2 else (A | int)
    if kind == "plain":
        return int
    if kind == "res":
        return Annotated[int, Resource(_factory)]
    if kind == "ann_meta":
        return Annotated[A, "note"]
    raise ValueError(kind)


def _ret(kind, variant):
    return {"none": None, "ev": A, "ev_opt": Optional[A] if variant % 2 else (A | None),
            "ev_union": Union[A, B] if variant % 2 else (A | B), "plain": int}[kind]


def _classify(ex):
    msg = str(ex)
    if "at least one parameter" in msg:
        return "no_event"
    if "exactly one parameter" in msg:
        return "many_events"
    if "Return types" in msg:
        return "no_return"
    return "other:" + type(ex).__name__


def _name(t):
    return getattr(t, "__name__", str(t))


def observe(has_self, params, ret, variant=0):
    names = ["p%d" % i for i in range(1, len(params) + 1)]
    src = "async def fn(%s):\n    return None\n" % ", ".join((["self"] if has_self else []) + names)
    ns = {}
    exec(src, ns)  # noqa: S102  (a def with the wanted parameter list; annotations are attached as objects below)
    fn = ns["fn"]
    fn.__qualname__ = "W.fn" if has_self else "fn"
    ann = {n: _ann(k, variant) for n, k in zip(names, params) if k != "bare"}
    if ret != "missing":
        ann["return"] = _ret(ret, variant)
    fn.__annotations__ = ann
    out = {"outcome": "ok", "ctx": 0, "ctx_typed": 0, "nres": 0, "acc": [], "rets": [], "deco": "-"}
    try:
        spec = inspect_signature(fn)
        out["ctx"] = (names.index(spec.context_parameter) + 1) if spec.context_parameter in names else 0
        out["ctx_typed"] = 1 if spec.context_state_type is MyState else 0
        out["nres"] = len(spec.resources)
        out["rets"] = sorted(_name(t) for t in spec.return_types)
        out["nevents"] = len(spec.accepted_events)
        if len(spec.accepted_events) == 1:
            out["acc"] = sorted(_name(t) for t in next(iter(spec.accepted_events.values())))
        validate_step_signature(spec)
    except WorkflowValidationError as ex:
        out["outcome"] = _classify(ex)
    except Exception as ex:  # noqa: BLE001
        out["outcome"] = "other:" + type(ex).__name__
    if has_self:
        # the public path: the decorator on a method
        try:
            step(fn)
            out["deco"] = "ok"
        except WorkflowValidationError as ex:
            out["deco"] = _classify(ex)
        except Exception as ex:  # noqa: BLE001
            out["deco"] = "other:" + type(ex).__name__
    return out
