"""Observer runs whose module EXTENDS a spec module living in another specs/ directory.

Same contract as harness.tracecheck.observe (one VERDICT per trace, Machinery on TLC failure); the only
difference is the TLA-Library path so that specs/obs/Obs_Cxx.tla can EXTEND specs/<area>/<Module>.tla.
"""
from __future__ import annotations

import json
from pathlib import Path

from harness import tlc
from harness.core import SPECS, Machinery


# short TLC runs are dominated by JVM warm-up; C1-only compilation and few GC threads start much faster,
# which matters when other checks share the machine
FAST_JVM = ("-XX:TieredStopAtLevel=1", "-XX:ParallelGCThreads=2")
LONG_JVM = ("-XX:ParallelGCThreads=4",)


def observe(chk, module_rel, cfg_rel, batch: dict, *, libs=(), name="obs", workers=1, timeout=3600, jvm=FAST_JVM,
            traces_key="traces", record=True):
    f = Path(chk.work) / (name + ".json")
    f.write_text(json.dumps(batch))
    lib = ":".join(str(SPECS / d) for d in libs)
    res = tlc.run(SPECS / module_rel, SPECS / cfg_rel, workdir=Path(chk.work) / ("w_" + name), workers=workers,
                  env={"TRACE_FILE": str(f)}, deadlock=False, coverage=False, timeout=timeout,
                  jvm_opts=tuple(jvm) + (("-DTLA-Library=" + lib,) if lib else ()))
    if res.error or res.violated:
        raise Machinery("observer %s failed: %s %s\n%s" % (module_rel, res.error, res.violated,
                                                           "\n".join(res.stdout.splitlines()[-30:])))
    out = {}
    for v in res.prints:
        if isinstance(v, tuple) and len(v) >= 3 and v[0] == "VERDICT":
            tid, clause = v[1], v[2]
            prev = out.get(tid)
            if prev is None or (prev[0] == "ok" and clause != "ok"):
                out[tid] = (clause, v[3] if len(v) > 3 else None) + tuple(v[4:])
    n = len(batch[traces_key])
    missing = [i for i in range(1, n + 1) if i not in out]
    if missing:
        raise Machinery("observer %s gave no verdict for traces %s (of %d)" % (module_rel, missing[:10], n))
    if record:      # callers running observers in threads record afterwards, in a fixed order
        chk.record_tlc(name, res, count=False)
    f.unlink(missing_ok=True)
    return out, res
