"""Driver for the handler table of the real MemoryWorkflowStore / SqliteWorkflowStore (C24, reused by C21).

Abstract operations (actions of HandlerStore.tla) -> real calls:
  upsert(id, wf, st, hr, idle)  -> store.update(PersistentHandler(handler_id=id, workflow_name=wf, status=st,
                                      run_id="r_"+id if hr else None, idle_since=<a datetime> if idle=="T" else None))
  update(id, st, io)            -> store.update_handler_status("r_"+id, status=None if st=="keep" else st,
                                      idle_since=<unset>|<a datetime>|None)
  delete(filter)                -> store.delete(HandlerQuery(...))        ret_n = returned count
  query(filter)                 -> store.query(HandlerQuery(...))         ret_ids = handler ids returned (in order)
After every operation the contents of the table are read *not through query()*: memory `store.handlers`,
sqlite a SELECT over a separate connection -- the observer judges query/delete against these contents.
A filter is the JSON form of the spec's record: {"ids": {"given": bool, "vals": [..]}, "runs":.., "wfs":.., "sts":.., "idle": "any"|"T"|"F"}.
"""
from __future__ import annotations

import os
import sqlite3
from datetime import datetime, timezone

from harness.drivers import event_log as evdrv
from harness.env import stubimport, vloop

stubimport.install()
# update_handler_status logs a warning for every unknown run_id; the histories do that on purpose
import logging as _logging
_logging.getLogger("llama_agents.server._store.abstract_workflow_store").setLevel(_logging.ERROR)

T0 = datetime(2026, 1, 1, tzinfo=timezone.utc)
NOFILTER = {"ids": {"given": False, "vals": []}, "runs": {"given": False, "vals": []},
            "wfs": {"given": False, "vals": []}, "sts": {"given": False, "vals": []}, "idle": "any"}


def norm_filter(f):
    """TLC's ToJson output -> canonical python filter (sorted vals)."""
    out = {}
    for k in ("ids", "runs", "wfs", "sts"):
        out[k] = {"given": bool(f[k]["given"]), "vals": sorted(f[k]["vals"])}
    out["idle"] = f["idle"]
    return out


def to_query(f):
    _, _, ab, _ = evdrv.mods()

    def lst(x):
        return list(x["vals"]) if x["given"] else None
    return ab.HandlerQuery(handler_id_in=lst(f["ids"]), run_id_in=lst(f["runs"]), workflow_name_in=lst(f["wfs"]),
                           status_in=lst(f["sts"]), is_idle=None if f["idle"] == "any" else f["idle"] == "T")


def num_given(f):
    return sum(1 for k in ("ids", "runs", "wfs", "sts") if f[k]["given"]) + (0 if f["idle"] == "any" else 1)


class HandlerSystem:
    """One store, driven synchronously (none of these coroutines really suspends; they are run on a virtual loop)."""

    def __init__(self, backend, k=-1, dbdir=None, single=False, shared=None):
        mem, sq, ab, _ = evdrv.mods()
        self.ab = ab
        self.backend = backend
        self.loop = vloop.new_loop()
        self._side = None
        if backend == "memory":
            self.store = mem.MemoryWorkflowStore(max_completed=None if k < 0 else k)
        else:
            if shared is not None:
                try:
                    self.store, self._side = shared
                    c = self._side if self._side is not None else self.store._persistent_conn
                    c.execute("DELETE FROM handlers")
                    c.commit()
                except sqlite3.Error:            # the code under test closed its own connection: fresh store
                    shared = None
                    self._side = None
            if shared is None:
                path = os.path.join(str(dbdir), "handlers_%d.db" % next(evdrv._counter))
                self.store = sq.SqliteWorkflowStore(path, single_connection=single)
                if not single:
                    self._side = sqlite3.connect(path)

    def shared(self):
        return (self.store, self._side)

    def _run(self, coro):
        return self.loop.run_until_complete(coro)

    # ------------------------------------------------------------------ contents, read directly
    def rows(self):
        out = []
        if self.backend == "memory":
            for h in self.store.handlers.values():
                out.append({"id": h.handler_id, "wf": h.workflow_name, "st": h.status,
                            "run": h.run_id if h.run_id is not None else "none",
                            "idle": "T" if h.idle_since is not None else "F"})
        else:
            conn = self._side if self._side is not None else self.store._persistent_conn
            cur = conn.execute("SELECT handler_id, workflow_name, status, run_id, idle_since FROM handlers")
            for r in cur.fetchall():
                out.append({"id": r[0], "wf": r[1], "st": r[2], "run": r[3] if r[3] is not None else "none",
                            "idle": "T" if r[4] is not None else "F"})
            if self._side is not None:
                conn.commit()       # end the read transaction of the side connection
        return sorted(out, key=lambda r: r["id"])

    def queue(self):
        return list(getattr(self.store, "_terminal_queue", []))

    # ------------------------------------------------------------------ operations
    def apply(self, op):
        """op: dict with 'op' and its arguments; returns the trace event (uniform fields)."""
        ev = {"op": op["op"], "id": op.get("id", "-"), "wf": op.get("wf", "-"), "st": op.get("st", "-"),
              "hr": op.get("hr", "-"), "idle": op.get("idle", "-"), "io": op.get("io", "-"),
              "k": int(op.get("k", 0)), "f": op.get("f", NOFILTER), "ret_ids": [], "ret_n": -1, "exc": "-"}
        ab = self.ab
        try:
            if op["op"] == "upsert":
                h = ab.PersistentHandler(handler_id=op["id"], workflow_name=op["wf"], status=op["st"],
                                         run_id=("r_" + op["id"]) if op["hr"] == "T" else None,
                                         idle_since=T0 if op["idle"] == "T" else None)
                self._run(self.store.update(h))
            elif op["op"] == "update":
                kw = {}
                if op["st"] != "keep":
                    kw["status"] = op["st"]
                if op["io"] == "set":
                    kw["idle_since"] = T0
                elif op["io"] == "clear":
                    kw["idle_since"] = None
                self._run(self.store.update_handler_status("r_" + op["id"], **kw))
            elif op["op"] == "delete":
                ev["ret_n"] = int(self._run(self.store.delete(to_query(op["f"]))))
            elif op["op"] == "query":
                ev["ret_ids"] = [h.handler_id for h in self._run(self.store.query(to_query(op["f"])))]
            else:
                raise ValueError(op["op"])
        except Exception as e:      # recorded, judged by the observer (clause no_error)
            ev["exc"] = type(e).__name__
        try:
            ev["rows"] = self.rows()
        except sqlite3.Error as e:
            ev["rows"] = []
            if ev["exc"] == "-":
                ev["exc"] = "contents:" + type(e).__name__
        ev["tq"] = self.queue()
        return ev

    def close(self):
        vloop.close_loop(self.loop)
        if self._side is not None and self.backend != "memory":
            pass    # the side connection is shared / closed by the owner


def run_history(backend, k, ops, dbdir=None, shared=None, single=False):
    s = HandlerSystem(backend, k, dbdir=dbdir, single=single, shared=shared)
    try:
        return [s.apply(op) for op in ops], s.shared()
    finally:
        s.close()
