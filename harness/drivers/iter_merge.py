"""Driver for the real llama_agents.core.iter_utils.merge_generators under the virtual loop.

Sources are async generators whose every `__anext__` blocks on a gate (a future the driver
resolves); the consumer pulls one item per "pull" command.  Commands (environment actions of
Merge.tla):  ["produce", s]  ["pull"].  A batch of commands is issued at a quiescence point together
with `order`, a permutation of the sources: `asyncio.wait` as seen by iter_utils is wrapped *here*
(never in /repo) so that the `done` collection is iterated in that order -- `done` is a Python set of
tasks hashed by address, so every order is a real behaviour.
"""
from __future__ import annotations

import asyncio
import itertools

from harness.env import stubimport, vloop

stubimport.install()

_CURRENT = None          # the System whose loop is running (one at a time)


def iter_utils():
    import importlib
    mod = importlib.import_module("llama_agents.core.iter_utils")
    if not isinstance(mod.asyncio, _AsyncioProxy):
        mod.asyncio = _AsyncioProxy()
    return mod


class _AsyncioProxy:
    """Stands for the `asyncio` module inside iter_utils: everything is the real thing except that
    the `done` result of wait() is handed back as a list in the order chosen by the schedule."""

    def __getattr__(self, name):
        return getattr(asyncio, name)

    async def wait(self, fs, **kw):
        done, pending = await asyncio.wait(fs, **kw)
        sysm = _CURRENT
        if sysm is None:
            return done, pending
        return sysm.order_done(done), pending


class SrcError(Exception):
    def __init__(self, src):
        super().__init__("source %s failed" % src)
        self.src = src


class System:
    def __init__(self, prog):
        global _CURRENT
        self.iu = iter_utils()
        self.prog = prog
        self.srcs = sorted(prog["len"])
        self.loop = vloop.new_loop()
        _CURRENT = self
        self.prio = list(self.srcs)
        self.gates = {}            # s -> pending gate of the source's current __anext__
        self.pos = {s: 0 for s in self.srcs}
        self.task_src = {}         # anext task -> source
        self.ready = {}            # s -> "item"/"end"/"err": finished, not yet seen to be consumed
        self.out = []
        self.result = "none"
        self.exc = "-"
        self.pulls = 0
        self.pulling = False
        self.pull_gate = None
        self.raised = []           # sources whose generator raised
        self.done_sizes = []       # sizes of the `done` collections handed to merge_generators
        self.merged = self.iu.merge_generators(*[self._source(s) for s in self.srcs])
        self.consumer = self.loop.create_task(self._consume())
        self.loop.quiesce()

    # ------------------------------------------------------------------ real-code side
    async def _source(self, s):
        n = self.prog["len"][s]
        for i in range(1, n + 1):
            await self._gate(s)
            self.pos[s] = i
            self.ready[s] = "item"
            yield {"s": s, "i": i}
        await self._gate(s)
        self.ready[s] = self.prog["term"][s]
        if self.prog["term"][s] == "err":
            self.raised.append(s)
            raise SrcError(s)

    async def _gate(self, s):
        self.task_src[asyncio.current_task()] = s
        g = self.loop.create_future()
        self.gates[s] = g
        try:
            await g
        finally:
            if self.gates.get(s) is g:
                del self.gates[s]

    async def _consume(self):
        while True:
            self.pull_gate = self.loop.create_future()
            await self.pull_gate
            self.pulling = True
            try:
                item = await self.merged.__anext__()
            except StopAsyncIteration:
                self.result = "ended"
                return
            except SrcError as e:
                self.result = "raised"
                self.exc = e.src
                return
            finally:
                self.pulling = False
            self.out.append(item)
            self.ready.pop(item["s"], None)

    def order_done(self, done):
        def rank(t):
            s = self.task_src.get(t)
            return self.prio.index(s) if s in self.prio else len(self.prio)
        lst = sorted(done, key=rank)
        self.done_sizes.append(len(lst))
        for t in lst:                      # an exhausted source is consumed by the loop over `done`
            s = self.task_src.get(t)
            if self.ready.get(s) == "end":
                self.ready.pop(s, None)
        return lst

    # ------------------------------------------------------------------ driver side
    def mpc(self):
        if self.result != "none":
            return "closed"
        if self.pulling:
            return "wait"
        return "init" if self.pulls == 0 else "yielded"

    def enabled(self):
        out = []
        if self.result == "none" and not self.pulling and self.pull_gate is not None and not self.pull_gate.done():
            out.append(["pull"])
        for s in self.srcs:
            g = self.gates.get(s)
            if g is not None and not g.done():
                out.append(["produce", s])
        return out

    def apply(self, cmds, order=None):
        if order:
            self.prio = list(order) + [s for s in self.srcs if s not in order]
        for c in cmds:
            if c[0] == "pull":
                self.pulls += 1
                self.pull_gate.set_result(None)
            elif c[0] == "produce":
                self.gates[c[1]].set_result(None)
            else:
                raise ValueError(c)
        self.loop.quiesce()
        return self.project()

    def project(self):
        return {
            "mpc": self.mpc(),
            "out": [dict(x) for x in self.out],
            "result": self.result,
            "exc": self.exc,
            "pos": dict(self.pos),
            "pending": {s: (s in self.gates and not self.gates[s].done()) for s in self.srcs},
            "raised": list(self.raised),
            "enabled": len(self.enabled()),
        }

    def close(self):
        global _CURRENT
        try:
            if not self.consumer.done():
                self.consumer.cancel()
                self.loop.quiesce()
            self.loop.run_until_complete(self.merged.aclose())
        except BaseException:
            pass
        vloop.close_loop(self.loop)
        _CURRENT = None


def run_schedule(prog, schedule):
    """schedule: list of {"cmds": [...], "order": [...]}; commands that are not enabled are skipped.
    Returns (trace, done_sizes)."""
    s = System(prog)
    try:
        tr = []
        for ev in schedule:
            en = s.enabled()
            cmds = [c for c in ev["cmds"] if c in en]
            if not cmds:
                continue
            order = list(ev.get("order") or s.srcs)
            post = s.apply(cmds, order)
            tr.append({"cmds": cmds, "order": s.prio[:], "post": post})
        return tr, list(s.done_sizes)
    finally:
        s.close()


def explore(prog, max_batch=2, max_traces=None):
    """Exhaustive DFS over batches of enabled commands x relevant `done` orders, pruned on the
    projected state (the real objects are re-created and the path re-executed for every node)."""
    seen = set()
    traces = []
    srcs = sorted(prog["len"])

    def rec(schedule):
        if max_traces is not None and len(traces) >= max_traces:
            return
        s = System(prog)
        try:
            tr = []
            for ev in schedule:
                post = s.apply(ev["cmds"], ev["order"])
                tr.append({"cmds": ev["cmds"], "order": s.prio[:], "post": post})
            en = s.enabled()
            post = tr[-1]["post"] if tr else s.project()
            ready = sorted(s.ready)
            sizes = list(s.done_sizes)
        finally:
            s.close()
        key = repr((post, ready))
        if key in seen and schedule:
            traces.append((tr, sizes))
            return
        seen.add(key)
        pulls = [c for c in en if c[0] == "pull"]
        prods = [c for c in en if c[0] == "produce"]
        batches = []
        for n in range(1, max_batch + 1):
            for k in range(0, min(len(pulls), n) + 1):
                for combo in itertools.combinations(prods, n - k):
                    cmds = pulls[:k] + list(combo)
                    if len(cmds) != n:
                        continue
                    variants = [cmds]
                    if k and combo:
                        variants.append(list(combo) + pulls[:k])
                    together = sorted(set(ready) | {c[1] for c in combo})
                    orders = [list(p) for p in itertools.permutations(together)] if len(together) >= 2 else [together]
                    for v in variants:
                        for o in orders:
                            batches.append({"cmds": v, "order": o + [x for x in srcs if x not in o]})
        if not batches:
            traces.append((tr, sizes))
            return
        for b in batches:
            rec(schedule + [b])

    rec([])
    return traces
