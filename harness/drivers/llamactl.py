"""Driver for the real llamactl configuration services (ConfigManager, EnvService, AuthService) on a
private config directory (LLAMACTL_CONFIG_DIR, read by llama_agents.cli.paths).

Abstract operations (the alphabet of Llamactl.tla) are applied the way the CLI commands compose the
service calls; after each one the user-visible state is projected (one projection function, used for
replay and for recording).  The whole state of the real system is the file profiles.db, so a state can
be saved and restored as bytes -- every operation opens its own connections.

Stubbed (not verified): the package __init__ of llama_agents.cli (drags in the TUI/CLI stack),
llama_agents.cli.auth.client (OIDC/HTTP client) and llama_agents.core.client.manage_client (control
plane HTTP client).  No operation used here reaches the network: profiles carry no api_key_id.
"""
from __future__ import annotations

import asyncio
import os
from pathlib import Path

from harness.env import stubimport

stubimport.install()

_MODS = None


def _import():
    global _MODS
    if _MODS is None:
        import importlib

        import httpx
        stubimport.namespace_stub("llama_agents.cli", os.path.join(stubimport.REPO, "packages/llamactl/src/llama_agents/cli"))
        stubimport.stub_module("llama_agents.cli.auth.client")
        stubimport.stub_module("llama_agents.core.client.manage_client", httpx=httpx)
        cfg = importlib.import_module("llama_agents.cli.config._config")
        envs = importlib.import_module("llama_agents.cli.config.env_service")
        auth = importlib.import_module("llama_agents.cli.config.auth_service")
        schema = importlib.import_module("llama_agents.cli.config.schema")
        _MODS = (cfg, envs, auth, schema)
    return _MODS


NONE = "-"


class System:
    def __init__(self, workdir, envs=("e0", "e1", "e2"), names=("n1", "n2"), fast_sync=True):
        cfg, envs_mod, auth_mod, schema = _import()
        self.schema = schema
        self.auth_mod = auth_mod
        self.dir = Path(workdir) / "llamactl_cfg"
        if self.dir.exists():
            import shutil
            shutil.rmtree(self.dir)
        self.dir.mkdir(parents=True)
        os.environ["LLAMACTL_CONFIG_DIR"] = str(self.dir)
        if fast_sync:
            _install_fast_sync(cfg)
        self.cm = cfg.ConfigManager()
        if Path(self.cm.db_path).parent != self.dir:
            raise RuntimeError("ConfigManager did not honour LLAMACTL_CONFIG_DIR: %s" % self.cm.db_path)
        self.es = envs_mod.EnvService(lambda: self.cm)
        self.env_ids = list(envs)
        self.names = list(names)
        self.default = envs[0]
        self._url = {e: (schema.DEFAULT_ENVIRONMENT.api_url if e == self.default else "https://%s.example.test" % e)
                     for e in envs}
        self._env_of = {u: e for e, u in self._url.items()}
        # profile names are derived from the token by the real code; keep SQL order n1 < n2 < ...
        self._token = {n: "name-%s-secret-%04d" % (n, i) for i, n in enumerate(names)}
        self._real = {n: auth_mod._auto_profile_name_from_token(self._token[n]) for n in names}
        if sorted(self._real.values()) != [self._real[n] for n in names] or len(set(self._real.values())) != len(names):
            raise RuntimeError("profile names do not keep their order: %s" % self._real)
        self._abs = {r: n for n, r in self._real.items()}
        self._loop = asyncio.new_event_loop()

    # ------------------------------------------------------------ state as bytes
    def snapshot(self) -> bytes:
        return Path(self.cm.db_path).read_bytes()

    def restore(self, data: bytes):
        Path(self.cm.db_path).write_bytes(data)
        j = Path(str(self.cm.db_path) + "-journal")
        if j.exists():
            j.unlink()

    def close(self):
        self._loop.close()

    # ------------------------------------------------------------ operations
    def apply(self, op):
        """Returns (ret, ret_id): the abstract return value and the id of the profile the call returned /
        was given ('-' if none)."""
        kind = op[0]
        es, cm = self.es, self.cm
        try:
            if kind == "env_add":
                es.create_or_update_environment(self.schema.Environment(api_url=self._url[op[1]], requires_auth=False))
                return "ok", NONE
            if kind == "env_switch":
                es.switch_environment(self._url[op[1]])
                return "ok", NONE
            if kind == "env_delete":
                return ("true" if es.delete_environment(self._url[op[1]]) else "false"), NONE
            auth = es.current_auth_service()          # what every CLI command does
            if kind == "create_token":
                a = auth.create_profile_from_token("proj", self._token[op[1]])
                return "ok", a.id
            if kind == "oidc":
                n = op[1]
                d = self.schema.DeviceOIDC(device_name="dev", user_id="u-" + n, email=self._real[n], client_id="c",
                                           discovery_url="https://idp.example.test", device_access_token="t-" + n)
                a = auth.create_or_update_profile_from_oidc("proj", d)
                return "ok", a.id
            if kind == "select":                       # `llamactl auth switch NAME` (_select_profile + set_current_profile)
                p = auth.get_profile(self._real[op[1]])
                if not p:
                    return "none", NONE
                auth.set_current_profile(p.name)
                return "ok", p.id
            if kind == "select_any":
                auth.select_any_profile()
                return "ok", NONE
            if kind == "logout":
                r = self._loop.run_until_complete(auth.delete_profile(self._real[op[1]]))
                return ("true" if r else "false"), NONE
            if kind == "update":
                auth.set_project(self._real[op[1]], "proj2")
                p = auth.get_profile(self._real[op[1]])
                if p:
                    p.api_key = "refreshed"
                    auth.update_profile(p)
                return "ok", NONE
            if kind == "cm_create":
                a = cm.create_profile(self._real[op[1]], self._url[op[2]], "proj")
                return "ok", a.id
            if kind == "cm_delete":
                return ("true" if cm.delete_profile(self._real[op[1]], self._url[op[2]]) else "false"), NONE
        except ValueError:
            return "ValueError", NONE
        except Exception as e:  # noqa: BLE001 -- recorded; judged as drift / by the observer on the post-state
            return "exc:" + type(e).__name__, NONE
        raise ValueError("unknown op %r" % (op,))

    # ------------------------------------------------------------ projection
    def observe(self):
        es, cm = self.es, self.cm
        cur = es.get_current_environment().api_url
        envs = sorted(self._env_of.get(e.api_url, e.api_url) for e in es.list_environments())
        rows = sorted(self._env_of.get(e.api_url, e.api_url) for e in es.list_environments()
                      if cm.get_environment(e.api_url) is not None)
        stored = cm.get_settings_current_profile_name()
        act = es.current_auth_service().get_current_profile()
        profiles = []
        for e in self.env_ids:
            for p in cm.list_profiles(self._url[e]):
                profiles.append({"n": self._abs.get(p.name, p.name), "e": e, "id": p.id,
                                 "oidc": bool(p.device_oidc)})
        return {
            "cur_env": self._env_of.get(cur, cur),
            "envs": envs,                 # what list_environments() shows (the built-in default if the table is empty)
            "env_rows": rows,             # rows of table environments (model variable envs)
            "stored": self._abs.get(stored, stored) if stored else NONE,
            "active": ({"n": self._abs.get(act.name, act.name), "e": self._env_of.get(act.api_url, act.api_url), "id": act.id}
                       if act else {"n": NONE, "e": NONE, "id": NONE}),
            "profiles": profiles,
        }


def _install_fast_sync(cfg_mod):
    """Harness-side speed-up: connections opened by _config run with PRAGMA synchronous=OFF (no fsync per
    commit).  Durability against power loss is not part of C37; the SQL the code executes is unchanged."""
    import sqlite3 as real

    if getattr(cfg_mod.sqlite3, "_verif_fast", False):
        return

    class _Shim:
        _verif_fast = True

        def __getattr__(self, name):
            return getattr(real, name)

        @staticmethod
        def connect(*a, **k):
            conn = real.connect(*a, **k)
            conn.execute("PRAGMA synchronous=OFF")
            return conn

    cfg_mod.sqlite3 = _Shim()
