"""Driver for the real llama_agents.server._keyed_lock.KeyedLock under the virtual loop.

Commands (environment actions of KeyedLock.tla):  ["start", p]  ["release", p]  ["cancel", p]
A batch of commands is issued synchronously at a quiescence point, then the loop runs until
quiescent again and the abstract state is projected (same projection for replay and recording).
"""
from __future__ import annotations

import asyncio

from harness.env import stubimport, vloop

stubimport.install()


def _import():
    import importlib
    return importlib.import_module("llama_agents.server._keyed_lock").KeyedLock


class System:
    def __init__(self, procs, keyof, keys=("a", "b")):
        self.procs = list(procs)
        self.keyof = dict(keyof)
        self.keys = sorted(set(keyof.values()) | set(keys))
        self.loop = vloop.new_loop()
        self.kl = _import()()
        self.tasks = {}
        self.gates = {}
        self.began = set()
        self.entered = set()
        self.left = set()
        self.inside = {k: [] for k in self.keys}
        self.max_inside = {k: 0 for k in self.keys}

    async def _proc(self, p):
        k = self.keyof[p]
        self.began.add(p)
        async with self.kl(k):
            self.entered.add(p)
            self.inside[k].append(p)
            self.max_inside[k] = max(self.max_inside[k], len(self.inside[k]))
            try:
                await self.gates[p]
            finally:
                self.inside[k].remove(p)
                self.left.add(p)

    def pc(self, p):
        t = self.tasks.get(p)
        if t is None:
            return "idle"
        if t.done():
            if t.cancelled():
                return "cancelled"
            t.exception()  # surface unexpected errors
            return "done"
        if p not in self.began:
            return "start"
        if p not in self.entered:
            return "wait"
        return "cs" if p not in self.left else "exiting"

    def enabled(self):
        out = []
        for p in self.procs:
            s = self.pc(p)
            if s == "idle":
                out.append(["start", p])
            elif s == "cs":
                out.append(["release", p])
                out.append(["cancel", p])
            elif s == "wait":
                out.append(["cancel", p])
                out.append(["cancel_soon", p])
        return out

    def apply(self, cmds):
        for name, p in cmds:
            if name == "start":
                self.gates[p] = self.loop.create_future()
                self.tasks[p] = self.loop.create_task(self._proc(p))
            elif name == "release":
                if not self.gates[p].done():
                    self.gates[p].set_result(None)
            elif name == "cancel":
                self.tasks[p].cancel()
            elif name == "cancel_soon":
                self.loop.call_soon(self.tasks[p].cancel)
            else:
                raise ValueError(name)
        self.loop.quiesce()
        return self.project()

    def project(self):
        kl = self.kl
        locked, waiters, refs, present = {}, {}, {}, {}
        for k in self.keys:
            lk = kl._locks.get(k)
            present[k] = lk is not None
            refs[k] = int(kl._refs.get(k, 0))
            locked[k] = bool(lk.locked()) if lk is not None else False
            ws = []
            if lk is not None and getattr(lk, "_waiters", None):
                for f in lk._waiters:
                    ws.append("cancelled" if f.cancelled() else ("woken" if f.done() else "pending"))
            waiters[k] = ws
        return {
            "pc": {p: self.pc(p) for p in self.procs},
            "locked": locked, "waiters": waiters, "refs": refs, "present": present,
            "inside": {k: list(v) for k, v in self.inside.items()},
            "max_inside": dict(self.max_inside),
        }

    def close(self):
        for p, t in self.tasks.items():
            if not t.done():
                t.cancel()
        vloop.close_loop(self.loop)


def run_schedule(procs, keyof, schedule):
    """Execute a list of batches; returns the trace (list of {cmds, post})."""
    s = System(procs, keyof)
    try:
        tr = []
        for cmds in schedule:
            post = s.apply(cmds)
            tr.append({"cmds": [list(c) for c in cmds], "post": post})
        return tr
    finally:
        s.close()


def explore(procs, keyof, max_batch=2, max_cancel=2, max_traces=None):
    """Exhaustive exploration of the real object: DFS over batches of enabled commands, pruned on the
    projected state (the real object is re-executed from scratch for every path)."""
    import itertools
    seen = set()
    traces = []

    def key(post, ncancel):
        return (repr(sorted(post["pc"].items())), repr(post["waiters"]), repr(post["inside"]), ncancel)

    def rec(schedule, ncancel):
        if max_traces is not None and len(traces) >= max_traces:
            return
        s = System(procs, keyof)
        try:
            tr = []
            for cmds in schedule:
                tr.append({"cmds": [list(c) for c in cmds], "post": s.apply(cmds)})
            en = s.enabled()
            post = tr[-1]["post"] if tr else s.project()
        finally:
            s.close()
        k = key(post, ncancel)
        if k in seen and schedule:
            traces.append(tr)   # still validate this path, but do not expand it again
            return
        seen.add(k)
        batches = []
        for n in range(1, max_batch + 1):
            for combo in itertools.permutations(en, n):
                if len({c[1] for c in combo}) < n:
                    continue
                nc = sum(1 for c in combo if c[0].startswith("cancel"))
                if ncancel + nc > max_cancel:
                    continue
                batches.append((list(combo), nc))
        if not batches:
            traces.append(tr)
            return
        for b, nc in batches:
            rec(schedule + [b], ncancel + nc)

    rec([], 0)
    return traces
