"""Driver for num_concurrent_runs on the real BasicRuntime under the virtual loop.

Two real Workflow instances of one class (one gated step StartEvent -> StopEvent) share one
BasicRuntime; runs r are started with workflow.run(rid=r).  Commands (environment actions of
RunLimit.tla):  ["start", r]  ["finish", r] (open the step body's gate)  ["fail", r] (the gate raises: the
step fails, the run ends with an error)  ["cancel", r]
(handler.cancel(), hard abort of the task, only for runs still queued on the semaphore).  A batch of
commands is issued at a quiescence point, then the loop runs until quiescent again and the abstract
state is projected.
"""
from __future__ import annotations

import itertools

from harness.env import stubimport, vloop

stubimport.install()


def _mk_class(system_ref):
    from workflows import Workflow, step
    from workflows.events import StartEvent, StopEvent

    class GatedFlow(Workflow):
        @step
        async def only(self, ev: StartEvent) -> StopEvent:
            s = system_ref[0]
            r = ev.rid
            i = s.instof[r]
            s.entered.add(r)
            s.inside[i].append(r)
            s.max_inside[i] = max(s.max_inside[i], len(s.inside[i]))
            try:
                await s.gates[r]
            finally:
                s.inside[i].remove(r)
                s.left.add(r)
            return StopEvent(result=r)

    return GatedFlow


class System:
    def __init__(self, runs, instof, limit, shared=None, wf=None):
        """shared = {"rt", "ref", "cls", "dead"}: a runtime that outlives this system (like the module-level
        basic_runtime); wf: workflow instances of an earlier system used again (in this system's new event loop)."""
        from workflows.plugins.basic import BasicRuntime
        self.runs = list(runs)
        self.instof = dict(instof)
        self.limit = dict(limit)
        self.insts = sorted(self.limit)
        self.loop = vloop.new_loop()
        self._clk = vloop.patched_clocks(self.loop)
        self._clk.__enter__()
        if shared is None:
            self.rt = BasicRuntime()
            ref = [self]
            cls = _mk_class(ref)
            dead = set()
        else:
            self.rt, ref, cls, dead = shared["rt"], shared["ref"], shared["cls"], shared["dead"]
            ref[0] = self
        if wf is not None:
            self.wf = dict(wf)
        else:
            self.wf = {}
            for i in self.insts:
                # adversarial allocation: prefer an object that sits at the address of an instance that has died
                # (CPython hands freed blocks out again; id(workflow) is only unique among live objects)
                spare, pick = [], None
                for _n in range(40 if dead else 1):
                    w = cls(timeout=None, num_concurrent_runs=self.limit[i], runtime=self.rt)
                    if not dead or id(w) in dead:
                        pick = w
                        break
                    spare.append(w)
                self.wf[i] = pick if pick is not None else spare.pop()
                self.reused_address = getattr(self, "reused_address", 0) + (1 if pick is not None and dead else 0)
                del spare
        self.handlers = {}
        self.gates = {}
        self.started = set()
        self.entered = set()
        self.left = set()
        self.cancel_req = set()
        self.inside = {i: [] for i in self.insts}
        self.max_inside = {i: 0 for i in self.insts}
        self.errors = []

    # ------------------------------------------------------------------ projection
    def pc(self, r):
        if r not in self.started:
            return "idle"
        h = self.handlers.get(r)
        if h is None:
            return "started"
        t = h._result_task
        if t.done():
            if t.cancelled() or r in self.cancel_req:
                return "cancelled"
            if t.exception() is not None:
                self.errors.append((r, repr(t.exception())))
                return "error"
            return "done"
        if r not in self.entered:
            return "waiting"
        return "exec" if r not in self.left else "exiting"

    def enabled(self):
        out = []
        for r in self.runs:
            s = self.pc(r)
            if s == "idle":
                out.append(["start", r])
            elif s == "exec":
                out.append(["finish", r])
                out.append(["fail", r])
            elif s == "waiting":
                out.append(["cancel", r])
        return out

    def _start(self, r):
        self.handlers[r] = self.wf[self.instof[r]].run(rid=r)

    def apply(self, cmds):
        for name, r in cmds:
            if name == "start":
                self.started.add(r)
                self.gates[r] = self.loop.create_future()
                self.loop.call_soon(self._start, r)
            elif name == "finish":
                if not self.gates[r].done():
                    self.gates[r].set_result(None)
            elif name == "fail":
                if not self.gates[r].done():
                    self.gates[r].set_exception(RuntimeError("step failed: " + r))
            elif name == "cancel":
                self.cancel_req.add(r)
                self.loop.call_soon(self.handlers[r].cancel)
            else:
                raise ValueError(name)
        self.loop.quiesce()
        return self.project()

    def project(self):
        value, waiters = {}, {}
        for i in self.insts:
            sem = self.rt._max_concurrent_runs.get(id(self.wf[i]))
            if sem is None:
                value[i] = self.limit[i]
                waiters[i] = []
            else:
                value[i] = int(sem._value)
                waiters[i] = ["cancelled" if f.cancelled() else ("woken" if f.done() else "pending")
                              for f in (sem._waiters or ())]
        return {
            "pc": {r: self.pc(r) for r in self.runs},
            "value": value, "waiters": waiters,
            "inside": {i: list(v) for i, v in self.inside.items()},
            "max_inside": dict(self.max_inside),
        }

    def close(self):
        try:
            for r, h in self.handlers.items():
                if not h._result_task.done():
                    h._result_task.cancel()
            self.loop.quiesce()
        except BaseException:
            pass
        self._clk.__exit__(None, None, None)
        vloop.close_loop(self.loop)


def generations(plan, reuse_instances=False):
    """Successive generations on ONE BasicRuntime (as with the module-level basic_runtime): each generation has its own
    event loop and -- unless reuse_instances -- its own workflow instances, created after the previous generation's
    instances were dropped and collected.  Every generation starts all its runs at once and finishes them one by one.
    plan: [(name, runs, instof, limit)] -> [(name, trace, reused_addresses)]"""
    import gc
    from workflows.plugins.basic import BasicRuntime
    ref = [None]
    shared = {"rt": BasicRuntime(), "ref": ref, "cls": _mk_class(ref), "dead": set()}
    out = []
    keep = None
    lines = []           # the whole history as lines of TraceRunLimitGen.tla
    addr_ix = {}         # id() -> 1, 2, ... in order of first appearance (numbers only: no reference is kept)

    def obs(s_, alive):
        tab = shared["rt"]._max_concurrent_runs
        post = s_.project()
        lines.append({"e": "obs", "present": [tab.get(a) is not None for a, _ix in sorted(addr_ix.items(), key=lambda x: x[1])],
                      "holding": {i: len(post["inside"][i]) for i in alive},
                      "waiting": {i: sum(1 for r in s_.runs if s_.instof[r] == i and post["pc"][r] in ("started", "waiting"))
                                  for i in alive}})

    for gi, (name, runs, instof, limit) in enumerate(plan):
        fresh = not (reuse_instances and keep is not None)
        s = System(runs, instof, limit, shared=shared, wf=None if fresh else keep)
        try:
            if fresh:
                for i in s.insts:
                    a = id(s.wf[i])
                    addr_ix.setdefault(a, len(addr_ix) + 1)
                    lines.append({"e": "create", "i": i, "addr": addr_ix[a], "limit": int(limit[i])})
            tr = [{"cmds": [["start", r] for r in runs], "post": s.apply([["start", r] for r in runs])}]
            lines.extend({"e": "start", "i": instof[r]} for r in runs)
            obs(s, s.insts)
            for _k in range(2 * len(runs)):
                en = [c for c in s.enabled() if c[0] == "finish"]
                if not en:
                    break
                tr.append({"cmds": [list(en[0])], "post": s.apply([en[0]])})
                lines.append({"e": "finish", "i": instof[en[0][1]]})
                obs(s, s.insts)
            out.append((name, tr, getattr(s, "reused_address", 0)))
        finally:
            s.close()
        insts = list(s.insts)
        if reuse_instances:
            keep = dict(s.wf)
        else:
            shared["dead"] |= {id(w) for w in s.wf.values()}
        s.handlers.clear()
        s.wf = {}
        ref[0] = None
        del s
        gc.collect()
        if not reuse_instances:
            lines.extend({"e": "die", "i": i} for i in insts)
            lines.append({"e": "obs", "present": [shared["rt"]._max_concurrent_runs.get(a) is not None
                                                  for a, _ix in sorted(addr_ix.items(), key=lambda x: x[1])],
                          "holding": {}, "waiting": {}})
    generations.last_history = {"lines": lines, "naddr": max(1, len(addr_ix))}
    return out


def run_schedule(runs, instof, limit, schedule, filter_enabled=False):
    s = System(runs, instof, limit)
    try:
        tr = []
        for cmds in schedule:
            if filter_enabled:
                en = s.enabled()
                cmds = [c for c in cmds if c in en]
                if not cmds:
                    continue
            tr.append({"cmds": [list(c) for c in cmds], "post": s.apply(cmds)})
        return tr
    finally:
        s.close()


def explore(runs, instof, limit, max_batch=2, max_cancel=1, max_traces=None, max_fail=1):
    """Exhaustive DFS over batches of enabled commands, pruned on the projected state (the real
    runtime and workflows are re-created and the path re-executed for every node)."""
    seen = set()
    traces = []

    def key(post, ncancel):
        # the number of runs made to fail so far is visible in pc ("error")
        return (repr(sorted(post["pc"].items())), repr(post["waiters"]), repr(post["value"]), ncancel)

    def rec(schedule, ncancel):
        if max_traces is not None and len(traces) >= max_traces:
            return
        s = System(runs, instof, limit)
        try:
            tr = []
            for cmds in schedule:
                tr.append({"cmds": [list(c) for c in cmds], "post": s.apply(cmds)})
            en = s.enabled()
            post = tr[-1]["post"] if tr else s.project()
        finally:
            s.close()
        k = key(post, ncancel)
        if k in seen and schedule:
            traces.append(tr)
            return
        seen.add(k)
        batches = []
        for n in range(1, max_batch + 1):
            for combo in itertools.permutations(en, n):
                if len({c[1] for c in combo}) < n:
                    continue
                nc = sum(1 for c in combo if c[0] == "cancel")
                if ncancel + nc > max_cancel:
                    continue
                nf = sum(1 for c in combo if c[0] == "fail") + sum(1 for e in tr for c in e["cmds"] if c[0] == "fail")
                if nf > max_fail:
                    continue
                batches.append((list(combo), nc))
        if not batches:
            traces.append(tr)
            return
        for b, nc in batches:
            rec(schedule + [b], ncancel + nc)

    rec([], 0)
    return traces
