"""Scenario programs, schedule exploration of the real engine, and export of recorded traces
into the batches the TLA+ trace/observer specs read."""
from __future__ import annotations

import random

from harness.drivers import engine as en
from harness.programs.compile import cfg_for_tla

DEV = {"match_done_waiters": True, "wait_index_one_based": True, "no_handlers_unvalidated": True}

EMPTY_STEP = {"queue": [], "ip": [], "coll": {}, "waiters": []}


def reducer_batch(items):
    """items: list of (prog, trace).  One TraceReducer trace per recorded run log."""
    traces = []
    for prog, tr in items:
        cfg = cfg_for_tla(prog)
        ticks = []
        run_init = None
        first = True
        pending_first = {}
        # run_init records are logged right after start(); ticks of that run may precede them in the log
        inits = {r["run"]: r["state"] for r in tr if r["e"] == "run_init"}
        seen_runs = set()
        for r in tr:
            if r["e"] != "tick" or "state" not in r:
                continue
            fo = r["run"] not in seen_runs
            seen_runs.add(r["run"])
            ticks.append({"tick": r["tick"], "now": r["now"], "post": r["state"], "pubs": r["pubs"],
                          "first_of_run": fo, "run_init": inits.get(r["run"], r["state"])})
        init = {"running": False, "steps": {s: dict(EMPTY_STEP) for s in cfg["order"]}}
        traces.append({"cfg": cfg, "init": init, "ticks": ticks})
    return {"dev": DEV, "traces": traces}


def random_walk(prog, rng: random.Random, max_steps=60, ext_menu=(), p_cancel=0.03, start_uid="s0",
                weights=None):
    """One seeded implementation-driven walk: at every quiescence point choose one enabled driver action."""
    s = en.EngineSystem(prog)
    sched = []
    try:
        s.start(start_uid)
        for _ in range(max_steps):
            if s.outcome is not None:
                break
            acts = s.enabled(ext_menu=ext_menu, allow_cancel=p_cancel > 0)
            if not acts:
                break
            ws = []
            for a in acts:
                if a[0] == "cancel":
                    ws.append(p_cancel)
                elif a[0] == "advance":
                    ws.append(1.0 if len(acts) == 1 else (0.04 if a[2] == "timeout" else 0.6))
                elif a[0] == "send":
                    ws.append(0.5)
                else:
                    ws.append(1.0)
            if sum(ws) <= 0:
                break
            c = rng.choices(acts, weights=ws)[0]
            sched.append(c)
            s.apply(c)
        return s.trace, sched
    finally:
        s.close()


def explore(prog, ext_menu=(), max_depth=14, max_paths=300, rng=None, allow_cancel=False, max_ext=2, drain=True,
            timeout_advance=True):
    """Bounded DFS over driver schedules of the real engine, pruned on (projected runner state, open gates,
    inputs used, virtual time).  Every path is executed from scratch on a fresh system; returns
    [(trace, schedule)]."""
    rng = rng or random.Random(0)
    seen = set()
    out = []
    stack = [[]]
    while stack and len(out) < max_paths:
        prefix = stack.pop()
        s = en.EngineSystem(prog)
        sched = []
        try:
            s.start("s0")
            ok = True
            for c in prefix:
                if c not in s.enabled(ext_menu=ext_menu, allow_cancel=allow_cancel, max_ext=max_ext):
                    ok = False
                    break
                s.apply(c)
                sched.append(c)
            while ok and len(sched) < max_depth and s.outcome is None:
                k = s.state_key()
                if k in seen and len(sched) >= len(prefix) and sched:
                    break
                seen.add(k)
                acts = s.enabled(ext_menu=ext_menu, allow_cancel=allow_cancel, max_ext=max_ext)
                if not timeout_advance:
                    acts = [a for a in acts if not (a[0] == "advance" and a[2] == "timeout")]
                if not acts:
                    break
                rng.shuffle(acts)
                for a in acts[1:]:
                    stack.append(sched + [a])
                s.apply(acts[0])
                sched.append(acts[0])
            if drain:
                s.drain()
            out.append((s.trace, sched))
        finally:
            s.close()
    return out
